"""Contracts for whatshap/align.pyx (C19): edit_distance is the Levenshtein distance.

Specification.  LEV(p, i, j) is the Levenshtein distance between s[p : p+i] and t[p : p+j], *defined* by the Wagner-Fischer recurrence (DEFS):
    LEV(p, i, 0) = i,   LEV(p, 0, j) = j,
    LEV(p, i, j) = min(LEV(p, i-1, j-1) + [s[p+i-1] != t[p+j-1]],  LEV(p, i-1, j) + 1,  LEV(p, i, j-1) + 1)        (i, j >= 1)
(well-founded recursion on i + j, hence a consistent definition).  The statement of C19 is  edit_distance(s, t) == LEV(0, len(s), len(t)).

The real function first strips the common prefix (pointer increments: p grows) and the common suffix (i, j shrink), then runs a one-column DP.  That
stripping does not change the distance is NOT part of the definition; it is the lemma group L#stripping-keeps-the-distance at the end of this file:
    LIP     LEV(p,i,j) <= LEV(p,i,j+1) + 1  and  LEV(p,i,j) <= LEV(p,i+1,j) + 1                         (induction on i + j; step discharged)
    SUFFIX  s[p+i-1] == t[p+j-1]  =>  LEV(p,i,j) == LEV(p,i-1,j-1)                                         (from the recurrence and LIP)
    PREFIX  s[p] == t[p]          =>  LEV(p,i,j) == LEV(p+1,i-1,j-1)                                       (induction on i + j; step discharged)
    DIAG    LEV(p,i,j) >= |i - j|                                                                         (induction on i + j; step discharged)
Each induction step is a discharged obligation; the induction principle over the naturals that turns base + step into "for all i, j" is meta-level
(as for the heap-root and lexicographic-order lemmas of priorityqueue_pyx).  The function's own obligations use the lemma statements as hypotheses
(`uses_lemmas`), recorded as such in the evidence.

Banded mode (maxdiff = e >= 0), second contract: result == LEV if LEV <= e, and result > e otherwise (the docstring's promise).  Needs in addition
    COLUMN  every cell of column j is > e  =>  every cell of column j+1 is > e   (inner induction on the row; step discharged), and its closure
            over j <= j' (induction on j'; step discharged).

C `int` arithmetic is treated as mathematical: all values are bounded by len(s) + len(t) + maxdiff + 1, required to be < 2**31.
"""
import z3
from vcgen.api import *  # noqa

R = Registry("whatshap/align.pyx", lang="cython")
R.ctypes.update({"int": INT, "bint": BOOL, "bytes": STR, "int[:]": LIST(INT)})
P = ["C19"]
LEV = z3.Function("LEV", z3.IntSort(), z3.IntSort(), z3.IntSort(), z3.IntSort())


def model_isinstance(eng, st, node, args, kwargs):
    """isinstance(x, unicode): bytes and str inputs are both admitted, the answer is left open"""
    if getattr(eng, "concrete", False):
        return z3.BoolVal(True)            # the cross-check passes str
    return z3.Bool(fresh_name("is_unicode"))


def model_cvarray(eng, st, node, args, kwargs):
    """cython.view.array(shape=(k,), itemsize, format): an uninitialised buffer of k ints (k >= 1 or ValueError)"""
    shape = kwargs.get("shape")
    if not isinstance(shape, VTuple) or len(shape.items) != 1:
        raise Unsupported("cvarray shape")
    k = to_z3(shape.items[0])
    eng.oblige(st, "noexc", k >= 1, "ValueError-invalid-shape")
    return VList(INT, z3.Array(fresh_name("buffer.arr"), z3.IntSort(), z3.IntSort()), k)


R.external_models.update({"isinstance": model_isinstance, "cvarray": model_cvarray})
R.constants["unicode"] = z3.IntVal(0)        # the type object; only ever an argument of isinstance


def _c(S, T, p, i, j):
    return z3.If(S.arr[p + i - 1] != T.arr[p + j - 1], 1, 0)


def _min3(a, b, c):
    ab = z3.If(a <= b, a, b)
    return z3.If(ab <= c, ab, c)


def rec_instance(S, T, p, i, j):
    """the defining equations at (p, i, j)"""
    return z3.And(z3.Implies(z3.And(i >= 0, j == 0), LEV(p, i, j) == i), z3.Implies(z3.And(i == 0, j >= 0), LEV(p, i, j) == j),
                  z3.Implies(z3.And(i >= 1, j >= 1),
                             LEV(p, i, j) == _min3(LEV(p, i - 1, j - 1) + _c(S, T, p, i, j), LEV(p, i - 1, j) + 1, LEV(p, i, j - 1) + 1)))


def defs(S, T):
    p, i, j = z3.Ints(fresh_name("p") + " " + fresh_name("i") + " " + fresh_name("j"))
    return z3.ForAll([p, i, j], rec_instance(S, T, p, i, j), patterns=[LEV(p, i, j)])


@R.spec
def DEFS(eng, st):
    return defs(st.env["s"], st.env["t"])


@R.spec
def lev(eng, st, p, i, j):
    return LEV(to_z3(p), to_z3(i), to_z3(j))


@R.spec
def off(eng, st, ptr):
    return ptr.off


# ------------------------------------------------------------------------------------------------ lemma statements
def LIP(p, i, j):
    return z3.And(LEV(p, i, j) <= LEV(p, i, j + 1) + 1, LEV(p, i, j) <= LEV(p, i + 1, j) + 1)


def SUFFIX(S, T, p, i, j):
    return z3.Implies(z3.And(i >= 1, j >= 1, S.arr[p + i - 1] == T.arr[p + j - 1]), LEV(p, i, j) == LEV(p, i - 1, j - 1))


def PREFIX(S, T, p, i, j):
    return z3.Implies(z3.And(i >= 1, j >= 1, S.arr[p] == T.arr[p]), LEV(p, i, j) == LEV(p + 1, i - 1, j - 1))


def DIAG(p, i, j):
    return z3.And(LEV(p, i, j) >= i - j, LEV(p, i, j) >= j - i)


def lemma_facts(eng, st):
    """the lemma statements, as hypotheses of the function's obligations (patterns: only existing LEV terms are matched, the lemmas create no new terms
    except the single neighbour they speak about)"""
    S, T = st.env["s"], st.env["t"]
    p, i, j = z3.Ints(fresh_name("p") + " " + fresh_name("i") + " " + fresh_name("j"))
    dom = z3.And(p >= 0, i >= 0, j >= 0)
    return z3.And(
        z3.ForAll([p, i, j], z3.Implies(dom, SUFFIX(S, T, p, i, j)), patterns=[LEV(p, i, j)]),
        z3.ForAll([p, i, j], z3.Implies(dom, PREFIX(S, T, p, i, j)), patterns=[LEV(p, i, j)]),
        z3.ForAll([p, i, j], z3.Implies(dom, DIAG(p, i, j)), patterns=[LEV(p, i, j)]))


lemma_facts.__name__ = "lemma group align.pyx:L#stripping-keeps-the-distance (SUFFIX, PREFIX, DIAG)"

_PTR = "off(sv) == off(tv) and off(sv) >= 0"
_KEEP = "lev(0, len(s), len(t)) == lev(off(sv), m, n)"
_COSTS = "len(costs) == m + 1"
_BOUND = ("sizes", "len(s) + len(t) < 2147483647")

R.contract(
    "edit_distance", params={"s": STR, "t": STR, "maxdiff": INT},
    requires=[_BOUND, ("unbanded", "maxdiff == -1"), ("definition-of-LEV", "DEFS()")],
    ensures=[("result-is-the-levenshtein-distance", "result == lev(0, len(s), len(t))")],
    locals={"costs": LIST(INT)},
    loops={
        0: dict(inv=[("pointers", _PTR), ("lengths", "m == len(s) - off(sv) and n == len(t) - off(sv) and m >= 0 and n >= 0"), ("distance-kept", _KEEP)],
                variant="m"),
        1: dict(inv=[("lengths", "0 <= m and m <= len(s) - off(sv) and 0 <= n and n <= len(t) - off(sv)"), ("distance-kept", _KEEP)], variant="m"),
        2: dict(index="k0", inv=[("buffer", _COSTS), ("initialised", "forall(k, implies(0 <= k and k < k0, costs[k] == k))")]),
        3: dict(index="cj", inv=[("buffer", _COSTS), ("column", "forall(k, implies(0 <= k and k <= m, costs[k] == lev(off(sv), k, cj - 1)))")]),
        4: dict(index="ci", inv=[("buffer", _COSTS), ("done", "forall(k, implies(0 <= k and k < ci, costs[k] == lev(off(sv), k, j)))"),
                                 ("todo", "forall(k, implies(ci <= k and k <= m, costs[k] == lev(off(sv), k, j - 1)))"),
                                 ("diagonal", "prev == lev(off(sv), ci - 1, j - 1)")]),
    },
    extra={"uses_lemmas": [lemma_facts]},
    props=P)



# ------------------------------------------------------------------------------------------------ banded mode
WIT = z3.Function("LEVWIT", z3.IntSort(), z3.IntSort(), z3.IntSort(), z3.IntSort(), z3.IntSort(), z3.IntSort())


def UPPER(p, i, j):
    return z3.And(LEV(p, i, j) <= z3.If(i >= j, i, j), LEV(p, i, j) >= 0)


def CROSSING(p, m, e, j, j2):
    """every alignment path to (m, j2) crosses column j <= j2 in some row 0..m, at no greater cost: the skolemised contrapositive of
    COLUMN-closure `(all k in 0..m: LEV(p,k,j) > e) => LEV(p,m,j2) > e`; LEVWIT names the row"""
    w = WIT(p, m, e, j, j2)
    return z3.Implies(z3.And(0 <= j, j <= j2, m >= 0, LEV(p, m, j2) <= e), z3.And(0 <= w, w <= m, LEV(p, w, j) <= e))


def lemma_facts_banded(eng, st):
    S, T = st.env["s"], st.env["t"]
    p, i, j, m, e, j2 = z3.Ints(" ".join(fresh_name(x) for x in "pijmeJ"))
    dom = z3.And(p >= 0, i >= 0, j >= 0)
    return z3.And(
        lemma_facts(eng, st),
        z3.ForAll([p, i, j], z3.Implies(dom, UPPER(p, i, j)), patterns=[LEV(p, i, j)]),
        z3.ForAll([p, m, e, j, j2], z3.Implies(p >= 0, CROSSING(p, m, e, j, j2)), patterns=[WIT(p, m, e, j, j2)]))


lemma_facts_banded.__name__ = "lemma groups align.pyx:L#stripping-keeps-the-distance and L#band (UPPER, COLUMN/CROSSING)"


@R.spec
def wit(eng, st, p, m, e, j, j2):
    return WIT(to_z3(p), to_z3(m), to_z3(e), to_z3(j), to_z3(j2))


_P = "off(sv)"
_DIFF = "m - n == len(s) - len(t)"


def _uplow(k, c):
    return "(costs[{k}] >= lev({P}, {k}, {c}) and implies(lev({P}, {k}, {c}) <= maxdiff, costs[{k}] == lev({P}, {k}, {c})))".format(P=_P, k=k, c=c)


_WITNESS = ("implies(lev({P}, m, n) <= maxdiff, 0 <= wit({P}, m, maxdiff, {j}, n) and wit({P}, m, maxdiff, {j}, n) <= m and "
            "lev({P}, wit({P}, m, maxdiff, {j}, n), {j}) <= maxdiff)")
R.contract(
    "edit_distance/banded", params={"s": STR, "t": STR, "maxdiff": INT},
    requires=[("sizes", "len(s) + len(t) + maxdiff + 1 < 2147483647"), ("banded", "maxdiff >= 0"), ("definition-of-LEV", "DEFS()")],
    ensures=[("exact-when-within-the-band", "implies(lev(0, len(s), len(t)) <= maxdiff, result == lev(0, len(s), len(t)))"),
             ("above-the-band-otherwise", "implies(lev(0, len(s), len(t)) > maxdiff, result > maxdiff)")],
    locals={"costs": LIST(INT)},
    loops={
        0: dict(inv=[("pointers", _PTR), ("lengths", "m == len(s) - off(sv) and n == len(t) - off(sv) and m >= 0 and n >= 0"), ("distance-kept", _KEEP)],
                variant="m"),
        1: dict(inv=[("lengths", "0 <= m and m <= len(s) - off(sv) and 0 <= n and n <= len(t) - off(sv) and " + _DIFF), ("distance-kept", _KEEP)], variant="m"),
        5: dict(index="k0", inv=[("buffer", _COSTS), ("initialised", "forall(k, implies(0 <= k and k < k0, costs[k] == k))")]),
        6: dict(index="cj", inv=[
            ("buffer", _COSTS),
            ("band", "forall(k, implies(0 <= k and k <= m and cj - 1 - maxdiff <= k and k <= cj - 1 + maxdiff, " + _uplow("k", "cj - 1") + "))"),
            ("beyond", "forall(k, implies(cj - 1 + maxdiff < k and k <= m, costs[k] == k))"),
            ("continuing", "smallest <= maxdiff")]),
        7: dict(index="ci", inv=[
            ("buffer", _COSTS),
            ("new", "forall(k, implies(start <= k and k < ci, " + _uplow("k", "j") + "))"),
            ("row0", "implies(j <= maxdiff, costs[0] == j)"),
            ("old", "forall(k, implies(ci <= k and k <= m and k <= j - 1 + maxdiff, " + _uplow("k", "j - 1") + "))"),
            ("beyond", "forall(k, implies(j - 1 + maxdiff < k and ci <= k and k <= m, costs[k] == k))"),
            ("diagonal", "prev >= lev({P}, ci - 1, j - 1) and implies(lev({P}, ci - 1, j - 1) <= maxdiff, prev == lev({P}, ci - 1, j - 1))".format(P=_P)),
            ("below-the-band", "implies(ci == start and j > maxdiff, costs[ci - 1] >= lev({P}, ci - 1, j - 1))".format(P=_P)),
            ("smallest", "forall(k, implies(start <= k and k < ci, smallest <= costs[k])) and implies(j <= maxdiff, smallest <= costs[0])"),
            ("crossing", _WITNESS.format(P=_P, j="j"))]),
    },
    extra={"target": "edit_distance", "uses_lemmas": [lemma_facts_banded]},
    props=P)


# ------------------------------------------------------------------------------------------------ lemma group
def lemma_stripping():
    A = z3.ArraySort(z3.IntSort(), z3.IntSort())
    Sa, Ta = z3.Consts("lem_S lem_T", A)

    class _L:
        def __init__(self, arr):
            self.arr = arr
    S, T = _L(Sa), _L(Ta)
    p, i, j, a, b = z3.Ints("lem_p lem_i lem_j lem_a lem_b")
    hyp = [defs(S, T), p >= 0, i >= 0, j >= 0]

    def ih(stmt):
        # induction hypothesis: the statement at every (a, b) with a + b < i + j
        return z3.ForAll([a, b], z3.Implies(z3.And(a >= 0, b >= 0, a + b < i + j), stmt(a, b)))
    inst = [rec_instance(S, T, q, x, y) for q in (p, p + 1) for x in (i - 1, i, i + 1) for y in (j - 1, j, j + 1)]
    lip_all = z3.ForAll([a, b], z3.Implies(z3.And(a >= 0, b >= 0), LIP(p, a, b)), patterns=[LEV(p, a, b)])
    goals = {
        "LIP-step": z3.Implies(z3.And(ih(lambda x, y: LIP(p, x, y)), *inst), LIP(p, i, j)),
        "SUFFIX-from-LIP": z3.Implies(z3.And(lip_all, *inst), SUFFIX(S, T, p, i, j)),
        "PREFIX-step": z3.Implies(z3.And(ih(lambda x, y: PREFIX(S, T, p, x, y)), *inst), PREFIX(S, T, p, i, j)),
        "DIAG-step": z3.Implies(z3.And(ih(lambda x, y: DIAG(p, x, y)), *inst), DIAG(p, i, j)),
    }
    return hyp, goals


R.lemmas.append(("align.pyx:L#stripping-keeps-the-distance", P, lemma_stripping))


def lemma_band():
    """UPPER (induction on i + j) and COLUMN: if every cell k = 0..m of column j is > e, so is every cell of column j+1 (induction on the row k; base and
    step discharged) and hence of every later column (induction on the column; step discharged) -- in particular cell (m, j2).  CROSSING, the form the
    function's obligations use, is the contrapositive with the row named by a Skolem function."""
    A = z3.ArraySort(z3.IntSort(), z3.IntSort())
    Sa, Ta = z3.Consts("lem_S lem_T", A)

    class _L:
        def __init__(self, arr):
            self.arr = arr
    S, T = _L(Sa), _L(Ta)
    p, i, j, a, b, m, e, k, j2 = z3.Ints("lem_p lem_i lem_j lem_a lem_b lem_m lem_e lem_k lem_j2")
    hyp = [defs(S, T), p >= 0, i >= 0, j >= 0, m >= 0]
    inst = [rec_instance(S, T, p, x, y) for x in (i - 1, i, i + 1) for y in (j - 1, j, j + 1)]

    def colgt(col):
        q = z3.Int(fresh_name("lem_q"))
        return z3.ForAll([q], z3.Implies(z3.And(0 <= q, q <= m), LEV(p, q, col) > e), patterns=[LEV(p, q, col)])
    inst_k = [rec_instance(S, T, p, x, y) for x in (k - 1, k) for y in (j, j + 1)]
    goals = {
        "UPPER-step": z3.Implies(z3.And(z3.ForAll([a, b], z3.Implies(z3.And(a >= 0, b >= 0, a + b < i + j), UPPER(p, a, b))), *inst), UPPER(p, i, j)),
        "COLUMN-row-base": z3.Implies(z3.And(colgt(j), *[rec_instance(S, T, p, z3.IntVal(0), y) for y in (j, j + 1)]), LEV(p, 0, j + 1) > e),
        "COLUMN-row-step": z3.Implies(z3.And(colgt(j), 1 <= k, k <= m, LEV(p, k - 1, j + 1) > e, *inst_k), LEV(p, k, j + 1) > e),
        "COLUMN-closure-step": z3.Implies(z3.And(j <= j2, z3.Implies(colgt(j), colgt(j2)), z3.Implies(colgt(j2), colgt(j2 + 1))), z3.Implies(colgt(j), colgt(j2 + 1))),
        "CROSSING-from-COLUMN": z3.Implies(z3.And(j <= j2, z3.Implies(colgt(j), colgt(j2)), LEV(p, m, j2) <= e),
                                           z3.Exists([k], z3.And(0 <= k, k <= m, LEV(p, k, j) <= e))),
    }
    return hyp, goals


R.lemmas.append(("align.pyx:L#band", P, lemma_band))


def lemma_canaries():
    """statements that are false must not be discharged by the same set-up (guards the lemma hypotheses against inconsistency)"""
    hyp, _ = lemma_stripping()
    p, i, j = z3.Ints("lem_p lem_i lem_j")
    return hyp, {"false-lemma-distance-is-monotone": LEV(p, i, j) <= LEV(p, i, j + 1), "false-lemma-contradiction": z3.BoolVal(False)}


R.lemma_canaries.append(("align.pyx:canary#lemma-hypotheses", lemma_canaries))


def canary():
    import copy
    c = copy.copy(R.contracts["edit_distance"])
    c.ensures = [("wrong", "result == lev(0, len(s), len(t)) + 1 or result + 1 == lev(0, len(s), len(t)) or result == len(s)")]
    return c


R.canaries.append(("align.pyx:canary#distance-off-by-one", canary))


def canary_banded():
    import copy
    c = copy.copy(R.contracts["edit_distance/banded"])
    c.ensures = [("wrong", "result == lev(0, len(s), len(t))")]        # "the banded mode always returns the true distance"
    return c


R.canaries.append(("align.pyx:canary#banded-is-always-exact", canary_banded))


def CROSSCHECK():
    """the engine's concrete run of the real source (pointer model, buffer model, both DP branches) against the compiled function"""
    from vcgen.crosscheck import Case

    def gen_for(banded):
        def gen(rng):
            a = "".join(rng.choice("ACG") for _ in range(rng.randint(0, 9)))
            if rng.random() < 0.5:
                b = list(a)
                for _ in range(rng.randint(0, 3)):
                    if b and rng.random() < 0.6:
                        b[rng.randrange(len(b))] = rng.choice("ACGT")
                    elif rng.random() < 0.5:
                        b.insert(rng.randint(0, len(b)), rng.choice("ACGT"))
                    elif b:
                        del b[rng.randrange(len(b))]
                b = "".join(b)
            else:
                b = "".join(rng.choice("ACG") for _ in range(rng.randint(0, 9)))
            return dict(s=a, t=b, maxdiff=rng.randint(0, 5) if banded else -1)
        return gen

    def real(inp):
        from whatshap.align import edit_distance
        try:
            return ("ok", edit_distance(inp["s"], inp["t"], inp["maxdiff"]), {})
        except Exception as e:      # noqa: BLE001
            return ("raise", type(e).__name__)
    return [Case("edit_distance", gen_for(False), real, n=80), Case("edit_distance/banded", gen_for(True), real, n=120)]
