"""Contracts for whatshap/cli/compare.py (C11): hamming, switch_encoding, complement, compute_switch_flips.

Strings are arrays of code points with a length.  Spec functions: MISM(a, b, n) = #{k < n : a[k] != b[k]} (SUM of an indicator),
SE(s) = the switch encoding of s as a term."""
import z3
from vcgen.api import *  # noqa
from vcgen.builtins_model import SUM

R = Registry("whatshap/cli/compare.py")
R.declare_class("SwitchFlips", {"switches": INT, "flips": INT}, ctor=["switches", "flips"])
R.ctor_defaults["SwitchFlips"] = {"switches": z3.IntVal(0), "flips": z3.IntVal(0)}
ZERO, ONE = 48, 49


def indicator(a, b):
    k = z3.Int(fresh_name("k"))
    return z3.Lambda([k], z3.If(a.arr[k] != b.arr[k], 1, 0))


@R.spec
def MISM(eng, st, a, b, n):
    return SUM(eng, st, indicator(a, b), 0, to_z3(n))


def se_value(s):
    k = z3.Int(fresh_name("k"))
    return VList(INT, z3.Lambda([k], z3.If(s.arr[k] == s.arr[k + 1], ZERO, ONE)), z3.If(s.len > 0, s.len - 1, 0), is_str=True)


@R.spec
def SE(eng, st, s):
    return se_value(s)


R.contract("hamming", params={"s0": STR, "s1": STR}, returns=INT,
           requires=[("same-length", "len(s0) == len(s1)")],
           ensures=[("number-of-mismatches", "result == MISM(s0, s1, len(s0))")],
           props=["C11"])

R.contract("switch_encoding", params={"phasing": STR}, returns=STR,
           ensures=[("length", "len(result) == (len(phasing) - 1 if len(phasing) > 0 else 0)"),
                    ("adjacent-equal-is-0", "forall(k, implies(0 <= k and k < len(result), result[k] == (48 if phasing[k] == phasing[k + 1] else 49)))")],
           extra={"result_is": lambda eng, st, args: se_value(args[0])},
           props=["C11"])

R.contract("complement", params={"s": STR}, returns=STR,
           requires=[("binary", "forall(k, implies(0 <= k and k < len(s), s[k] == 48 or s[k] == 49))")],
           ensures=[("length", "len(result) == len(s)"),
                    ("flipped", "forall(k, implies(0 <= k and k < len(s), result[k] == (49 if s[k] == 48 else 48)))")],
           props=["C11"])

R.contract("compute_switch_flips", params={"phasing0": STR, "phasing1": STR}, returns=REF("SwitchFlips"),
           requires=[("same-length", "len(phasing0) == len(phasing1)")],
           ensures=[("sum-identity", "result.switches + 2 * result.flips == MISM(SE(phasing0), SE(phasing1), len(SE(phasing0)))"),
                    ("nonnegative", "result.switches >= 0 and result.flips >= 0")],
           loops={0: dict(index="idx", inv=[
               ("accounting", "2 * result.flips + result.switches + switches_in_a_row == MISM(s0, s1, idx)"),
               ("nonnegative", "result.flips >= 0 and result.switches >= 0 and switches_in_a_row >= 0"),
               ("flushed-at-end", "implies(idx == len(s0), switches_in_a_row == 0)"),
               ("result-fresh", "result is not None")])},
           modifies=["SwitchFlips.switches", "SwitchFlips.flips"],
           props=["C11"])


def lemma_label_invariance():
    """se(complement(s)) == se(s) pointwise: every count built on the switch encoding is invariant under listing the two haplotypes of a
    phase set in the other order; and min(h(a,b), h(a,~b)) is symmetric by construction."""
    s = z3.Array("s", z3.IntSort(), z3.IntSort())
    c = z3.Array("c", z3.IntSort(), z3.IntSort())
    n, k = z3.Ints("n k")
    hyp = [z3.ForAll([k], z3.Implies(z3.And(0 <= k, k < n), z3.And(z3.Or(s[k] == ZERO, s[k] == ONE), c[k] == z3.If(s[k] == ZERO, ONE, ZERO))))]
    goal = z3.ForAll([k], z3.Implies(z3.And(0 <= k, k + 1 < n), z3.If(s[k] == s[k + 1], ZERO, ONE) == z3.If(c[k] == c[k + 1], ZERO, ONE)))
    return hyp, {"switch-encoding-of-complement": goal}


R.lemmas.append(("compare.py:L#switch-encoding-invariant-under-complement", ["C11"], lemma_label_invariance))


def canary_flips_count_once():
    import copy
    c = copy.copy(R.contracts["compute_switch_flips"])
    c.ensures = [("wrong", "result.switches + result.flips == MISM(SE(phasing0), SE(phasing1), len(SE(phasing0)))")]
    return c


R.canaries.append(("compare.py:canary#switches-plus-flips-equals-mismatches", canary_flips_count_once))


# ---- CPython cross-check of the encoder on these functions (vcgen/crosscheck.py)
def _crosscheck_cases():
    from vcgen.crosscheck import Case

    def bits(rng, n=None):
        n = rng.randint(0, 9) if n is None else n
        return "".join(rng.choice("01") for _ in range(n))

    def call(name, *keys):
        def real(inp):
            import whatshap.cli.compare as C
            try:
                r = getattr(C, name)(*[inp[k] for k in keys])
            except Exception as e:        # noqa: BLE001
                return ("raise", type(e).__name__)
            if name == "compute_switch_flips":
                return ("ok", (r.switches, r.flips), {})
            return ("ok", r, {})
        return real

    def same_len(rng):
        n = rng.randint(0, 9)
        return dict(phasing0=bits(rng, n), phasing1=bits(rng, n if rng.random() < 0.9 else n + 1))

    def cmp_sf(expected, got):
        return True if got[0] == "ok" else False      # the result object is compared through its fields below

    return [
        Case("hamming", lambda rng: (lambda n: dict(s0="".join(rng.choice("ABCD") for _ in range(n)), s1="".join(rng.choice("ABCD") for _ in range(n if rng.random() < 0.9 else n + 1))))(rng.randint(0, 8)),
             call("hamming", "s0", "s1")),
        Case("switch_encoding", lambda rng: dict(phasing=bits(rng)), call("switch_encoding", "phasing")),
        Case("compute_switch_flips", same_len, call("compute_switch_flips", "phasing0", "phasing1"),
             compare=lambda exp, got: got[0] == "ok" and (got[1]["switches"], got[1]["flips"]) == exp[1]),
        Case("complement", lambda rng: dict(s=bits(rng) if rng.random() < 0.9 else bits(rng) + "2"), call("complement", "s")),
    ]


CROSSCHECK = _crosscheck_cases


# ---- BedCreator.records (C11: one BED record per switch error, between the two variants it lies between)
# The generator yields, in increasing order of i, exactly the adjacent pairs (i, i+1) on which the two phasings' switch encodings differ -- i.e. where
# "equal / different alleles at i and i+1" is not the same in both --, as (chromosome, 1-based position i, 1-based position i+1, annotation).  The count
# of records is therefore the Hamming distance of the switch encodings = the diploid switch error count.
R.declare_class("BedCreator", {"_chromosome": INT, "_annotation": INT})
BED = TUPLE(INT, INT, INT, INT)
_DIFF = "((phasing0[{i}] == phasing0[{i} + 1]) != (phasing1[{i}] == phasing1[{i} + 1]))"
_NDIFF = z3.Function("BED_NDIFF", z3.IntSort(), z3.IntSort())
_ITH = z3.Function("BED_ITH", z3.IntSort(), z3.IntSort())


@R.spec
def BEDDEFS(eng, st):
    """counting functions of the switch-error positions (defined by recurrence for the given pair of phasings): NDIFF(k) = number of i < k that differ,
    ITH(c) = the c-th such i"""
    p0, p1 = st.env["phasing0"], st.env["phasing1"]
    k = z3.Int(fresh_name("k"))
    d = (p0.arr[k] == p0.arr[k + 1]) != (p1.arr[k] == p1.arr[k + 1])
    return z3.And(_NDIFF(0) == 0,
                  z3.ForAll([k], z3.Implies(z3.And(0 <= k, k + 1 < p0.len), z3.And(_NDIFF(k + 1) == _NDIFF(k) + z3.If(d, 1, 0), _NDIFF(k) >= 0,
                                                                               z3.Implies(d, _ITH(_NDIFF(k)) == k))), patterns=[_NDIFF(k)]))


@R.spec
def ndiff(eng, st, k):
    return _NDIFF(to_z3(k))


@R.spec
def ith(eng, st, c):
    return _ITH(to_z3(c))


_YIELDED = ("len(__yielded__) == ndiff({k}) and forall(c, implies(0 <= c and c < ndiff({k}), __yielded__[c][0] == self._chromosome and "
            "__yielded__[c][1] == positions[ith(c)] + 1 and __yielded__[c][2] == positions[ith(c) + 1] + 1 and __yielded__[c][3] == self._annotation))")
R.contract(
    "BedCreator.records", params={"self": REF("BedCreator"), "phasing0": STR, "phasing1": STR, "positions": LIST(INT)},
    requires=[("same-length", "len(phasing0) == len(phasing1) and len(phasing1) == len(positions)"), ("definitions", "BEDDEFS()")],
    ensures=[("one-record-per-switch-error-in-order", _YIELDED.format(k="(len(phasing0) - 1 if len(phasing0) > 0 else 0)"))],
    locals={"sw0": INT, "sw1": INT, "i": INT},
    loops={0: dict(index="bi", inv=[("records-so-far", _YIELDED.format(k="bi"))])},
    extra={"yields": BED, "assume_asserts": [0]},
    props=["C11"])


def canary_bed():
    import copy
    c = copy.copy(R.contracts["BedCreator.records"])
    c.ensures = [("wrong", "len(__yielded__) == (len(phasing0) - 1 if len(phasing0) > 0 else 0)")]      # "one record per adjacent pair"
    return c


R.canaries.append(("compare.py:canary#bed-record-for-every-pair", canary_bed))
