"""Contracts for whatshap/coverage.py: CovMonitor (C07).  View: cov : index -> count."""
import z3
from vcgen.api import *  # noqa

R = Registry("whatshap/coverage.py")
R.declare_class("CovMonitor", {"coverage": LIST(INT)})

R.contract("CovMonitor.__init__", params={"self": REF("CovMonitor"), "length": INT},
           requires=[("nonneg", "length >= 0")],
           ensures=[("length", "len(self.coverage) == length"),
                    ("all-zero", "forall(k, implies(0 <= k and k < length, self.coverage[k] == 0))")],
           modifies=["CovMonitor.coverage"], props=["C07"])

R.contract("CovMonitor.max_coverage_in_range", params={"self": REF("CovMonitor"), "begin": INT, "end": INT}, returns=INT,
           requires=[("range", "0 <= begin and begin < end and end <= len(self.coverage)")],
           ensures=[("upper-bound", "forall(k, implies(begin <= k and k < end, self.coverage[k] <= result))"),
                    ("attained", "exists(k, begin <= k and k < end and self.coverage[k] == result)")],
           props=["C07"])

R.contract("CovMonitor.add_read", params={"self": REF("CovMonitor"), "begin": INT, "end": INT},
           requires=[("range", "0 <= begin and begin <= end and end <= len(self.coverage)")],
           ensures=[("length", "len(self.coverage) == old(len(self.coverage))"),
                    ("plus-one-exactly-on-span", "forall(k, implies(0 <= k and k < len(self.coverage), self.coverage[k] == old(self.coverage[k]) + ite(begin <= k and k < end, 1, 0)), "
                                                 "triggers=[self.coverage[k], old(self.coverage[k])])")],
           modifies=["CovMonitor.coverage"],
           loops={0: dict(index="j", inv=[("length", "len(self.coverage) == old(len(self.coverage))"),
                                           ("done-prefix", "forall(k, implies(0 <= k and k < len(self.coverage), self.coverage[k] == old(self.coverage[k]) + ite(begin <= k and k < j, 1, 0)))")])},
           props=["C07"])


def canary_add_read_inclusive_end():
    import copy
    c = copy.copy(R.contracts["CovMonitor.add_read"])
    c.ensures = [("wrong", "forall(k, implies(0 <= k and k < len(self.coverage), self.coverage[k] == old(self.coverage[k]) + ite(begin <= k and k <= end, 1, 0)))")]
    return c


R.canaries.append(("coverage.py:canary#add_read-includes-end", canary_add_read_inclusive_end))


# ---- lemmas over the contracts (budget of the family cap, read from whatshap/cli/phase.py's AST on every run)
def lemma_family_budget():
    """f * max(1, k // f) <= k for 1 <= f <= k : the per-sample caps of one family add up to at most --internal-downsampling."""
    import ast, os
    src = open(os.path.join(REPO, "whatshap/cli/phase.py")).read()
    tree = ast.parse(src)
    expr = None
    for n in ast.walk(tree):
        if isinstance(n, ast.Assign) and isinstance(n.targets[0], ast.Name) and n.targets[0].id == "max_coverage_per_sample":
            expr = n.value
    if expr is None:
        return [], {"per-sample-cap-expression-found": z3.BoolVal(False)}
    k, f = z3.Ints("k f")

    def ev(e):
        if isinstance(e, ast.Call) and getattr(e.func, "id", None) == "max":
            a, b = [ev(x) for x in e.args]
            return z3.If(a >= b, a, b)
        if isinstance(e, ast.Call) and getattr(e.func, "id", None) == "len":
            return f
        if isinstance(e, ast.BinOp) and isinstance(e.op, ast.FloorDiv):
            return ev(e.left) / ev(e.right)
        if isinstance(e, ast.Constant):
            return z3.IntVal(e.value)
        if isinstance(e, ast.Name) and e.id == "max_coverage":
            return k
        raise Unsupported("per-sample cap expression uses %s" % ast.dump(e))
    cap = ev(expr)
    return [f >= 1, k >= f], {"family-budget": f * cap <= k, "per-sample-cap-positive": cap >= 1}


R.lemmas.append(("phase.py:L#family-coverage-budget", ["C07"], lemma_family_budget))


def CROSSCHECK():
    from vcgen.crosscheck import Case

    def mk(inp):
        from whatshap.coverage import CovMonitor
        c = CovMonitor(len(inp["self"]["coverage"]))
        c.coverage = list(inp["self"]["coverage"])
        return c

    def gen(rng):
        cov = [rng.randint(0, 4) for _ in range(rng.randint(0, 7))]
        b = rng.randint(-1, len(cov) + 1)
        return dict(self={"__class__": "CovMonitor", "coverage": cov}, begin=b, end=rng.randint(b - 1, len(cov) + 2))

    def real_max(inp):
        try:
            return ("ok", mk(inp).max_coverage_in_range(inp["begin"], inp["end"]), {})
        except Exception as e:      # noqa: BLE001
            return ("raise", type(e).__name__)

    def real_add(inp):
        c = mk(inp)
        try:
            c.add_read(inp["begin"], inp["end"])
        except Exception as e:      # noqa: BLE001
            return ("raise", type(e).__name__)
        return ("ok", None, {"self": {"coverage": c.coverage}})
    return [Case("CovMonitor.max_coverage_in_range", gen, real_max, n=120), Case("CovMonitor.add_read", gen, real_add, n=120)]
