"""Contracts for src/genotype.cpp (C19): the nibble representation of Genotype.

View: nib(p) = 4-bit field p of the 64-bit word gt (p = 0..15; field 15 holds the ploidy).
get_position(p) == nib(p);  set_position(p, a) changes field p only;  == / != compare the whole word."""
import z3
from vcgen.api import *  # noqa

R = Registry("src/genotype.cpp", lang="cpp")
R.declare_class("Genotype", {"gt": BV(64)})
R.constants["MAX_PLOIDY"] = z3.BitVecVal(15, 32)
R.constants["MAX_ALLELES"] = z3.BitVecVal(16, 32)
P = ["C19"]


def GT(eng, st, who="self"):
    return eng.load_field_raw(st, st.env[who], "gt")


def nib(word, p32):
    return z3.Extract(31, 0, z3.LShR(word, z3.ZeroExt(32, p32) * 4)) & 15


def bad_pos(eng, st):
    return z3.UGT(st.env["pos"], 15)


R.contract("Genotype::get_position", params={"self": REF("Genotype"), "pos": BV(32)}, returns=BV(32),
           raises={"runtime_error": bad_pos},
           ensures=[("nibble", lambda eng, st: st.env["result"] == nib(GT(eng, st), st.old.env["pos"])),
                    ("word-unchanged", lambda eng, st: GT(eng, st) == GT(eng, st.old))],
           props=P)

R.contract("Genotype::set_position", params={"self": REF("Genotype"), "pos": BV(32), "allele": BV(32)},
           raises={"runtime_error": lambda eng, st: z3.Or(z3.UGT(st.env["pos"], 15), z3.UGE(st.env["allele"], 16))},
           ensures=[("field-pos-set", lambda eng, st: nib(GT(eng, st), st.old.env["pos"]) == st.old.env["allele"]),
                    ("other-fields-unchanged", lambda eng, st: z3.And(*[z3.Implies(st.old.env["pos"] != q, nib(GT(eng, st), z3.BitVecVal(q, 32)) == nib(GT(eng, st.old), z3.BitVecVal(q, 32)))
                                                                       for q in range(16)]))],
           modifies=["Genotype.gt"], props=P)

R.contract("Genotype::set_ploidy", params={"self": REF("Genotype"), "ploidy": BV(32)},
           requires=[("ploidy-fits", lambda eng, st: z3.ULT(st.env["ploidy"], 16))],
           ensures=[("ploidy-field", lambda eng, st: nib(GT(eng, st), z3.BitVecVal(15, 32)) == st.old.env["ploidy"]),
                    ("alleles-unchanged", lambda eng, st: z3.And(*[nib(GT(eng, st), z3.BitVecVal(q, 32)) == nib(GT(eng, st.old), z3.BitVecVal(q, 32)) for q in range(15)]))],
           modifies=["Genotype.gt"], props=P)

R.contract("Genotype::get_ploidy", params={"self": REF("Genotype")}, returns=BV(32),
           ensures=[("ploidy-field", lambda eng, st: st.env["result"] == nib(GT(eng, st), z3.BitVecVal(15, 32)))], props=P)

R.contract("Genotype::is_none", params={"self": REF("Genotype")}, returns=CBOOL(),
           ensures=[("none-iff-ploidy-0", lambda eng, st: st.env["result"] == (nib(GT(eng, st), z3.BitVecVal(15, 32)) == 0))], props=P)

R.contract("Genotype::get_code", params={"self": REF("Genotype")}, returns=BV(64),
           ensures=[("word", lambda eng, st: st.env["result"] == GT(eng, st))], props=P)

R.contract("operator==", params={"g1": REF("Genotype"), "g2": REF("Genotype")}, returns=CBOOL(),
           ensures=[("equal-words", lambda eng, st: st.env["result"] == (GT(eng, st, "g1") == GT(eng, st, "g2")))], props=P)

R.contract("operator!=", params={"g1": REF("Genotype"), "g2": REF("Genotype")}, returns=CBOOL(),
           ensures=[("different-words", lambda eng, st: st.env["result"] == (GT(eng, st, "g1") != GT(eng, st, "g2")))], props=P)


def lemma_words_vs_multisets():
    """Two words with equal fields 0..15 are equal (so == on words is equality of (ploidy, sorted allele vector))."""
    a, b = z3.BitVecs("wa wb", 64)
    return [], {"fieldwise-equal-implies-equal": z3.Implies(z3.And(*[nib(a, z3.BitVecVal(q, 32)) == nib(b, z3.BitVecVal(q, 32)) for q in range(16)]), a == b)}


R.lemmas.append(("genotype.cpp:L#word-is-determined-by-its-fields", P, lemma_words_vs_multisets))


def canary_set_position_shift_off_by_one():
    import copy
    c = copy.copy(R.contracts["Genotype::set_position"])
    c.ensures = [("wrong", lambda eng, st: nib(GT(eng, st), st.old.env["pos"] + 1) == st.old.env["allele"])]
    return c


R.canaries.append(("genotype.cpp:canary#set_position-writes-next-field", canary_set_position_shift_off_by_one))
