"""placeholder for whatshap/cli/genotype.py contracts (determine_genotype)"""
from vcgen.api import *  # noqa
R = Registry("whatshap/cli/genotype.py")
