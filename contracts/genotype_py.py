"""Contracts for whatshap/cli/genotype.py (C08): determine_genotype -- GT is the unique maximum of the genotype likelihoods if that maximum exceeds the
threshold probability, and "unknown" otherwise.

Model: the likelihoods object is indexed by Genotype objects obtained from int_to_diploid_biallelic_gt(i); that function is taken as the identity on the
index (0 = 0/0, 1 = 0/1, 2 = 1/1, -1 = the empty "unknown" genotype), so likelihoods is a sequence of three reals and the result is a genotype index."""
import z3
from vcgen.api import *  # noqa

R = Registry("whatshap/cli/genotype.py")


def model_int_to_gt(eng, st, node, args, kwargs):
    return to_z3(args[0])


R.external_models["int_to_diploid_biallelic_gt"] = model_int_to_gt
_BEST = "(0 <= {g} and {g} < 3 and likelihoods[{g}] > threshold_prob and forall(h, implies(0 <= h and h < 3 and h != {g}, likelihoods[{g}] > likelihoods[h])))"
R.contract(
    "determine_genotype", params={"likelihoods": LIST(REAL), "threshold_prob": REAL}, returns=INT,
    requires=[("three-genotypes", "len(likelihoods) == 3")],
    ensures=[("a-unique-maximum-above-the-threshold-is-reported", "forall(g, implies(" + _BEST.format(g="g") + ", result == g))"),
             ("anything-else-is-unknown", "result == -1 or " + _BEST.format(g="result"))],
    locals={"to_sort": LIST(TUPLE(REAL, INT))},
    props=["C08"])


def canary():
    import copy
    c = copy.copy(R.contracts["determine_genotype"])
    c.ensures = [("wrong", "result != -1")]      # "a genotype is always called"
    return c


R.canaries.append(("genotype.py:canary#always-calls-a-genotype", canary))


def CROSSCHECK():
    from vcgen.crosscheck import Case
    from fractions import Fraction

    def gen(rng):
        vals = [Fraction(rng.randint(0, 8), 8) for _ in range(3)]
        return dict(likelihoods=vals, threshold_prob=Fraction(rng.randint(0, 8), 8))

    def real(inp):
        from whatshap.cli.genotype import determine_genotype
        from whatshap.core import PhredGenotypeLikelihoods
        try:
            g = determine_genotype(PhredGenotypeLikelihoods([float(x) for x in inp["likelihoods"]]), float(inp["threshold_prob"]))
            return ("ok", -1 if g.is_none() else g.get_index(), {})
        except Exception as e:      # noqa: BLE001
            return ("raise", type(e).__name__)
    return [Case("determine_genotype", gen, real, n=200)]
