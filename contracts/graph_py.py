"""Contracts for whatshap/graph.py: ComponentFinder (union-find whose representative is the minimum).

Properties: C18 (component finder matches its abstract model on all histories), C03 (phase sets are
named by the leftmost variant: `find` returns the minimum of the class).

Abstract view:  rep(v) = value(rootOf(node(v)))  with ghost field Node.rootOf.
Representation invariant WF (see DESIGN.md A.1).  Values are modelled as integers (the only
instantiation used by `whatshap phase` is variant positions); the order used by `merge` is `<` on ints.
"""
import z3
from vcgen.api import *  # noqa

R = Registry("whatshap/graph.py")
R.declare_class("Node", {"value": INT, "parent": REF("Node"), "rootOf": GHOST(REF("Node"))}, ctor=["value", "parent"])
R.declare_class("ComponentFinder", {"nodes": DICT(INT, REF("Node"))})


def _h(eng, st):
    value = eng.heap_arr(st, "Node.value", z3.IntSort())
    parent = eng.heap_arr(st, "Node.parent", z3.IntSort())
    root = eng.heap_arr(st, "Node.rootOf", z3.IntSort())
    return value, parent, root


def _nodes(eng, st, self):
    d = eng.load_field_raw(st, self, "nodes")
    return d.dom, d.map


def _isnode(eng, st, self, n):
    value, parent, root = _h(eng, st)
    dom, mp = _nodes(eng, st, self)
    return z3.And(n > 0, n < eng.alloc_bound(st, "Node"), dom[value[n]], mp[value[n]] == n)


@R.spec
def isnode(eng, st, self, n):
    return _isnode(eng, st, self, to_z3(n))


@R.spec
def WF(eng, st, self):
    value, parent, root = _h(eng, st)
    dom, mp = _nodes(eng, st, self)
    n = z3.Int(fresh_name("n"))
    v = z3.Int(fresh_name("v"))
    isn = lambda x: _isnode(eng, st, self, x)
    return [
        z3.ForAll([v], z3.Implies(dom[v], z3.And(mp[v] > 0, mp[v] < eng.alloc_bound(st, "Node"), value[mp[v]] == v))),
        z3.ForAll([n], z3.Implies(isn(n), z3.And(isn(root[n]), parent[root[n]] == 0, value[root[n]] <= value[n]))),
        z3.ForAll([n], z3.Implies(z3.And(isn(n), parent[n] == 0), root[n] == n)),
        z3.ForAll([n], z3.Implies(z3.And(isn(n), parent[n] != 0),
                                  z3.And(isn(parent[n]), root[parent[n]] == root[n], value[parent[n]] < value[n]))),
    ]


@R.spec
def rootOf(eng, st, n):
    value, parent, root = _h(eng, st)
    return VRef("Node", root[to_z3(n)])


@R.spec
def rep(eng, st, self, v):
    """abstract view: representative value of v's class"""
    value, parent, root = _h(eng, st)
    dom, mp = _nodes(eng, st, self)
    return value[root[mp[to_z3(v)]]]


@R.spec
def ghost_unchanged(eng, st):
    """rootOf is the same function as in the pre-state (so the whole view `rep` is unchanged)"""
    value, parent, root = _h(eng, st)
    v0, p0, root0 = _h(eng, st.old)
    n = z3.Int(fresh_name("n"))
    return z3.ForAll([n], root[n] == root0[n])


@R.spec
def ghost_same_as_entry(eng, st):
    keys = sorted(k for k in st.env if k.startswith("__entry"))
    e = st.env[keys[-1]]
    value, parent, root = _h(eng, st)
    v0, p0, root0 = _h(eng, e)
    n = z3.Int(fresh_name("n"))
    return z3.ForAll([n], root[n] == root0[n])


@R.on_store("Node.parent", deps=["Node.rootOf"])
def _parent_store(eng, st, obj, old, new):
    """Ghost update: linking a root below another node re-roots its whole tree; path compression
    (old parent not None) leaves rootOf alone.  Being ghost, this affects no executable state; WF is what
    ties rootOf to the real parent pointers."""
    value, parent, root = _h(eng, st)
    k = z3.Int(fresh_name("k"))
    newref = to_z3(new, REF("Node"))
    new_root = z3.Array(fresh_name("rootOf"), z3.IntSort(), z3.IntSort())
    st.assume(z3.ForAll([k], new_root[k] == z3.If(z3.And(old.ref == 0, newref != 0, root[k] == obj.ref), root[newref], root[k]),
                        patterns=[new_root[k]]))
    st.heap["Node.rootOf"] = new_root


P = ["C18", "C03"]


def _node_ghost_init(eng, st, obj):
    """a freshly constructed Node is the root of its own (singleton) tree"""
    root = eng.heap_arr(st, "Node.rootOf", z3.IntSort())
    st.heap["Node.rootOf"] = z3.Store(root, obj.ref, obj.ref)


R.ghost_init["Node"] = _node_ghost_init

FRESH_NODES = ("forall(v, implies(v in {d}, {d}[v] is not None and {d}[v].value == v and {d}[v].parent is None and rootOf({d}[v]) is {d}[v] "
               "and fresh_node({d}[v])))")


@R.spec
def fresh_node(eng, st, n):
    """allocated by this call"""
    return z3.And(to_z3(n) >= st.old.alloc["pre:Node"], to_z3(n) < eng.alloc_bound(st, "Node"))


R.contract("ComponentFinder.__init__",
           params={"self": REF("ComponentFinder"), "values": LIST(INT)},
           ensures=[("wf", "WF(self)"),
                    ("domain", "forall(v, (v in self.nodes) == exists(k, 0 <= k and k < len(values) and values[k] == v))"),
                    ("singletons", "forall(v, implies(v in self.nodes, rep(self, v) == v))")],
           modifies=["ComponentFinder.nodes", "Node.value", "Node.parent"],
           locals={"__comp0": DICT(INT, REF("Node"))},
           loops={0: dict(index="i", inv=[("domain", "forall(v, (v in __comp0) == exists(k, 0 <= k and k < i and values[k] == v))"),
                                           ("fresh", FRESH_NODES.format(d="__comp0"))])},
           extra={"desugar_comprehensions": True, "allocates": ["Node"]},
           props=P)

R.contract("ComponentFinder._find_node",
           params={"self": REF("ComponentFinder"), "value": INT},
           returns=REF("Node"),
           requires=[("wf", "WF(self)"), ("present", "value in self.nodes")],
           ensures=[("wf", "WF(self)"),
                    ("result-is-root", "result is rootOf(old(self.nodes[value]))"),
                    ("view-unchanged", "ghost_unchanged()"),
                    ("result-node", "isnode(self, result)")],
           modifies=["Node.parent"],
           loops={
               0: dict(inv=[("root-node", "isnode(self, root)"), ("same-root", "rootOf(root) is rootOf(node)"), ("node", "node is self.nodes[value]")],
                       variant="root.value - rootOf(root).value"),
               1: dict(inv=[("wf", "WF(self)"), ("node", "isnode(self, node)"), ("root-node", "isnode(self, root)"),
                            ("root-is-root", "root.parent is None"), ("same-root", "rootOf(node) is root"),
                            ("ghost", "ghost_same_as_entry()")],
                       variant="node.value - root.value"),
           },
           props=P)

R.contract("ComponentFinder.merge",
           params={"self": REF("ComponentFinder"), "x": INT, "y": INT},
           requires=[("wf", "WF(self)"), ("x-present", "x in self.nodes"), ("y-present", "y in self.nodes"), ("distinct", "x != y")],
           ensures=[("wf", "WF(self)"),
                    ("view", "forall(a, implies(a in self.nodes, rep(self, a) == "
                             "ite(old(rep(self, a)) == old(rep(self, x)) or old(rep(self, a)) == old(rep(self, y)), "
                             "min(old(rep(self, x)), old(rep(self, y))), old(rep(self, a)))))")],
           modifies=["Node.parent"],
           props=P)

R.contract("ComponentFinder.find",
           params={"self": REF("ComponentFinder"), "value": INT},
           returns=INT,
           requires=[("wf", "WF(self)"), ("present", "value in self.nodes")],
           ensures=[("wf", "WF(self)"), ("result-is-rep", "result == old(rep(self, value))"), ("view-unchanged", "ghost_unchanged()")],
           modifies=["Node.parent"],
           props=P)


# ---- lemma over the contracts (L): what the view means.
def lemma_rep_is_minimum_and_least():
    """Over the *contracts* only.  Let cls be any partition of the values given by a labelling c (two values
    are in one class iff c is equal) that is refined by rep (rep a == rep b -> c a == c b) and in which
    rep(a) is the minimum of rep-class of a.  After merge(x, y) as specified: (1) the new rep-classes are the
    old ones with those of x and y united -- and nothing else --; (2) rep'(a) is again the minimum of its new
    class; (3) any equivalence containing the old classes and the pair (x, y) contains the new classes."""
    a, b, x, y = z3.Ints("a b x y")
    rep0 = z3.Function("rep0", z3.IntSort(), z3.IntSort())
    rep1 = z3.Function("rep1", z3.IntSort(), z3.IntSort())
    E = z3.Function("E", z3.IntSort(), z3.IntSort(), z3.BoolSort())  # an arbitrary equivalence
    m = z3.If(rep0(x) < rep0(y), rep0(x), rep0(y))
    hyp = [
        # rep0 is the minimum of its class: idempotent and below every member
        z3.ForAll([a], z3.And(rep0(rep0(a)) == rep0(a), rep0(a) <= a)),
        # merge's view postcondition
        z3.ForAll([a], rep1(a) == z3.If(z3.Or(rep0(a) == rep0(x), rep0(a) == rep0(y)), m, rep0(a))),
        # E is an equivalence containing old classes and (x, y)
        z3.ForAll([a], E(a, a)), z3.ForAll([a, b], E(a, b) == E(b, a)),
        z3.ForAll([a, b, x], z3.Implies(z3.And(E(a, b), E(b, x)), E(a, x))) if False else z3.BoolVal(True),
    ]
    c = z3.Int("c")
    hyp.append(z3.ForAll([a, b, c], z3.Implies(z3.And(E(a, b), E(b, c)), E(a, c))))
    hyp.append(z3.ForAll([a, b], z3.Implies(rep0(a) == rep0(b), E(a, b))))
    hyp.append(E(x, y))
    goals = {
        "classes-united-exactly": z3.ForAll([a, b], (rep1(a) == rep1(b)) == z3.Or(
            rep0(a) == rep0(b),
            z3.And(z3.Or(rep0(a) == rep0(x), rep0(a) == rep0(y)), z3.Or(rep0(b) == rep0(x), rep0(b) == rep0(y))))),
        "rep-is-minimum": z3.ForAll([a], z3.And(rep1(rep1(a)) == rep1(a), rep1(a) <= a)),
        "least-equivalence": z3.ForAll([a, b], z3.Implies(rep1(a) == rep1(b), E(a, b))),
    }
    return hyp, goals


R.lemmas.append(("graph.py:L#merge-view-is-least-equivalence-with-minimum", P, lemma_rep_is_minimum_and_least))


# ---- canaries: deliberately wrong contract variants that MUST be refuted / must not verify
def canary_merge_keeps_larger():
    import copy
    c = copy.copy(R.contracts["ComponentFinder.merge"])
    c.ensures = [("view", "forall(a, implies(a in self.nodes, rep(self, a) == "
                          "ite(old(rep(self, a)) == old(rep(self, x)) or old(rep(self, a)) == old(rep(self, y)), "
                          "max(old(rep(self, x)), old(rep(self, y))), old(rep(self, a)))))")]
    return c


R.canaries.append(("graph.py:canary#merge-representative-is-maximum", canary_merge_keeps_larger))


# ---- client lemmas over the contracts (histories): what a caller observes after a merge
R.client_lemmas["L#merge-then-find"] = '''
def merged_then_found(self, x, y, z):
    self.merge(x, y)
    a = self.find(x)
    b = self.find(y)
    c = self.find(z)
    return (a, b, c)
'''
R.contract("L#merge-then-find", params={"self": REF("ComponentFinder"), "x": INT, "y": INT, "z": INT}, returns=TUPLE(INT, INT, INT),
           requires=[("wf", "WF(self)"), ("present", "x in self.nodes and y in self.nodes and z in self.nodes"), ("distinct", "x != y")],
           ensures=[("merged-values-share-the-smaller-representative", "result[0] == result[1] and result[0] == min(old(rep(self, x)), old(rep(self, y)))"),
                    ("a-third-value-moves-only-with-its-class", "result[2] == ite(old(rep(self, z)) == old(rep(self, x)) or old(rep(self, z)) == old(rep(self, y)), result[0], old(rep(self, z)))")],
           modifies=["Node.parent"], props=P)
