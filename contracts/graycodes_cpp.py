"""Contracts for src/graycodes.cpp (C01, C08): the Gray-code enumerator visits every read bipartition exactly once.

Abstract state: t = number of codes already returned.  It needs no ghost field: the object invariant ties it to the
concrete fields by  s == c ^ ~t,  so  t == ~(c ^ s)  while the enumeration is not finished (i < length).
Inv:  0 <= length <= 32;  i >= -1;  if i < length:  t < 2^length,  c == gray(t) = t ^ (t >> 1),
      changed_bit == (t == 0 ? -1 : ctz(t)).
get_next (requires has_next):  returns gray(t), reports the changed bit of the PREVIOUS step through the out-parameter,
      and either establishes Inv for t+1 with has_next, or t+1 == 2^length and has_next is false afterwards.
"""
import z3
from vcgen.api import *  # noqa

R = Registry("src/graycodes.cpp", lang="cpp")
R.declare_class("GrayCodes", {"length": BV(32, True), "i": BV(32, True), "s": BV(32), "c": BV(32), "changed_bit": BV(32, True)})
R.constants["digits"] = z3.BitVecVal(32, 32)


def F(eng, st, name):
    return eng.load_field_raw(st, st.env["self"], name)


def T(eng, st):
    return ~(F(eng, st, "c") ^ F(eng, st, "s"))


def gray(t):
    return t ^ z3.LShR(t, 1)


def below_pow2(t, length):
    """t < 2^length, computed in 64 bits (length may be 32)"""
    return z3.ULT(z3.ZeroExt(32, t), z3.BitVecVal(1, 64) << z3.ZeroExt(32, length))


def is_ctz(cb, t):
    """cb == index of the lowest set bit of t (t != 0)"""
    one = z3.BitVecVal(1, 32)
    return z3.And(cb >= 0, cb < 32, (t & (one << cb)) != 0, (t & ((one << cb) - 1)) == 0)


def INV(eng, st):
    length, i, c, cb = F(eng, st, "length"), F(eng, st, "i"), F(eng, st, "c"), F(eng, st, "changed_bit")
    t = T(eng, st)
    return [z3.And(length >= 0, length <= 32, i >= -1, i <= length),
            z3.Implies(i < length, z3.And(below_pow2(t, length), c == gray(t),
                                          z3.If(t == 0, cb == -1, is_ctz(cb, t))))]


def has_next_now(eng, st):
    return F(eng, st, "i") < F(eng, st, "length")


# ---- constructor
R.contract("GrayCodes::GrayCodes", params={"self": REF("GrayCodes"), "length": BV(32, True)},
           requires=[("length-range", lambda eng, st: z3.And(st.env["length"] >= 0, st.env["length"] <= 32))],
           ensures=[("inv", INV), ("t-is-zero", lambda eng, st: T(eng, st) == 0),
                    ("length-stored", lambda eng, st: F(eng, st, "length") == st.old.env["length"]),
                    ("has-next-iff-nonempty", lambda eng, st: has_next_now(eng, st))],
           modifies=["GrayCodes.length", "GrayCodes.i", "GrayCodes.s", "GrayCodes.c", "GrayCodes.changed_bit"],
           props=["C01", "C08"])

# ---- has_next
R.contract("GrayCodes::has_next", params={"self": REF("GrayCodes")}, returns=CBOOL(),
           requires=[("inv", INV)],
           ensures=[("result", lambda eng, st: st.env["result"] == has_next_now(eng, st))],
           props=["C01", "C08"])


# ---- get_next
def _post(eng, st):
    old = st.old
    t0 = T(eng, old)
    length = F(eng, old, "length")
    t1 = t0 + 1
    last = z3.ZeroExt(32, t0) + 1 == (z3.BitVecVal(1, 64) << z3.ZeroExt(32, length))
    return [st.env["result"] == gray(t0),
            z3.Implies(st.old.env["changed_bit"] != 0, st.env["changed_bit__pointee"] == F(eng, old, "changed_bit")),
            F(eng, st, "length") == length,
            z3.If(last, F(eng, st, "i") == length,
                  z3.And(has_next_now(eng, st), T(eng, st) == t1))]


def _loop_inv(eng, st):
    old = st.old
    i = F(eng, st, "i")
    length = F(eng, st, "length")
    t0 = T(eng, old)
    one = z3.BitVecVal(1, 32)
    low = z3.If(i >= 32, z3.BitVecVal(0xFFFFFFFF, 32), (one << i) - 1)      # 2^i - 1 without shifting by 32
    return [z3.And(i >= 0, i <= length, length == F(eng, old, "length"), length >= 0, length <= 32),
            F(eng, st, "c") == F(eng, old, "c"),
            F(eng, st, "s") == F(eng, old, "s") ^ low,
            (t0 & low) == low,
            F(eng, st, "changed_bit") == F(eng, old, "changed_bit"),
            st.env["result"] == F(eng, old, "c"),
            z3.Implies(st.old.env["changed_bit"] != 0, st.env["changed_bit__pointee"] == F(eng, old, "changed_bit"))]


R.contract("GrayCodes::get_next", params={"self": REF("GrayCodes"), "changed_bit": BV(64)},
           ghost_params={"changed_bit__pointee": BV(32, True)}, returns=BV(32),
           requires=[("inv", INV), ("has-next", has_next_now)],
           ensures=[("inv", INV), ("step", _post)],
           modifies=["GrayCodes.i", "GrayCodes.s", "GrayCodes.c", "GrayCodes.changed_bit"],
           loops={0: dict(inv=[("lockstep", _loop_inv)],
                          variant=lambda eng, st: z3.ZeroExt(1, F(eng, st, "length")) - z3.ZeroExt(1, F(eng, st, "i")))},
           props=["C01", "C08"])


# ---- lemmas over the contracts
def lemma_gray():
    a, b = z3.BitVecs("ga gb", 32)
    t = z3.BitVec("gt", 32)
    one = z3.BitVecVal(1, 32)
    k = z3.BitVec("gk", 32)
    goals = {
        "gray-injective": z3.Implies(gray(a) == gray(b), a == b),
        "first-code-is-zero": gray(z3.BitVecVal(0, 32)) == 0,
        "consecutive-codes-differ-in-bit-ctz": z3.Implies(z3.And(z3.ULT(k, 32), ((t + 1) & (one << k)) != 0, ((t + 1) & ((one << k) - 1)) == 0),
                                                           gray(t + 1) == gray(t) ^ (one << k)),
    }
    return [], goals


R.lemmas.append(("graycodes.cpp:L#all-bipartitions-visited-exactly-once", ["C01", "C08"], lemma_gray))


def canary_gray_plain_counter():
    import copy
    c = copy.copy(R.contracts["GrayCodes::get_next"])
    c.ensures = [("wrong", lambda eng, st: st.env["result"] == T(eng, st.old))]   # "returns t", not gray(t)
    return c


R.canaries.append(("graycodes.cpp:canary#get_next-returns-binary-counter", canary_gray_plain_counter))
