"""Contracts for whatshap/cli/haplotag.py (C10): ignore_read (which alignments are never tagged)."""
from vcgen.api import *  # noqa

R = Registry("whatshap/cli/haplotag.py")
R.declare_class("Alignment", {"is_unmapped": BOOL, "is_secondary": BOOL, "is_supplementary": BOOL})

R.contract("ignore_read", params={"alignment": REF("Alignment"), "tag_supplementary": BOOL}, returns=BOOL,
           ensures=[("never-tag-unmapped-or-secondary", "implies(alignment.is_unmapped or alignment.is_secondary, result)"),
                    ("supplementary-only-on-request", "implies(not alignment.is_unmapped and not alignment.is_secondary and alignment.is_supplementary, result == (not tag_supplementary))"),
                    ("primary-mapped-is-tagged", "implies(not alignment.is_unmapped and not alignment.is_secondary and not alignment.is_supplementary, not result)")],
           props=["C10"])


def canary():
    import copy
    c = copy.copy(R.contracts["ignore_read"])
    c.ensures = [("wrong", "implies(alignment.is_supplementary, result)")]
    return c


R.canaries.append(("haplotag.py:canary#supplementary-always-ignored", canary))
