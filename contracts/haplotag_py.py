"""Contracts for whatshap/cli/haplotag.py (C10): ignore_read (which alignments are never tagged)."""
from vcgen.api import *  # noqa

R = Registry("whatshap/cli/haplotag.py")
R.declare_class("Alignment", {"is_unmapped": BOOL, "is_secondary": BOOL, "is_supplementary": BOOL})

R.contract("ignore_read", params={"alignment": REF("Alignment"), "tag_supplementary": BOOL}, returns=BOOL,
           ensures=[("never-tag-unmapped-or-secondary", "implies(alignment.is_unmapped or alignment.is_secondary, result)"),
                    ("supplementary-only-on-request", "implies(not alignment.is_unmapped and not alignment.is_secondary and alignment.is_supplementary, result == (not tag_supplementary))"),
                    ("primary-mapped-is-tagged", "implies(not alignment.is_unmapped and not alignment.is_secondary and not alignment.is_supplementary, not result)")],
           props=["C10"])


def canary():
    import copy
    c = copy.copy(R.contracts["ignore_read"])
    c.ensures = [("wrong", "implies(alignment.is_supplementary, result)")]
    return c


R.canaries.append(("haplotag.py:canary#supplementary-always-ignored", canary))


# ---------------------------------------------------------------------------------------------------------------------------------
# Loop-body contract for run_haplotag's pass over one fetched region (loop 2 of run_haplotag; C10: every fetched alignment is written exactly once,
# in order, identical except for HP/PS/PC; alignments that are ignored or cannot be assigned lose stale HP/PS/PC).
# `fetched` is the sequence bam_reader.fetch(...) yields (ghost name).  An alignment is an object with its flags and its tag map; set_tag(t, None)
# removes the tag, set_tag(t, v) sets it; nothing else of an alignment is ever assigned (frame by construction of the model).  The writer keeps the
# sequence of alignments written; writing freezes the alignment (modifying it afterwards would not reach the output).  The haplotag-list writer is a
# line-sequence file.  attempt_add_phase_information (try/except KeyError) is verified against its own contract below and used here through it;
# ASSIGNABLE(a) is the ghost name of 'a has its own assignment or a read cloud of its barcode starts within the cutoff', fixed on entry.
import z3  # noqa: E402

R.declare_class("Alignment", {"is_unmapped": BOOL, "is_secondary": BOOL, "is_supplementary": BOOL, "tags": DICT(INT, INT), "frozen": BOOL, "query_name": INT,
                              "reference_start": INT})
T3 = TUPLE(INT, INT, INT)
R.declare_class("BamWriter", {"written": LIST(REF("Alignment"))})
R.declare_class("ListFile", {"lines": LIST(INT)})
ROW4 = z3.Function("HAPLOTAG_ROW", *([z3.IntSort()] * 5))


class AlignmentModel:
    @staticmethod
    def method(eng, st, obj, name, args, kwargs):
        if name == "set_tag":
            tag = args[0]
            v = args[1] if len(args) > 1 else kwargs.get("value")
            eng.oblige(st, "assert", z3.Not(eng.load_field(st, obj, "frozen")), "alignment-not-modified-after-write")
            t = eng.load_field(st, obj, "tags")
            k = eng.key_of(tag)
            if v is NONE:
                eng.store_field(st, obj, "tags", VDict(INT, INT, z3.Store(t.dom, k, False), t.map))
            else:
                eng.store_field(st, obj, "tags", VDict(INT, INT, z3.Store(t.dom, k, True), z3.Store(t.map, k, to_z3(v))))
            return NONE
        if name == "get_tag" and len(args) == 1:
            t = eng.load_field(st, obj, "tags")
            k = eng.key_of(args[0])
            eng.oblige(st, "noexc", t.dom[k], "KeyError-tag")
            return t.map[k]
        return NotImplemented


class CloudMap(VModel):
    """BX_tag_to_haplotype: a defaultdict(list) barcode -> [(reference_start, haplotype, phaseset), ...]; a missing barcode reads as the empty list"""

    def __init__(self):
        self.d = DICT(INT, LIST(T3)).fresh("BX_tag_to_haplotype")

    def clouds(self, key):
        k = to_z3(key)
        lst = from_z3(self.d.map[k], self.d.val)
        return VList(T3, lst.arr, z3.If(z3.And(self.d.dom[k], lst.len >= 0), lst.len, 0))

    def sym_getitem(self, eng, st, key):
        return self.clouds(key)

    def havoc(self, eng, st, name):
        return self


_CLOUDS = CloudMap()


class BamWriterModel:
    @staticmethod
    def method(eng, st, obj, name, args, kwargs):
        if name == "write" and len(args) == 1:
            w = eng.load_field(st, obj, "written")
            eng.store_field(st, obj, "written", eng.list_append(w, args[0]))
            eng.store_field(st, args[0], "frozen", z3.BoolVal(True))
            return NONE
        return NotImplemented


class ListFileModel:
    @staticmethod
    def print(eng, st, obj, args, kwargs):
        zs = [eng.key_of(a) if isinstance(a, VList) else to_z3(a) for a in args]
        if len(zs) != 4:
            raise Unsupported("haplotag list row with %d fields" % len(zs))
        lines = eng.load_field(st, obj, "lines")
        eng.store_field(st, obj, "lines", eng.list_append(lines, ROW4(*zs)))
        return NONE


class FetchModel(VModel):
    """bam_reader: fetch(...) yields the ghost sequence `fetched`"""

    def sym_call_method(self, eng, st, name, args, kwargs, node=None):
        if name == "fetch":
            return st.env["fetched"]
        raise Unsupported("bam_reader.%s" % name)

    def havoc(self, eng, st, name):
        return self


class Opaque(VModel):
    def havoc(self, eng, st, name):
        return self

    def sym_is_none(self):
        return self.none if hasattr(self, "none") else z3.BoolVal(False)


class MaybeTable(Opaque):
    """variant_table: only `is None` is used in the loop"""

    def __init__(self):
        self.none = z3.Bool("variant_table.is_none")


R.object_models.update({"Alignment": AlignmentModel, "BamWriter": BamWriterModel, "ListFile": ListFileModel})


@R.spec
def tag(eng, st, s):
    return eng.key_of(s)


@R.spec
def no_phase_tags(eng, st, a):
    t = eng.load_field_raw(st, a, "tags")
    return z3.And(*[z3.Not(t.dom[eng.key_of(eng.str_const(x))]) for x in ("HP", "PC", "PS")])


@R.spec
def other_tags_kept(eng, st, a):
    t, t0 = eng.load_field_raw(st, a, "tags"), eng.load_field_raw(st.old, a, "tags")
    k = z3.Int(fresh_name("k"))
    ks = [eng.key_of(eng.str_const(x)) for x in ("HP", "PC", "PS")]
    return z3.ForAll([k], z3.Implies(z3.And(*[k != x for x in ks]), z3.And(t.dom[k] == t0.dom[k], t.map[k] == t0.map[k])))


@R.spec
def untouched(eng, st, a):
    t, t0 = eng.load_field_raw(st, a, "tags"), eng.load_field_raw(st.old, a, "tags")
    return z3.And(t.dom == t0.dom, t.map == t0.map, z3.Not(eng.load_field_raw(st, a, "frozen")))


_ASSIGNABLE = z3.Function("ASSIGNABLE", z3.IntSort(), z3.BoolSort())


@R.spec
def ASSIGNABLE(eng, st, a):
    """ghost: attempt_add_phase_information finds a haplotype for this alignment (directly or through its linked-read cloud)"""
    return _ASSIGNABLE(to_z3(a))


@R.spec
def only_tags_of(eng, st, a):
    """frame: no other alignment's tags change"""
    A = z3.ArraySort
    dom, dom0 = eng.heap_arr(st, "Alignment.tags#dom", A(z3.IntSort(), z3.BoolSort())), eng.heap_arr(st.old, "Alignment.tags#dom", A(z3.IntSort(), z3.BoolSort()))
    mp, mp0 = eng.heap_arr(st, "Alignment.tags#map", A(z3.IntSort(), z3.IntSort())), eng.heap_arr(st.old, "Alignment.tags#map", A(z3.IntSort(), z3.IntSort()))
    n = z3.Int(fresh_name("n"))
    return z3.ForAll([n], z3.Implies(n != to_z3(a), z3.And(dom[n] == dom0[n], mp[n] == mp0[n])))


def _assignable(eng, st, a, r2h, cutoff, ign):
    """the alignment's name has an assignment, or (linked reads in use) it carries a barcode one of whose read clouds starts within the cutoff"""
    t = eng.load_field_raw(st, a, "tags")
    qn = to_z3(eng.load_field_raw(st, a, "query_name"))
    rs = to_z3(eng.load_field_raw(st, a, "reference_start"))
    bx = eng.key_of(eng.str_const("BX"))
    cl = _CLOUDS.clouds(t.map[bx])
    i = z3.Int(fresh_name("i"))
    d = T3.dt.accessor(0, 0)(cl.arr[i]) - rs
    near = z3.Exists([i], z3.And(0 <= i, i < cl.len, z3.If(d >= 0, d, -d) <= to_z3(cutoff)))
    return z3.Or(r2h.dom[qn], z3.And(z3.Not(as_bool_(ign)), t.dom[bx], near))


def as_bool_(v):
    return z3.BoolVal(v) if isinstance(v, bool) else v


@R.spec
def assignable(eng, st, a, r2h, cutoff, ign):
    return _assignable(eng, st, a, r2h, cutoff, ign)


_HP, _PC, _PS = "alignment.tags[tag('HP')]", "alignment.tags[tag('PC')]", "alignment.tags[tag('PS')]"
R.contract("attempt_add_phase_information",
           params={"alignment": REF("Alignment"), "read_to_haplotype": DICT(INT, T3), "bxtag_to_haplotype": _CLOUDS, "linked_read_cutoff": INT, "ignore_linked_read": BOOL},
           returns=TUPLE(INT, INT, INT),
           requires=[("not-written-yet", "not alignment.frozen"),
                     ("meaning-of-ASSIGNABLE", "ASSIGNABLE(alignment) == assignable(alignment, read_to_haplotype, linked_read_cutoff, ignore_linked_read)")],
           ensures=[("flag", "result[0] == ite(ASSIGNABLE(alignment), 1, 0)"),
                    ("untagged-means-untouched", "implies(result[0] == 0, forall(k, (k in alignment.tags) == old(k in alignment.tags)) and forall(k, implies(k in alignment.tags, alignment.tags[k] == old(alignment.tags[k]))))"),
                    ("only-phase-tags-set", "forall(k, implies(k != tag('HP') and k != tag('PC') and k != tag('PS'), (k in alignment.tags) == old(k in alignment.tags) and alignment.tags[k] == old(alignment.tags[k])))"),
                    ("a-read-with-its-own-assignment-carries-exactly-that",
                     "implies(alignment.query_name in read_to_haplotype, tag('HP') in alignment.tags and tag('PC') in alignment.tags and tag('PS') in alignment.tags and "
                     + _HP + " == read_to_haplotype[alignment.query_name][0] + 1 and " + _PC + " == read_to_haplotype[alignment.query_name][1] and "
                     + _PS + " == read_to_haplotype[alignment.query_name][2])"),
                    ("a-read-tagged-through-its-barcode-gets-a-cloud-within-the-cutoff",
                     "implies(result[0] == 1 and alignment.query_name not in read_to_haplotype, tag('HP') in alignment.tags and tag('PS') in alignment.tags and tag('PC') not in alignment.tags and "
                     "exists(i, 0 <= i and i < len(bxtag_to_haplotype[old(alignment.tags[tag('BX')])]) and "
                     "abs(bxtag_to_haplotype[old(alignment.tags[tag('BX')])][i][0] - alignment.reference_start) <= linked_read_cutoff and "
                     + _HP + " == bxtag_to_haplotype[old(alignment.tags[tag('BX')])][i][1] + 1 and " + _PS + " == bxtag_to_haplotype[old(alignment.tags[tag('BX')])][i][2]))"),
                    ("still-writable", "not alignment.frozen"), ("frame", "only_tags_of(alignment)")],
           modifies=["Alignment.tags"],
           locals={"haplotype_name": INT, "phaseset": INT, "is_tagged": INT, "haplotype": INT, "quality": INT, "reference_start": INT, "tag": INT,
                   "read_clouds": LIST(T3)},
           loops={0: dict(index="ci", modifies=["Alignment.tags"], inv=[("no-cloud-so-far-is-near", "forall(i, implies(0 <= i and i < ci, abs(read_clouds[i][0] - alignment.reference_start) > linked_read_cutoff))"),
                                           ("untouched-so-far", "is_tagged == 0 and forall(k, (k in alignment.tags) == old(k in alignment.tags)) and forall(k, alignment.tags[k] == old(alignment.tags[k])) and only_tags_of(alignment)"),
                                           ("clouds", "alignment.query_name not in read_to_haplotype and not ignore_linked_read and (len(read_clouds) == 0 or tag('BX') in alignment.tags)")])},
           props=["C10"])

_FETCH_VALID = ("forall(k, implies(0 <= k and k < len(fetched), fetched[k] is not None)) and "
                "forall(k, j, implies(0 <= k and k < j and j < len(fetched), fetched[k] is not fetched[j]))")
_WRITTEN = "len(bam_writer.written) == old(len(bam_writer.written)) + {i} and forall(k, implies(0 <= k and k < {i}, bam_writer.written[old(len(bam_writer.written)) + k] is fetched[k]))"
_DONE = ("forall(k, implies(0 <= k and k < {i}, other_tags_kept(fetched[k]) and "
         "implies(variant_table is None or old(fetched[k].is_unmapped) or old(fetched[k].is_secondary) or (old(fetched[k].is_supplementary) and not tag_supplementary) "
         "or not ASSIGNABLE(fetched[k]), no_phase_tags(fetched[k]))))")
_REST = "forall(k, implies({i} <= k and k < len(fetched), untouched(fetched[k])))"

R.contract(
    "run_haplotag#region-pass",
    params={"fetched": LIST(REF("Alignment")), "bam_reader": FetchModel(), "chrom": INT, "start": INT, "end": INT, "variant_table": MaybeTable(), "tag_supplementary": BOOL,
            "read_to_haplotype": DICT(INT, T3), "BX_tag_to_haplotype": _CLOUDS, "linked_read_distance_cutoff": INT, "ignore_linked_read": BOOL, "bam_writer": REF("BamWriter"),
            "haplotag_writer": REF("ListFile"), "n_alignments": INT, "n_tagged": INT},
    requires=[("fetched-valid", _FETCH_VALID), ("nothing-written-yet", "forall(k, implies(0 <= k and k < len(fetched), not fetched[k].frozen))"),
              ("meaning-of-ASSIGNABLE", "forall(k, implies(0 <= k and k < len(fetched), ASSIGNABLE(fetched[k]) == assignable(fetched[k], read_to_haplotype, linked_read_distance_cutoff, ignore_linked_read)))")],
    ensures=[("every-fetched-alignment-written-once-in-order", _WRITTEN.format(i="len(fetched)")),
             ("only-phase-tags-change-and-ignored-or-unassignable-alignments-carry-none", _DONE.format(i="len(fetched)")),
             ("earlier-output-kept", "forall(k, implies(0 <= k and k < old(len(bam_writer.written)), bam_writer.written[k] is old(bam_writer.written[k])))")],
    modifies=["Alignment.tags", "Alignment.frozen", "BamWriter.written", "ListFile.lines"],
    locals={"alignment": REF("Alignment"), "haplotype_name": INT, "phaseset": INT, "is_tagged": INT},
    loops={2: dict(index="ai", modifies=["Alignment.tags", "Alignment.frozen", "BamWriter.written", "ListFile.lines"], preserves=["bam_writer"],
                   inv=[("written", _WRITTEN.format(i="ai")), ("done", _DONE.format(i="ai")), ("rest-untouched", _REST.format(i="ai")),
                        ("earlier", "forall(k, implies(0 <= k and k < old(len(bam_writer.written)), bam_writer.written[k] is old(bam_writer.written[k])))")])},
    extra={"target": "run_haplotag", "loop_slice": 2, "nullable": {"haplotag_writer": True}},
    props=["C10"])


def canary_region():
    import copy
    c = copy.copy(R.contracts["run_haplotag#region-pass"])
    c.ensures = [("wrong", "forall(k, implies(0 <= k and k < len(fetched), no_phase_tags(fetched[k])))")]      # "nothing is ever tagged"
    return c


R.canaries.append(("haplotag.py:canary#region-pass-tags-nothing", canary_region))


def CROSSCHECK():
    from vcgen.crosscheck import Case
    from types import SimpleNamespace

    def gen(rng):
        return dict(alignment=dict(__class__="Alignment", is_unmapped=rng.random() < 0.3, is_secondary=rng.random() < 0.3, is_supplementary=rng.random() < 0.4), tag_supplementary=rng.random() < 0.5)

    def real(inp):
        from whatshap.cli.haplotag import ignore_read
        a = inp["alignment"]
        return ("ok", bool(ignore_read(SimpleNamespace(is_unmapped=a["is_unmapped"], is_secondary=a["is_secondary"], is_supplementary=a["is_supplementary"]), inp["tag_supplementary"])), {})
    return [Case("ignore_read", gen, real, n=64, compare=lambda e, g: g[0] == "ok" and g[1] == e[1])]
