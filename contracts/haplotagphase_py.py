"""Contracts for whatshap/cli/haplotagphase.py (C17): length_of_homopolymer."""
from vcgen.api import *  # noqa

R = Registry("whatshap/cli/haplotagphase.py")

IN = "0 <= start + {j} * step and start + {j} * step < len(ref)"

R.contract("length_of_homopolymer", params={"ref": STR, "start": INT, "step": INT, "threshold": INT}, returns=INT,
           requires=[("direction", "step == 1 or step == -1"), ("threshold", "threshold >= 0")],
           ensures=[("bounded", "0 <= result and result <= threshold"),
                    ("all-equal", "forall(j, implies(0 <= j and j < result, " + IN.format(j="j") + " and ref[start + j * step] == ref[start]))"),
                    ("maximal", "result == threshold or not (" + IN.format(j="result") + " and ref[start + result * step] == ref[start])")],
           loops={0: dict(index="n", inv=[("count", "res == n"), ("prefix", "forall(j, implies(0 <= j and j < n, " + IN.format(j="j") + " and ref[start + j * step] == ref[start]))"),
                                          ("below", "res <= threshold")])},
           props=["C17"])


def canary():
    import copy
    c = copy.copy(R.contracts["length_of_homopolymer"])
    c.ensures = [("wrong", "result == threshold")]
    return c


R.canaries.append(("haplotagphase.py:canary#always-reaches-threshold", canary))


def CROSSCHECK():
    from vcgen.crosscheck import Case

    def gen(rng):
        ref = "".join(rng.choice("AAC") for _ in range(rng.randint(0, 9)))
        return dict(ref=ref, start=rng.randint(0, max(0, len(ref) - 1)) if rng.random() < 0.9 else rng.randint(-2, len(ref) + 1), step=rng.choice([1, -1, 2]), threshold=rng.randint(0, 6))

    def real(inp):
        from whatshap.cli.haplotagphase import length_of_homopolymer
        try:
            return ("ok", length_of_homopolymer(inp["ref"], inp["start"], inp["step"], inp["threshold"]), {})
        except Exception as e:      # noqa: BLE001
            return ("raise", type(e).__name__)
    def gen_bc(rng):
        d = {}
        for _ in range(rng.randint(1, 5)):
            d[(rng.randint(0, 2), rng.randint(0, 1))] = rng.randint(0, 4) * 10
        if not any(d.values()):
            d[(0, 0)] = 7
        return dict(var=d)

    def real_bc(inp):
        from whatshap.cli.haplotagphase import best_candidate
        try:
            return ("ok", tuple(best_candidate(dict(inp["var"]))), {})
        except Exception as e:      # noqa: BLE001
            return ("raise", type(e).__name__)

    def cmp_bc(expected, got):
        e, g = expected[1], got[1]
        return e[0] == g[0] and e[1] == g[1] and e[3] == g[3] and abs(e[2] - g[2]) < 1e-12
    return [Case("length_of_homopolymer", gen, real, n=150), Case("best_candidate", gen_bc, real_bc, n=120, compare=cmp_bc)]


# ------------------------------------------------------------------------------------------------ compute_votes
# The quality-weighted votes per (variant position, phase set, haplotype).  Ghost vocabulary, fixed functions of the input (defined by recurrences that hold
# for the running sums of any finite sequence of reads):
#   VALID(k)                read k carries usable tags: PS_tag >= 1 and HP_tag in {1, 2}
#   CONTRIB(k, j, p, s, b)  the quality of variant j of read k if that read is VALID, tagged with phase set s + 1, the variant lies at position p, p is not
#                           homozygous, and (HP_tag - 1) xor (index of the variant's allele at p) == b; 0 otherwise
#   W(k, j, p, s, b)        sum of CONTRIB over all variants of the VALID reads < k and variants < j of read k
# Postcondition = the statement's "quality-weighted votes per (phase set, haplotype)": every entry votes[p][(s, b)] equals W over the whole input, and a
# non-zero W has an entry.
import z3  # noqa: E402

R.declare_class("Read", {"PS_tag": INT, "HP_tag": INT, "variants": LIST(REF("Variant"))})
R.declare_class("Variant", {"position": INT, "allele": INT, "quality": INT})
R.iter_fields["Read"] = "variants"
KEY = TUPLE(INT, INT)
VOTES = DICT(INT, DICT(KEY, INT))
W = z3.Function("VOTE_W", *([z3.IntSort()] * 6))
CONTRIB = z3.Function("VOTE_CONTRIB", *([z3.IntSort()] * 6))


def _read(eng, st, k):
    return VRef("Read", st.env["reads"].arr[k])


def _variant(eng, st, k, j):
    vs = eng.load_field_raw(st, _read(eng, st, k), "variants")
    return VRef("Variant", vs.arr[j]), vs.len


@R.spec
def VOTEDEFS(eng, st):
    k, j, p, s, b = z3.Ints(" ".join(fresh_name(x) for x in "kjpsb"))
    reads = st.env["reads"]
    rd = _read(eng, st, k)
    v, nv = _variant(eng, st, k, j)
    ps = to_z3(eng.load_field_raw(st, rd, "PS_tag")) - 1
    ht = to_z3(eng.load_field_raw(st, rd, "HP_tag")) - 1
    pos, al, q = (to_z3(eng.load_field_raw(st, v, f)) for f in ("position", "allele", "quality"))
    hom, a2i = st.env["is_homozygous"], st.env["allele_to_id"]
    inner = from_z3(a2i.map[pos], a2i.val)
    idx = inner.map[al]
    valid = z3.And(ps >= 0, ht >= 0, ht <= 1)
    hit = z3.And(valid, ps == s, pos == p, z3.Not(hom.map[pos]), z3.If(ht == idx, 0, 1) == b)
    ink = z3.And(0 <= k, k < reads.len)
    return [
        z3.ForAll([k, j, p, s, b], z3.Implies(z3.And(ink, 0 <= j, j < nv), CONTRIB(k, j, p, s, b) == z3.If(hit, q, 0)), patterns=[CONTRIB(k, j, p, s, b)]),
        z3.ForAll([p, s, b], W(0, 0, p, s, b) == 0, patterns=[W(0, 0, p, s, b)]),
        z3.ForAll([k, j, p, s, b], z3.Implies(z3.And(ink, 0 <= j, j < nv), W(k, j + 1, p, s, b) == W(k, j, p, s, b) + CONTRIB(k, j, p, s, b)), patterns=[W(k, j, p, s, b)]),
        # a read without usable tags is skipped as a whole (its variants are never looked at)
        z3.ForAll([k, p, s, b], z3.Implies(ink, W(k + 1, 0, p, s, b) == z3.If(valid, W(k, nv, p, s, b), W(k, 0, p, s, b))), patterns=[W(k + 1, 0, p, s, b)]),
    ]


@R.spec
def w(eng, st, k, j, p, s, b):
    return W(to_z3(k), to_z3(j), to_z3(p), to_z3(s), to_z3(b))


_INPUT = [
    ("reads-valid", "forall(k, implies(0 <= k and k < len(reads), reads[k] is not None and forall(j, implies(0 <= j and j < len(reads[k].variants), reads[k].variants[j] is not None))))"),
    ("positions-known", "forall(k, j, implies(0 <= k and k < len(reads) and 0 <= j and j < len(reads[k].variants), reads[k].variants[j].position in is_homozygous and "
                        "implies(not is_homozygous[reads[k].variants[j].position], reads[k].variants[j].position in allele_to_id and "
                        "reads[k].variants[j].allele in allele_to_id[reads[k].variants[j].position] and "
                        "0 <= allele_to_id[reads[k].variants[j].position][reads[k].variants[j].allele] and allele_to_id[reads[k].variants[j].position][reads[k].variants[j].allele] <= 1)))"),
    ("definitions", "VOTEDEFS()"),
]
_SUMS = ("forall(p, s, b, implies(p in votes and (s, b) in votes[p], votes[p][(s, b)] == w({k}, {j}, p, s, b))) and "
         "forall(p, s, b, implies(w({k}, {j}, p, s, b) != 0, p in votes and (s, b) in votes[p]))")
_PAIRED = ("forall(p, s, implies(p in votes, ((s, 0) in votes[p]) == ((s, 1) in votes[p]))) and "
           "forall(p, s, b, implies(p in votes and (s, b) in votes[p], b == 0 or b == 1))")

R.contract(
    "compute_votes", params={"is_homozygous": DICT(INT, BOOL), "reads": LIST(REF("Read")), "allele_to_id": DICT(INT, DICT(INT, INT))}, returns=VOTES,
    requires=_INPUT,
    ensures=[("votes-are-the-quality-sums", _SUMS.format(k="len(reads)", j="0").replace("votes", "result"))],
    locals={"votes": VOTES, "ps": INT, "ht": INT, "number_of_skipped": INT, "variant": REF("Variant"), "read": REF("Read")},
    loops={0: dict(index="ri", inv=[("sums", _SUMS.format(k="ri", j="0")), ("both-haplotypes-entered-together", _PAIRED)]),
           1: dict(index="vi", inv=[("sums", _SUMS.format(k="ri", j="vi")), ("both-haplotypes-entered-together", _PAIRED), ("tags", "ps == read.PS_tag - 1 and ht == read.HP_tag - 1 and 0 <= ps and 0 <= ht and ht <= 1 and read is reads[ri]")])},
    props=["C17"])


def canary_votes():
    import copy
    c = copy.copy(R.contracts["compute_votes"])
    c.ensures = [("wrong", "forall(p, s, b, implies(p in result and (s, b) in result[p], result[p][(s, b)] == w(len(reads), 0, p, s, 1 - b)))")]     # haplotypes exchanged
    return c


R.canaries.append(("haplotagphase.py:canary#votes-for-the-other-haplotype", canary_votes))


# ------------------------------------------------------------------------------------------------ best_candidate
# The winner of a vote: a key of the dict whose score no other key's score exceeds, together with that score and its share of the total.
R.contract(
    "best_candidate", params={"var": DICT(KEY, INT)}, returns=TUPLE(INT, INT, REAL, INT),
    requires=[("scores-are-not-negative", "forall(a, b, implies((a, b) in var, var[(a, b)] >= 0))"), ("some-score-is-positive", "exists(a, b, (a, b) in var and var[(a, b)] > 0)")],
    ensures=[("winner-is-a-candidate-with-that-score", "(result[1], result[0]) in var and var[(result[1], result[0])] == result[3]"),
             ("no-candidate-scores-higher", "forall(a, b, implies((a, b) in var, var[(a, b)] <= result[3]))"),
             ("share-of-the-total", "result[2] >= 0 and result[2] <= 1")],
    extra={"sum_lemmas": True},
    props=["C17"])

from vcgen.builtins_model import sum_domination_lemma  # noqa: E402
R.lemmas.append(("haplotagphase.py:L#a-sum-of-non-negative-terms-dominates-each-term", ["C17"], sum_domination_lemma))
