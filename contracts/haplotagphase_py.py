"""Contracts for whatshap/cli/haplotagphase.py (C17): length_of_homopolymer."""
from vcgen.api import *  # noqa

R = Registry("whatshap/cli/haplotagphase.py")

IN = "0 <= start + {j} * step and start + {j} * step < len(ref)"

R.contract("length_of_homopolymer", params={"ref": STR, "start": INT, "step": INT, "threshold": INT}, returns=INT,
           requires=[("direction", "step == 1 or step == -1"), ("threshold", "threshold >= 0")],
           ensures=[("bounded", "0 <= result and result <= threshold"),
                    ("all-equal", "forall(j, implies(0 <= j and j < result, " + IN.format(j="j") + " and ref[start + j * step] == ref[start]))"),
                    ("maximal", "result == threshold or not (" + IN.format(j="result") + " and ref[start + result * step] == ref[start])")],
           loops={0: dict(index="n", inv=[("count", "res == n"), ("prefix", "forall(j, implies(0 <= j and j < n, " + IN.format(j="j") + " and ref[start + j * step] == ref[start]))"),
                                          ("below", "res <= threshold")])},
           props=["C17"])


def canary():
    import copy
    c = copy.copy(R.contracts["length_of_homopolymer"])
    c.ensures = [("wrong", "result == threshold")]
    return c


R.canaries.append(("haplotagphase.py:canary#always-reaches-threshold", canary))


def CROSSCHECK():
    from vcgen.crosscheck import Case

    def gen(rng):
        ref = "".join(rng.choice("AAC") for _ in range(rng.randint(0, 9)))
        return dict(ref=ref, start=rng.randint(0, max(0, len(ref) - 1)) if rng.random() < 0.9 else rng.randint(-2, len(ref) + 1), step=rng.choice([1, -1, 2]), threshold=rng.randint(0, 6))

    def real(inp):
        from whatshap.cli.haplotagphase import length_of_homopolymer
        try:
            return ("ok", length_of_homopolymer(inp["ref"], inp["start"], inp["step"], inp["threshold"]), {})
        except Exception as e:      # noqa: BLE001
            return ("raise", type(e).__name__)
    return [Case("length_of_homopolymer", gen, real, n=150)]
