"""Contracts for whatshap/pedigree.py (C05): mendelian_conflict.

Genotype objects are modelled by their allele vector (the C++ class is under its own contracts in C19);
`as_vector()` is an assumed contract: it returns that vector."""
import z3
from vcgen.api import *  # noqa

R = Registry("whatshap/pedigree.py")
R.declare_class("Genotype", {"alleles": LIST(INT)})

R.contract("Genotype.as_vector", params={"self": REF("Genotype")}, returns=LIST(INT), assumed=True,
           ensures=["len(result) == len(self.alleles)", "forall(k, implies(0 <= k and k < len(result), result[k] == self.alleles[k]))"],
           props=["C05"])

DIPLOID = ["len(genotypem.alleles) == 2", "len(genotypef.alleles) == 2", "len(genotypec.alleles) == 2"]

R.contract("mendelian_conflict",
           params={"genotypem": REF("Genotype"), "genotypef": REF("Genotype"), "genotypec": REF("Genotype")}, returns=BOOL,
           requires=[("diploid", " and ".join(DIPLOID))],
           ensures=[("conflict-iff-no-ordering-with-one-allele-from-each-parent",
                     "result == (not ((genotypec.alleles[0] in genotypem.alleles and genotypec.alleles[1] in genotypef.alleles) or "
                     "(genotypec.alleles[1] in genotypem.alleles and genotypec.alleles[0] in genotypef.alleles)))")],
           props=["C05"])


def canary_conflict_ignores_pairing():
    import copy
    c = copy.copy(R.contracts["mendelian_conflict"])
    c.ensures = [("wrong", "result == (not ((genotypec.alleles[0] in genotypem.alleles or genotypec.alleles[1] in genotypem.alleles) and "
                           "(genotypec.alleles[0] in genotypef.alleles or genotypec.alleles[1] in genotypef.alleles)))")]
    return c


R.canaries.append(("pedigree.py:canary#conflict-iff-a-parent-shares-no-allele", canary_conflict_ignores_pairing))


# ---------------------------------------------------------------------------------------------------------------------------------
# find_recombination (C20: "each listed recombination lies between two variants of one phase set").
# Every event returned names two positions p1 < p2 of the SAME block of `components` with no other variant of that block between them, at which the
# transmission value changes; the transmitted haplotypes are the two bits of the transmission values at p1 and p2 and the cost is recombcost at p2.
# (Nothing is said about which changes are reported: the first pair of every block is skipped by the code, see DESIGN.md.)
from contracts.phase_py import DefaultDictOfLists  # noqa: E402

R.declare_class("RecombinationEvent", {"position1": INT, "position2": INT, "transmitted_hap_father1": INT, "transmitted_hap_father2": INT,
                                       "transmitted_hap_mother1": INT, "transmitted_hap_mother2": INT, "recombination_cost": INT})
R.ctor_fields["RecombinationEvent"] = ["position1", "position2", "transmitted_hap_father1", "transmitted_hap_father2", "transmitted_hap_mother1", "transmitted_hap_mother2",
                                       "recombination_cost"]


class Blocks(DefaultDictOfLists):
    """blocks = defaultdict(list): block id -> list of positions"""

    def get(self, key):
        k = to_z3(key)
        lst = from_z3(self.d.map[k], self.d.val)
        return VList(INT, lst.arr, z3.If(self.d.dom[k], lst.len, 0))

    def sym_getitem(self, eng, st, key):
        return self.get(key)

    def sym_contains(self, eng, st, x):
        return self.d.dom[to_z3(x)]

    def sym_call_method(self, eng, st, name, args, kwargs, node=None):
        if name == "items" and not args:
            return VDictItems(self.d)
        raise Unsupported("defaultdict.%s" % name)

    def sym_setitem(self, eng, st, key, v):
        k = to_z3(key)
        return Blocks(VDict(INT, LIST(INT), z3.Store(self.d.dom, k, True), z3.Store(self.d.map, k, to_z3(v))))

    def havoc(self, eng, st, name):
        return Blocks(DICT(INT, LIST(INT)).fresh(name))


_AI = z3.ArraySort(z3.IntSort(), z3.IntSort())
CNT = z3.Function("BLOCK_CNT", _AI, z3.IntSort(), z3.IntSort(), z3.IntSort())
SRCK = z3.Function("BLOCK_SRC", _AI, z3.IntSort(), z3.IntSort(), z3.IntSort())


def _ord1(st):
    return st.env["__setiter1__"][0][0]


@R.spec
def enum1(eng, st, j):
    """the j-th key of `components` in the order loop 1 visits them"""
    return _ord1(st)[to_z3(j)]


@R.spec
def cnt(eng, st, b, i):
    return CNT(_ord1(st), to_z3(b), to_z3(i))


@R.spec
def srck(eng, st, b, c):
    return SRCK(_ord1(st), to_z3(b), to_z3(c))


@R.spec
def BLOCKDEFS(eng, st):
    """counting functions of a visiting order O of the keys (for EVERY order O): CNT(O, b, i) = number of keys O[0..i) in block b; SRCK(O, b, c) = the index of
    the c-th such key"""
    comp = st.env["components"]
    O = z3.Const(fresh_name("O"), _AI)
    b, i, j = z3.Ints(fresh_name("b") + " " + fresh_name("i") + " " + fresh_name("j"))
    hit = comp.map[O[i]] == b
    # the step is stated between two EXISTING terms CNT(O,b,i) and CNT(O,b,j), j == i + 1 (a pattern on one of them alone would unfold the recurrence for ever)
    return z3.And(z3.ForAll([O, b], CNT(O, b, 0) == 0, patterns=[CNT(O, b, 0)]),
                  z3.ForAll([O, b, i], z3.Implies(i >= 0, z3.And(CNT(O, b, i) >= 0, z3.Implies(hit, SRCK(O, b, CNT(O, b, i)) == i))), patterns=[CNT(O, b, i)]),
                  z3.ForAll([O, b, i, j], z3.Implies(z3.And(i >= 0, j == i + 1), CNT(O, b, j) == CNT(O, b, i) + z3.If(hit, 1, 0)),
                            patterns=[z3.MultiPattern(CNT(O, b, i), CNT(O, b, j))]))


R.external_models["defaultdict"] = lambda eng, st, node, args, kwargs: Blocks()
R.constants["list"] = z3.IntVal(0)
_SORTEDPOS = "forall(a, b, implies(0 <= a and a < b and b < len(positions), positions[a] < positions[b]))"
_EV_PARTS = {
    "same-block": "({e}.position1 in components and {e}.position2 in components and components[{e}.position1] == components[{e}.position2] and {e}.position1 < {e}.position2)",
    "adjacent": "forall(q, implies(q in components and components[q] == components[{e}.position1], not ({e}.position1 < q and q < {e}.position2)))",
    "values": ("exists(a, b, 0 <= a and a < len(positions) and 0 <= b and b < len(positions) and positions[a] == {e}.position1 and positions[b] == {e}.position2 and "
               "transmission_vector[a] != transmission_vector[b] and {e}.transmitted_hap_father1 == transmission_vector[a] % 2 and {e}.transmitted_hap_father2 == transmission_vector[b] % 2 and "
               "{e}.transmitted_hap_mother1 == transmission_vector[a] // 2 and {e}.transmitted_hap_mother2 == transmission_vector[b] // 2 and {e}.recombination_cost == recombcost[b])"),
}
_EV_OK = ("({e}.position1 in components and {e}.position2 in components and components[{e}.position1] == components[{e}.position2] and {e}.position1 < {e}.position2 and "
          "forall(q, implies(q in components and components[q] == components[{e}.position1], not ({e}.position1 < q and q < {e}.position2))) and "
          "exists(a, b, 0 <= a and a < len(positions) and 0 <= b and b < len(positions) and positions[a] == {e}.position1 and positions[b] == {e}.position2 and "
          "transmission_vector[a] != transmission_vector[b] and {e}.transmitted_hap_father1 == transmission_vector[a] % 2 and {e}.transmitted_hap_father2 == transmission_vector[b] % 2 and "
          "{e}.transmitted_hap_mother1 == transmission_vector[a] // 2 and {e}.transmitted_hap_mother2 == transmission_vector[b] // 2 and {e}.recombination_cost == recombcost[b]))")
R.contract(
    "find_recombination",
    params={"transmission_vector": LIST(INT), "components": DICT(INT, INT), "positions": LIST(INT), "recombcost": LIST(INT)}, returns=LIST(REF("RecombinationEvent")),
    requires=[("positions-increase", _SORTEDPOS), ("components-are-positions", "forall(p, implies(p in components, exists(a, 0 <= a and a < len(positions) and positions[a] == p)))")],
    ensures=[("every-event-lies-between-two-adjacent-variants-of-one-phase-set", "forall(k, implies(0 <= k and k < len(result), result[k] is not None and " + _EV_OK.format(e="result[k]") + "))")],
    locals={"events": LIST(REF("RecombinationEvent")), "cum_recomb_cost": INT, "block": LIST(INT), "block_id": INT, "position": INT,
            "__comp0": DICT(INT, INT), "position_to_index": DICT(INT, INT)},
    loops={
        0: dict(index="pi", inv=[("indexed", "forall(j, implies(0 <= j and j < pi, positions[j] in __comp0 and __comp0[positions[j]] == j))"),
                                 ("only-positions", "forall(p, implies(p in __comp0, 0 <= __comp0[p] and __comp0[p] < pi and positions[__comp0[p]] == p))")]),
        1: dict(index="ai", inv=[
            ("members", "forall(b, c, implies(0 <= c and c < len(blocks[b]), 0 <= srck(b, c) and srck(b, c) < ai and components[enum1(srck(b, c))] == b and blocks[b][c] == enum1(srck(b, c))))"),
            ("in-visiting-order", "forall(b, c1, c2, implies(0 <= c1 and c1 < c2 and c2 < len(blocks[b]), srck(b, c1) < srck(b, c2)))"),
            ("lengths", "forall(b, len(blocks[b]) == cnt(b, ai) and implies(b in blocks, len(blocks[b]) >= 1))"),
            ("complete", "forall(i, implies(0 <= i and i < ai, cnt(components[enum1(i)], i) < len(blocks[components[enum1(i)]]) and blocks[components[enum1(i)]][cnt(components[enum1(i)], i)] == enum1(i)))")]),
        2: dict(index="bi", inv=[("events", "forall(k, implies(0 <= k and k < len(events), events[k] is not None and " + _EV_OK.format(e="events[k]") + "))")]),
        3: dict(index="ci", inv=[
            ("events-exist", "forall(k, implies(0 <= k and k < len(events), events[k] is not None))"),
        ] + [("events-" + t_, "forall(k, implies(0 <= k and k < len(events), " + c_.format(e="events[k]") + "))") for t_, c_ in _EV_PARTS.items()] + [
            ("block-sorted", "forall(a, b, implies(0 <= a and a < b and b < len(block), block[a] <= block[b]))"),
            ("block-members", "forall(c, implies(0 <= c and c < len(block), block[c] in components and components[block[c]] == block_id))"),
            ("block-distinct", "forall(a, b, implies(0 <= a and a < b and b < len(block), block[a] != block[b]))"),
            ("block-covers", "forall(q, implies(q in components and components[q] == block_id, exists(c, 0 <= c and c < len(block) and block[c] == q)), triggers=[q in components])")]),
    },
    extra={"assume_asserts": [0, 1], "desugar_comprehensions": True, "allocates": ["RecombinationEvent"], "assume": ["BLOCKDEFS()"]},
    props=["C20"])


def canary_recombination():
    import copy
    c = copy.copy(R.contracts["find_recombination"])
    c.ensures = [("wrong", "forall(k, implies(0 <= k and k < len(result), exists(a, 0 <= a and a + 1 < len(positions) and positions[a] == result[k].position1 and positions[a + 1] == result[k].position2)))")]
    return c        # "an event always lies between two NEIGHBOURING accessible positions" (false when phase sets interleave)


R.canaries.append(("pedigree.py:canary#recombination-between-neighbouring-positions", canary_recombination))
