"""Contracts for whatshap/pedigree.py (C05): mendelian_conflict.

Genotype objects are modelled by their allele vector (the C++ class is under its own contracts in C19);
`as_vector()` is an assumed contract: it returns that vector."""
import z3
from vcgen.api import *  # noqa

R = Registry("whatshap/pedigree.py")
R.declare_class("Genotype", {"alleles": LIST(INT)})

R.contract("Genotype.as_vector", params={"self": REF("Genotype")}, returns=LIST(INT), assumed=True,
           ensures=["len(result) == len(self.alleles)", "forall(k, implies(0 <= k and k < len(result), result[k] == self.alleles[k]))"],
           props=["C05"])

DIPLOID = ["len(genotypem.alleles) == 2", "len(genotypef.alleles) == 2", "len(genotypec.alleles) == 2"]

R.contract("mendelian_conflict",
           params={"genotypem": REF("Genotype"), "genotypef": REF("Genotype"), "genotypec": REF("Genotype")}, returns=BOOL,
           requires=[("diploid", " and ".join(DIPLOID))],
           ensures=[("conflict-iff-no-ordering-with-one-allele-from-each-parent",
                     "result == (not ((genotypec.alleles[0] in genotypem.alleles and genotypec.alleles[1] in genotypef.alleles) or "
                     "(genotypec.alleles[1] in genotypem.alleles and genotypec.alleles[0] in genotypef.alleles)))")],
           props=["C05"])


def canary_conflict_ignores_pairing():
    import copy
    c = copy.copy(R.contracts["mendelian_conflict"])
    c.ensures = [("wrong", "result == (not ((genotypec.alleles[0] in genotypem.alleles or genotypec.alleles[1] in genotypem.alleles) and "
                           "(genotypec.alleles[0] in genotypef.alleles or genotypec.alleles[1] in genotypef.alleles)))")]
    return c


R.canaries.append(("pedigree.py:canary#conflict-iff-a-parent-shares-no-allele", canary_conflict_ignores_pairing))
