"""Contracts for src/pedigreedptable.cpp (C++ leaves): PedigreeDPTable::popcount.

C01 / C05: the recombination term of the PedMEC objective is popcount(t_c xor t_{c-1}) * recomb_c, so the leaf must return
the number of set bits for every 64-bit argument (not only the 0..15 that single trios and quartets produce).
"""
import z3
from vcgen.api import *  # noqa

R = Registry("src/pedigreedptable.cpp", lang="cpp")


def PC(x):
    """number of set bits of a bit-vector, as a mathematical integer"""
    return z3.Sum([z3.BV2Int(z3.Extract(i, i, x)) for i in range(x.size())])


def _ensures(eng, st):
    return z3.BV2Int(st.env["result"]) == PC(st.old.env["x"])


def _inv(eng, st):
    x0 = st.old.env["x"]
    return z3.BV2Int(st.env["count"]) + PC(st.env["x"]) == PC(x0)


def _inv_bound(eng, st):
    # count never wraps: it is at most 64
    return z3.ULE(st.env["count"], z3.BitVecVal(64, 32))


R.contract("PedigreeDPTable::popcount",
           params={"x": BV(64)},
           returns=BV(64),
           requires=[],
           ensures=[("number-of-set-bits", _ensures)],
           loops={0: dict(inv=[("count-plus-remaining", _inv), ("count-bounded", _inv_bound)], variant=lambda eng, st: st.env["x"])},
           props=["C01", "C05"])


def canary_popcount_parity():
    import copy
    c = copy.copy(R.contracts["PedigreeDPTable::popcount"])
    c.ensures = [("parity-only", lambda eng, st: z3.BV2Int(st.env["result"]) == PC(st.old.env["x"]) % 2)]
    return c


R.canaries.append(("pedigreedptable.cpp:canary#popcount-returns-parity", canary_popcount_parity))
