"""Contracts for whatshap/cli/phase.py (C20): write_changed_genotypes over a file model.

File model: a path is an object whose field `lines` is the sequence of lines currently in the file (a line is an abstract value: LINE(fields...)).
open(p, "w") truncates, open(p, "a") keeps the contents, f.tell() == 0 iff the file is empty (append mode positions at the end),
print(..., file=f) appends one line.  The contract is the statement of C20: earlier entries are preserved, the header is written once, and
exactly one row per changed genotype follows, in order."""
import z3
from vcgen.api import *  # noqa

R = Registry("whatshap/cli/phase.py")
R.declare_class("Path", {"lines": LIST(INT)})
R.declare_class("Variant", {"position": INT, "reference_allele": INT, "alternative_allele": INT})
R.declare_class("Change", {"sample": INT, "chromosome": INT, "variant": REF("Variant"), "old_gt": INT, "new_gt": INT})
HEADER = z3.IntVal(-7)
LINE = z3.Function("LINE", *([z3.IntSort()] * 8))
REPR = z3.Function("REPR", z3.IntSort(), z3.IntSort())


class FileHandle(VModel):
    modifies_fields = ["Path.lines"]

    def __init__(self, path):
        self.path = path

    def sym_enter(self, eng, st):
        return self

    def sym_call_method(self, eng, st, name, args, kwargs, node):
        if name == "tell":
            lines = eng.load_field(st, self.path, "lines")
            # the position of a file opened for appending is its size; sizes are not modelled beyond "0 iff no line"
            pos = z3.Int(fresh_name("tell"))
            st.assume(z3.And(pos >= 0, (pos == 0) == (lines.len == 0)))
            return pos
        raise Unsupported("file method %s" % name)

    def sym_print(self, eng, st, args, kwargs, node):
        lines = eng.load_field(st, self.path, "lines")
        if all(isinstance(a, VList) and a.is_str for a in args):
            line = HEADER
        else:
            zs = [to_z3(a) for a in args]
            if len(zs) != 7:
                raise Unsupported("row with %d fields" % len(zs))
            line = LINE(*zs)
        eng.store_field(st, self.path, "lines", eng.list_append(lines, line))
        return NONE

    def havoc(self, eng, st, name):
        return self


def model_open(eng, st, node, args, kwargs):
    path, mode = args[0], args[1] if len(args) > 1 else None
    if not isinstance(path, VRef):
        raise Unsupported("open() of a non-path")
    m = eng.char_of(mode) if mode is not None else None
    if m is None:
        raise Unsupported("open() mode")
    m = z3.simplify(m).as_long()
    if chr(m) == "w":
        eng.store_field(st, path, "lines", VList(INT, z3.K(z3.IntSort(), z3.IntVal(0)), z3.IntVal(0)))
    elif chr(m) != "a":
        raise Unsupported("open() mode %r" % chr(m))
    return FileHandle(path)


def model_repr(eng, st, node, args, kwargs):
    return REPR(to_z3(args[0]))


R.external_models["open"] = model_open
R.external_models["repr"] = model_repr


@R.spec
def ROW(eng, st, c):
    v = eng.load_field_raw(st, c, "variant")
    f = lambda o, n: to_z3(eng.load_field_raw(st, o, n))
    return LINE(f(c, "sample"), f(c, "chromosome"), f(v, "position"), f(v, "reference_allele"), f(v, "alternative_allele"), REPR(f(c, "old_gt")), REPR(f(c, "new_gt")))


@R.spec
def HEADER_LINE(eng, st):
    return HEADER


VALID = "forall(i, implies(0 <= i and i < len(changed_genotypes), changed_genotypes[i] is not None and changed_genotypes[i].variant is not None))"
BASE = "(old(len(gtchange_list_filename.lines)) + (1 if old(len(gtchange_list_filename.lines)) == 0 else 0))"

R.contract("write_changed_genotypes", params={"gtchange_list_filename": REF("Path"), "changed_genotypes": LIST(REF("Change"))},
           requires=[("valid", VALID)],
           ensures=[
               ("earlier-entries-preserved", "forall(k, implies(0 <= k and k < old(len(gtchange_list_filename.lines)), gtchange_list_filename.lines[k] == old(gtchange_list_filename.lines[k])))"),
               ("header-once", "implies(old(len(gtchange_list_filename.lines)) == 0, gtchange_list_filename.lines[0] == HEADER_LINE())"),
               ("one-row-per-change", "len(gtchange_list_filename.lines) == " + BASE + " + len(changed_genotypes)"),
               ("rows-in-order", "forall(i, implies(0 <= i and i < len(changed_genotypes), gtchange_list_filename.lines[" + BASE + " + i] == ROW(changed_genotypes[i])))"),
           ],
           modifies=["Path.lines"],
           loops={0: dict(index="n", inv=[
               ("prefix", "forall(k, implies(0 <= k and k < old(len(gtchange_list_filename.lines)), gtchange_list_filename.lines[k] == old(gtchange_list_filename.lines[k])))"),
               ("header", "implies(old(len(gtchange_list_filename.lines)) == 0, gtchange_list_filename.lines[0] == HEADER_LINE())"),
               ("length", "len(gtchange_list_filename.lines) == " + BASE + " + n"),
               ("rows", "forall(i, implies(0 <= i and i < n, gtchange_list_filename.lines[" + BASE + " + i] == ROW(changed_genotypes[i])))")])},
           props=["C20"])


def canary():
    import copy
    c = copy.copy(R.contracts["write_changed_genotypes"])
    c.ensures = [("wrong", "gtchange_list_filename.lines[0] == HEADER_LINE()")]     # "the file always starts with a fresh header" = truncation
    return c


R.canaries.append(("phase.py:canary#list-always-restarts-with-header", canary))
