"""Contracts for whatshap/cli/phase.py (C20): write_changed_genotypes over a file model.

File model: a path is an object whose field `lines` is the sequence of lines currently in the file (a line is an abstract value: LINE(fields...)).
open(p, "w") truncates, open(p, "a") keeps the contents, f.tell() == 0 iff the file is empty (append mode positions at the end),
print(..., file=f) appends one line.  The contract is the statement of C20: earlier entries are preserved, the header is written once, and
exactly one row per changed genotype follows, in order."""
import z3
from vcgen.api import *  # noqa

R = Registry("whatshap/cli/phase.py")
R.declare_class("Path", {"lines": LIST(INT)})
R.declare_class("Variant", {"position": INT, "reference_allele": INT, "alternative_allele": INT, "allele": INT})
R.declare_class("Change", {"sample": INT, "chromosome": INT, "variant": REF("Variant"), "old_gt": INT, "new_gt": INT})
HEADER = z3.IntVal(-7)
LINE = z3.Function("LINE", *([z3.IntSort()] * 8))
REPR = z3.Function("REPR", z3.IntSort(), z3.IntSort())
LINE9 = z3.Function("LINE9", *([z3.IntSort()] * 10))


class FileHandle(VModel):
    modifies_fields = ["Path.lines"]

    def __init__(self, path):
        self.path = path

    def sym_enter(self, eng, st):
        return self

    def sym_call_method(self, eng, st, name, args, kwargs, node):
        if name == "tell":
            lines = eng.load_field(st, self.path, "lines")
            # the position of a file opened for appending is its size; sizes are not modelled beyond "0 iff no line"
            pos = z3.Int(fresh_name("tell"))
            st.assume(z3.And(pos >= 0, (pos == 0) == (lines.len == 0)))
            return pos
        raise Unsupported("file method %s" % name)

    def sym_print(self, eng, st, args, kwargs, node):
        lines = eng.load_field(st, self.path, "lines")
        if all(isinstance(a, VList) and a.is_str for a in args):
            line = HEADER
        else:
            zs = [to_z3(a) for a in args]
            if len(zs) == 9:
                line = LINE9(*zs)
            elif len(zs) != 7:
                raise Unsupported("row with %d fields" % len(zs))
            else:
                line = LINE(*zs)
        eng.store_field(st, self.path, "lines", eng.list_append(lines, line))
        return NONE

    def havoc(self, eng, st, name):
        return self


def model_open(eng, st, node, args, kwargs):
    path, mode = args[0], args[1] if len(args) > 1 else None
    if not isinstance(path, VRef):
        raise Unsupported("open() of a non-path")
    m = eng.char_of(mode) if mode is not None else None
    if m is None:
        raise Unsupported("open() mode")
    m = z3.simplify(m).as_long()
    if chr(m) == "w":
        eng.store_field(st, path, "lines", VList(INT, z3.K(z3.IntSort(), z3.IntVal(0)), z3.IntVal(0)))
    elif chr(m) != "a":
        raise Unsupported("open() mode %r" % chr(m))
    return FileHandle(path)


def model_repr(eng, st, node, args, kwargs):
    return REPR(to_z3(args[0]))


R.external_models["open"] = model_open
R.external_models["repr"] = model_repr


@R.spec
def ROW(eng, st, c):
    v = eng.load_field_raw(st, c, "variant")
    f = lambda o, n: to_z3(eng.load_field_raw(st, o, n))
    return LINE(f(c, "sample"), f(c, "chromosome"), f(v, "position"), f(v, "reference_allele"), f(v, "alternative_allele"), REPR(f(c, "old_gt")), REPR(f(c, "new_gt")))


@R.spec
def HEADER_LINE(eng, st):
    return HEADER


VALID = "forall(i, implies(0 <= i and i < len(changed_genotypes), changed_genotypes[i] is not None and changed_genotypes[i].variant is not None))"
BASE = "(old(len(gtchange_list_filename.lines)) + (1 if old(len(gtchange_list_filename.lines)) == 0 else 0))"

R.contract("write_changed_genotypes", params={"gtchange_list_filename": REF("Path"), "changed_genotypes": LIST(REF("Change"))},
           requires=[("valid", VALID)],
           ensures=[
               ("earlier-entries-preserved", "forall(k, implies(0 <= k and k < old(len(gtchange_list_filename.lines)), gtchange_list_filename.lines[k] == old(gtchange_list_filename.lines[k])))"),
               ("header-once", "implies(old(len(gtchange_list_filename.lines)) == 0, gtchange_list_filename.lines[0] == HEADER_LINE())"),
               ("one-row-per-change", "len(gtchange_list_filename.lines) == " + BASE + " + len(changed_genotypes)"),
               ("rows-in-order", "forall(i, implies(0 <= i and i < len(changed_genotypes), gtchange_list_filename.lines[" + BASE + " + i] == ROW(changed_genotypes[i])))"),
           ],
           modifies=["Path.lines"],
           loops={0: dict(index="n", inv=[
               ("prefix", "forall(k, implies(0 <= k and k < old(len(gtchange_list_filename.lines)), gtchange_list_filename.lines[k] == old(gtchange_list_filename.lines[k])))"),
               ("header", "implies(old(len(gtchange_list_filename.lines)) == 0, gtchange_list_filename.lines[0] == HEADER_LINE())"),
               ("length", "len(gtchange_list_filename.lines) == " + BASE + " + n"),
               ("rows", "forall(i, implies(0 <= i and i < n, gtchange_list_filename.lines[" + BASE + " + i] == ROW(changed_genotypes[i])))")])},
           props=["C20"])


def canary():
    import copy
    c = copy.copy(R.contracts["write_changed_genotypes"])
    c.ensures = [("wrong", "gtchange_list_filename.lines[0] == HEADER_LINE()")]     # "the file always starts with a fresh header" = truncation
    return c


R.canaries.append(("phase.py:canary#list-always-restarts-with-header", canary))


# ---------------------------------------------------------------------------------------------------------------------------------
# find_components (C03): the returned map is exactly the connected-component relation generated by the reads (and the master block),
# each component named by its minimum.  ComponentFinder's contracts are proved in contracts.graph_py and used here at the call sites.
from contracts import graph_py as _G  # noqa: E402

R.import_proved(_G.R, "contracts.graph_py", ["ComponentFinder.__init__", "ComponentFinder.merge", "ComponentFinder.find"])
R.declare_class("Read", {"variants": LIST(REF("Variant")), "sample_id": INT, "name": INT, "source_id": INT})
R.iter_fields["Read"] = "variants"

# CLS: an ARBITRARY labelling of positions (uninterpreted): the contract holds for every labelling whose classes are closed under the
# links, i.e. the returned partition refines every equivalence containing the links = it is the least one = connected components.
_CLS = z3.Function("CLS", z3.IntSort(), z3.IntSort())


@R.spec
def CLS(eng, st, p):
    return _CLS(to_z3(p))


def _pass(rr, i, member):
    pos = "reads[%s].variants[%s].position" % (rr, i)
    return "(%s in %s and (heterozygous_positions is None or %s in heterozygous_positions[reads[%s].sample_id]))" % (pos, member, pos, rr)


def _linked(bound, member, rep):
    return ("forall(rr, i, j, implies(0 <= rr and rr < %s and 0 <= i and i < len(reads[rr].variants) and 0 <= j and j < len(reads[rr].variants) and %s and %s, "
            "%s == %s))" % (bound, _pass("rr", "i", member), _pass("rr", "j", member),
                            rep % "reads[rr].variants[i].position", rep % "reads[rr].variants[j].position"))


_REP = "rep(component_finder, %s)"
_CLS_SET = ("forall(rr, i, j, implies(0 <= rr and rr < len(reads) and 0 <= i and i < len(reads[rr].variants) and 0 <= j and j < len(reads[rr].variants) and "
            + _pass("rr", "i", "phased_positions_set") + " and " + _pass("rr", "j", "phased_positions_set")
            + ", CLS(reads[rr].variants[i].position) == CLS(reads[rr].variants[j].position)))")
_CLS_CUR = "forall(k, implies(0 <= k and k < len(positions), CLS(positions[k]) == CLS(positions[0])))"
_LEAST = "forall(a, b, implies(a in component_finder.nodes and b in component_finder.nodes and rep(component_finder, a) == rep(component_finder, b), CLS(a) == CLS(b)))"
_DOM = "forall(v, (v in component_finder.nodes) == (v in phased_positions_set))"
_MASTER_DONE = "forall(k, implies(0 <= k and k < %s, rep(component_finder, master_block[k]) == rep(component_finder, master_block[0])))"

R.contract(
    "find_components",
    params={"phased_positions": LIST(INT), "reads": LIST(REF("Read")), "master_block": MAYBE(LIST(INT)), "heterozygous_positions": MAYBE(DICT(INT, SET(INT)))},
    returns=DICT(INT, INT),
    requires=[
        ("reads-valid", "forall(rr, implies(0 <= rr and rr < len(reads), reads[rr] is not None))"),
        ("variants-valid", "forall(rr, i, implies(0 <= rr and rr < len(reads) and 0 <= i and i < len(reads[rr].variants), reads[rr].variants[i] is not None))"),
        ("positions-distinct-within-read", "forall(rr, i, j, implies(0 <= rr and rr < len(reads) and 0 <= i and i < j and j < len(reads[rr].variants), "
                                           "reads[rr].variants[i].position != reads[rr].variants[j].position))"),
        ("samples-known", "implies(heterozygous_positions is not None, forall(rr, implies(0 <= rr and rr < len(reads), reads[rr].sample_id in heterozygous_positions)))"),
        ("master-phased", "implies(master_block is not None, forall(k, implies(0 <= k and k < len(master_block), master_block[k] in phased_positions)))"),
        ("master-distinct", "implies(master_block is not None, forall(k, implies(1 <= k and k < len(master_block), master_block[k] != master_block[0])))"),
        # hypotheses on the arbitrary labelling CLS
        ("cls-closed-under-reads", "forall(rr, i, j, implies(0 <= rr and rr < len(reads) and 0 <= i and i < len(reads[rr].variants) and 0 <= j and j < len(reads[rr].variants) and "
                                   + _pass("rr", "i", "phased_positions") + " and " + _pass("rr", "j", "phased_positions")
                                   + ", CLS(reads[rr].variants[i].position) == CLS(reads[rr].variants[j].position)))"),
        ("cls-closed-under-master", "implies(master_block is not None, forall(k, implies(0 <= k and k < len(master_block), CLS(master_block[k]) == CLS(master_block[0]))))"),
    ],
    ensures=[
        ("domain", "forall(v, (v in result) == (v in phased_positions))"),
        ("named-by-leftmost", "forall(v, implies(v in result, result[v] <= v and result[v] in result and result[result[v]] == result[v]))"),
        ("read-linked-variants-share-a-set", _linked("len(reads)", "phased_positions", "result[%s]")),
        ("master-block-is-one-set", "implies(master_block is not None, forall(k, implies(0 <= k and k < len(master_block), result[master_block[k]] == result[master_block[0]])))"),
        ("no-coarser-than-any-closed-partition", "forall(a, b, implies(a in result and b in result and result[a] == result[b], CLS(a) == CLS(b)))"),
    ],
    locals={"__comp0": DICT(INT, INT)},
    loops={
        0: dict(index="ri", inv=[("cls-set", _CLS_SET), ("wf", "WF(component_finder)"), ("linked", _linked("ri", "phased_positions_set", _REP)), ("least", _LEAST)]),
        1: dict(index="t", inv=[("cls-current", _CLS_CUR), ("wf", "WF(component_finder)"), ("linked", _linked("ri", "phased_positions_set", _REP)), ("least", _LEAST),
                                ("current", "forall(k, implies(0 <= k and k <= t and k < len(positions), rep(component_finder, positions[k]) == rep(component_finder, positions[0])))")]),
        2: dict(index="t2", inv=[("wf", "WF(component_finder)"), ("linked", _linked("len(reads)", "phased_positions_set", _REP)), ("least", _LEAST),
                                 ("master", _MASTER_DONE % "1 + t2")]),
        3: dict(index="t3", inv=[("wf", "WF(component_finder)"), ("linked", _linked("len(reads)", "phased_positions_set", _REP)), ("least", _LEAST),
                                 ("master", "implies(master_block is not None, " + _MASTER_DONE % "len(master_block)" + ")"),
                                 ("filled", "forall(v, (v in __comp0) == visited(3, v))"),
                                 ("values", "forall(v, implies(v in __comp0, __comp0[v] == rep(component_finder, v)))")]),
    },
    extra={"desugar_comprehensions": True, "assume_asserts": [0]},
    props=["C03"])


def canary_fc():
    import copy
    c = copy.copy(R.contracts["find_components"])
    c.ensures = [("wrong", "forall(a, b, implies(a in result and b in result, result[a] == result[b]))")]     # "everything ends up in one phase set"
    return c


R.canaries.append(("phase.py:canary#find_components-one-set-for-all", canary_fc))


# ---------------------------------------------------------------------------------------------------------------------------------
# ReadList.write (C20): one line per read handed in, in order, attributed to the phase set of its FIRST variant (component + 1).
# The open file is an object with the sequence of lines written so far; strings (read names, sample names) are interned ids.
R.declare_class("OpenFile", {"lines": LIST(INT)})
R.declare_class("ReadList", {"_path": INT, "_file": REF("OpenFile")})
R.declare_class("SampleIds", {"inv": DICT(INT, INT)})
LINE8 = z3.Function("LINE8", *([z3.IntSort()] * 9))


class OpenFileModel:
    @staticmethod
    def print(eng, st, obj, args, kwargs):
        zs = [to_z3(a) for a in args]
        if len(zs) != 8:
            raise Unsupported("row with %d fields" % len(zs))
        lines = eng.load_field(st, obj, "lines")
        eng.store_field(st, obj, "lines", eng.list_append(lines, LINE8(*zs)))
        return NONE


class ReadAsSequence:
    @staticmethod
    def getitem(eng, st, obj, key):
        return eng.getitem(eng.load_field(st, obj, "variants"), key, st)

    @staticmethod
    def len(eng, st, obj):
        return eng.load_field(st, obj, "variants").len


class SampleIdsModel:
    @staticmethod
    def method(eng, st, obj, name, args, kwargs):
        if name == "inverse_mapping" and not args:
            return eng.load_field(st, obj, "inv")
        return NotImplemented


R.object_models.update({"OpenFile": OpenFileModel, "Read": ReadAsSequence, "SampleIds": SampleIdsModel})


@R.spec
def READ_ROW(eng, st, read, haplotype, sample_components, ids):
    """the line ReadList.write owes for this read"""
    f = lambda o, n: eng.load_field_raw(st, o, n)
    vs = f(read, "variants")
    first, last = VRef("Variant", vs.arr[0]), VRef("Variant", vs.arr[vs.len - 1])
    sample = f(ids, "inv").map[to_z3(f(read, "sample_id"))]
    comps = sample_components.val.z3sort()
    comp_of_first = comps.map(sample_components.map[sample])[to_z3(f(first, "position"))]
    return LINE8(to_z3(f(read, "name")), to_z3(f(read, "source_id")), sample, comp_of_first + 1, to_z3(haplotype), vs.len,
                 to_z3(f(first, "position")) + 1, to_z3(f(last, "position")) + 1)


_RL_VALID = ("forall(k, implies(0 <= k and k < len(readset), readset[k] is not None and len(readset[k].variants) >= 1 and "
             "readset[k].variants[0] is not None and readset[k].variants[len(readset[k].variants) - 1] is not None and "
             "readset[k].sample_id in numeric_sample_ids.inv and numeric_sample_ids.inv[readset[k].sample_id] in sample_components and "
             "readset[k].variants[0].position in sample_components[numeric_sample_ids.inv[readset[k].sample_id]]))")
_RL_ROWS = "forall(k, implies(0 <= k and k < %s, self._file.lines[old(len(self._file.lines)) + k] == READ_ROW(readset[k], bipartition[k], sample_components, numeric_sample_ids)))"
R.contract(
    "ReadList.write",
    params={"self": REF("ReadList"), "readset": LIST(REF("Read")), "bipartition": LIST(INT), "sample_components": DICT(INT, DICT(INT, INT)), "numeric_sample_ids": REF("SampleIds")},
    requires=[("valid", _RL_VALID)],
    raises={"ValueError": "self._file is None"},
    ensures=[
        ("earlier-lines-kept", "forall(k, implies(0 <= k and k < old(len(self._file.lines)), self._file.lines[k] == old(self._file.lines[k])))"),
        ("one-line-per-read", "len(self._file.lines) == old(len(self._file.lines)) + len(readset)"),
        ("each-read-attributed-to-the-phase-set-of-its-first-variant", _RL_ROWS % "len(readset)"),
    ],
    modifies=["OpenFile.lines"],
    loops={0: dict(index="ri", modifies=["OpenFile.lines"], inv=[
        ("file-open", "self._file is not None"),
        ("earlier", "forall(k, implies(0 <= k and k < old(len(self._file.lines)), self._file.lines[k] == old(self._file.lines[k])))"),
        ("count", "len(self._file.lines) == old(len(self._file.lines)) + ri"),
        ("rows", _RL_ROWS % "ri")])},
    extra={"assume_asserts": [0], "nullable": {}},
    props=["C20"])


# ---------------------------------------------------------------------------------------------------------------------------------
# compute_overall_components (C03, pedigree mode): find_components is called with the right master block and heterozygosity map --
# stated as the same exact-components postcondition, with "homozygous in some family member" and "heterozygous in the read's sample"
# spelled out from the inputs (super-reads when genotypes are distrusted, the homozygous_positions list otherwise).
R.declare_class("SuperReads", {"h0": REF("Read"), "h1": REF("Read")})
R.declare_class("NumericIds", {"fwd": DICT(INT, INT)})


class SuperReadsModel:
    @staticmethod
    def star(eng, st, obj):
        return [VRef("Read", to_z3(eng.load_field(st, obj, "h0"))), VRef("Read", to_z3(eng.load_field(st, obj, "h1")))]


class NumericIdsModel:
    @staticmethod
    def getitem(eng, st, obj, key):
        d = eng.load_field(st, obj, "fwd")
        return eng.getitem(d, key, st)


R.object_models.update({"SuperReads": SuperReadsModel, "NumericIds": NumericIdsModel})

_SR = "superreads_list[{f}]"
_NV = "min(len(superreads_list[{f}].h0.variants), len(superreads_list[{f}].h1.variants))"
_AT = "(0 <= {i} and {i} < " + _NV + " and superreads_list[{f}].h0.variants[{i}].position == {p} and {p} in {acc})"
_A0 = "superreads_list[{f}].h0.variants[{i}].allele"
_A1 = "superreads_list[{f}].h1.variants[{i}].allele"
_HETGT = "((" + _A0 + " == 0 and " + _A1 + " == 1) or (" + _A0 + " == 1 and " + _A1 + " == 0))"
_HOMGT = "((" + _A0 + " == 0 and " + _A1 + " == 0) or (" + _A0 + " == 1 and " + _A1 + " == 1))"
_NF = "min(len(family), len(superreads_list))"


def _het_in(f, p, acc, upto=None):
    return "exists(i, " + _AT.format(f=f, i="i", p=p, acc=acc) + (" and i < %s" % upto if upto else "") + " and " + _HETGT.format(f=f, i="i") + ")"


def _hom_in(f, p, acc, upto=None):
    return "exists(i, " + _AT.format(f=f, i="i", p=p, acc=acc) + (" and i < %s" % upto if upto else "") + " and " + _HOMGT.format(f=f, i="i") + ")"


def _hetspec(sid, p, acc):
    return "exists(f, 0 <= f and f < " + _NF + " and numeric_sample_ids.fwd[family[f]] == " + sid + " and " + _het_in("f", p, acc) + ")"


def _homany(p, acc, bound=_NF):
    return ("ite(distrust_genotypes, exists(f, 0 <= f and f < " + bound + " and " + _hom_in("f", p, acc) + "), "
            "exists(h, 0 <= h and h < len(homozygous_positions) and homozygous_positions[h] == " + p + ") and " + p + " in " + acc + ")")


_HETP = z3.Function("HET_IN_SAMPLE", z3.IntSort(), z3.IntSort(), z3.BoolSort())
_HOMP = z3.Function("HOM_IN_SOME_MEMBER", z3.IntSort(), z3.BoolSort())


@R.spec
def HETP(eng, st, sid, p):
    """ghost name for: position p is accessible and heterozygous (super-read alleles 0|1 or 1|0) in the family member with numeric id sid"""
    return _HETP(to_z3(sid), to_z3(p))


@R.spec
def HOMP(eng, st, p):
    """ghost name for: position p is accessible and homozygous in some family member"""
    return _HOMP(to_z3(p))


def _pass2(rr, i, acc):
    pos = "all_reads[%s].variants[%s].position" % (rr, i)
    return "(" + pos + " in " + acc + " and (not distrust_genotypes or HETP(all_reads[%s].sample_id, %s)))" % (rr, pos)


_MASTER_ON = "(len(family) > 1 and genetic_haplotyping)"
_ACC = "accessible_positions"
_COC_REQ = [
    ("reads-valid", "forall(rr, implies(0 <= rr and rr < len(all_reads), all_reads[rr] is not None))"),
    ("variants-valid", "forall(rr, i, implies(0 <= rr and rr < len(all_reads) and 0 <= i and i < len(all_reads[rr].variants), all_reads[rr].variants[i] is not None))"),
    ("positions-distinct-within-read", "forall(rr, i, j, implies(0 <= rr and rr < len(all_reads) and 0 <= i and i < j and j < len(all_reads[rr].variants), "
                                       "all_reads[rr].variants[i].position != all_reads[rr].variants[j].position))"),
    ("superreads-valid", "forall(f, implies(0 <= f and f < len(superreads_list), superreads_list[f] is not None and superreads_list[f].h0 is not None and superreads_list[f].h1 is not None))"),
    ("superread-variants-valid", "forall(f, i, implies(0 <= f and f < len(superreads_list) and 0 <= i and i < " + _NV.format(f="f") + ", "
                                 "superreads_list[f].h0.variants[i] is not None and superreads_list[f].h1.variants[i] is not None and "
                                 "superreads_list[f].h0.variants[i].position == superreads_list[f].h1.variants[i].position))"),
    ("family-ids-known", "forall(f, implies(0 <= f and f < len(family), family[f] in numeric_sample_ids.fwd))"),
    ("family-ids-distinct", "forall(f, g, implies(0 <= f and f < g and g < len(family), numeric_sample_ids.fwd[family[f]] != numeric_sample_ids.fwd[family[g]]))"),
    ("read-samples-in-family", "implies(distrust_genotypes, forall(rr, implies(0 <= rr and rr < len(all_reads), exists(f, 0 <= f and f < " + _NF + " and numeric_sample_ids.fwd[family[f]] == all_reads[rr].sample_id))))"),
    ("hetp-definition", "forall(sid, p, HETP(sid, p) == " + _hetspec("sid", "p", _ACC) + ")"),
    ("homp-definition", "forall(p, HOMP(p) == " + _homany("p", _ACC) + ")"),
    ("cls-closed-under-reads", "forall(rr, i, j, implies(0 <= rr and rr < len(all_reads) and 0 <= i and i < len(all_reads[rr].variants) and 0 <= j and j < len(all_reads[rr].variants) and "
                               + _pass2("rr", "i", _ACC) + " and " + _pass2("rr", "j", _ACC) + ", CLS(all_reads[rr].variants[i].position) == CLS(all_reads[rr].variants[j].position)))"),
    ("cls-closed-under-master", "implies(" + _MASTER_ON + ", forall(p, q, implies(HOMP(p) and HOMP(q), CLS(p) == CLS(q))))"),
]
_SETACC = "accessible_positions_set"
R.contract(
    "compute_overall_components",
    params={"accessible_positions": LIST(INT), "all_reads": LIST(REF("Read")), "distrust_genotypes": BOOL, "family": LIST(INT), "genetic_haplotyping": BOOL,
            "homozygous_positions": LIST(INT), "numeric_sample_ids": REF("NumericIds"), "superreads_list": LIST(REF("SuperReads"))},
    returns=DICT(INT, INT),
    requires=_COC_REQ,
    ensures=[
        ("domain", "forall(v, (v in result) == (v in accessible_positions))"),
        ("named-by-leftmost", "forall(v, implies(v in result, result[v] <= v and result[v] in result and result[result[v]] == result[v]))"),
        ("read-linked-variants-share-a-set", "forall(rr, i, j, implies(0 <= rr and rr < len(all_reads) and 0 <= i and i < len(all_reads[rr].variants) and 0 <= j and j < len(all_reads[rr].variants) and "
                                             + _pass2("rr", "i", _ACC) + " and " + _pass2("rr", "j", _ACC) + ", result[all_reads[rr].variants[i].position] == result[all_reads[rr].variants[j].position]))"),
        ("variants-homozygous-in-a-family-member-share-one-set", "implies(" + _MASTER_ON + ", forall(p, q, implies(HOMP(p) and HOMP(q), result[p] == result[q])))"),
        ("no-coarser-than-any-closed-partition", "forall(a, b, implies(a in result and b in result and result[a] == result[b], CLS(a) == CLS(b)))"),
    ],
    locals={"master_block": MAYBE(LIST(INT)), "heterozygous_positions_by_sample": MAYBE(DICT(INT, SET(INT))), "hom_in_any_sample": SET(INT), "hets": SET(INT),
            "sample": INT, "sample_superreads": REF("SuperReads"), "v1": REF("Variant"), "v2": REF("Variant")},
    loops={
        0: dict(index="fi", inv=[
            ("acc-set", "forall(p, (p in accessible_positions_set) == (p in accessible_positions))"),
            ("hom", "forall(p, (p in hom_in_any_sample) == exists(f, 0 <= f and f < fi and " + _hom_in("f", "p", _ACC) + "), triggers=[p in hom_in_any_sample, HOMP(p)])"),
            ("map-keys", "heterozygous_positions_by_sample is not None and forall(sid, (sid in heterozygous_positions_by_sample) == exists(f, 0 <= f and f < fi and numeric_sample_ids.fwd[family[f]] == sid))"),
            ("map-values", "forall(f, p, implies(0 <= f and f < fi, (p in heterozygous_positions_by_sample[numeric_sample_ids.fwd[family[f]]]) == " + _het_in("f", "p", _ACC) + "))"),
            ("map-by-sample-id", "forall(sid, p, implies(sid in heterozygous_positions_by_sample, (p in heterozygous_positions_by_sample[sid]) == HETP(sid, p)))"),
        ]),
        1: dict(index="vi", inv=[
            ("acc-set", "forall(p, (p in accessible_positions_set) == (p in accessible_positions))"),
            ("hets", "forall(p, (p in hets) == " + _het_in("fi", "p", _ACC, upto="vi") + ")"),
            ("hom", "forall(p, (p in hom_in_any_sample) == (exists(f, 0 <= f and f < fi and " + _hom_in("f", "p", _ACC) + ") or " + _hom_in("fi", "p", _ACC, upto="vi") + "))"),
        ]),
    },
    props=["C03"])


def CROSSCHECK():
    from vcgen.crosscheck import Case

    class FV:
        def __init__(self, position):
            self.position = position

    class FR:
        def __init__(self, positions, sample_id):
            self.vs, self.sample_id = [FV(p) for p in positions], sample_id

        def __iter__(self):
            return iter(self.vs)

    def gen(rng):
        universe = sorted(rng.sample(range(1, 30), rng.randint(1, 8)))
        phased = sorted(rng.sample(universe, rng.randint(1, len(universe))))
        reads = []
        for _ in range(rng.randint(0, 5)):
            ps = sorted(rng.sample(universe, rng.randint(1, min(4, len(universe)))))
            reads.append(dict(__class__="Read", variants=[dict(__class__="Variant", position=p, reference_allele=0, alternative_allele=0) for p in ps], sample_id=rng.randint(0, 1),
                              name=0, source_id=0))
        master = sorted(rng.sample(phased, rng.randint(0, len(phased)))) if rng.random() < 0.5 else None
        hets = {0: set(rng.sample(universe, rng.randint(0, len(universe)))), 1: set(rng.sample(universe, rng.randint(0, len(universe))))} if rng.random() < 0.5 else None
        return dict(phased_positions=phased, reads=reads, master_block=master, heterozygous_positions=hets)

    def real(inp):
        from whatshap.cli.phase import find_components
        reads = [FR([v["position"] for v in r["variants"]], r["sample_id"]) for r in inp["reads"]]
        try:
            return ("ok", dict(find_components(inp["phased_positions"], reads, inp["master_block"], inp["heterozygous_positions"])), {})
        except Exception as e:      # noqa: BLE001
            return ("raise", type(e).__name__)
    return [Case("find_components", gen, real, n=80, probe=lambda inp: list(range(0, 31)))]



# ---------------------------------------------------------------------------------------------------------------------------------
# write_recombination_list (C20): like the changed-genotype list the file is APPENDED to -- entries of earlier chromosomes and families stay, the header is
# written only into an empty file -- and then holds, trio by trio in the order of `trios`, one row per recombination event that find_recombination reports for
# that trio's transmission values, in the order reported, with 1-based positions; the number returned is the number of rows written.
# find_recombination (pedigree.py) is an ASSUMED deterministic function of its arguments here (FINDREC); the per-trio transmission lists are whatever the
# decoding loop of this function builds (a defaultdict(list) keyed by child); NEV / OFFSET are the counting functions of the events per trio.
R.declare_class("Trio", {"child": INT})
R.declare_class("Event", {"position1": INT, "position2": INT, "transmitted_hap_father1": INT, "transmitted_hap_father2": INT, "transmitted_hap_mother1": INT,
                          "transmitted_hap_mother2": INT, "recombination_cost": INT})
_LI = z3.ArraySort(z3.IntSort(), z3.IntSort())
FINDREC_ARR = z3.Function("FINDREC_EVENTS", _LI, z3.IntSort(), z3.IntSort(), _LI)
FINDREC_LEN = z3.Function("FINDREC_COUNT", _LI, z3.IntSort(), z3.IntSort(), z3.IntSort())


class DefaultDictOfLists(VModel):
    """defaultdict(list) keyed by integers: a missing key reads as the empty list; d[k].append(x) stores the extended list"""

    def __init__(self, d=None):
        self.d = d if d is not None else VDict(INT, LIST(INT), z3.K(z3.IntSort(), z3.BoolVal(False)), z3.K(z3.IntSort(), to_z3(VList(INT, z3.K(z3.IntSort(), z3.IntVal(0)), z3.IntVal(0)))))

    def get(self, key):
        k = to_z3(key)
        lst = from_z3(self.d.map[k], self.d.val)
        return VList(INT, lst.arr, z3.If(z3.And(self.d.dom[k], lst.len >= 0), lst.len, 0))

    def sym_getitem(self, eng, st, key):
        return self.get(key)

    def sym_setitem(self, eng, st, key, v):
        k = to_z3(key)
        return DefaultDictOfLists(VDict(INT, LIST(INT), z3.Store(self.d.dom, k, True), z3.Store(self.d.map, k, to_z3(v))))      # a new value: states may share the old one

    def havoc(self, eng, st, name):
        return DefaultDictOfLists(DICT(INT, LIST(INT)).fresh(name))


def model_defaultdict(eng, st, node, args, kwargs):
    return DefaultDictOfLists()


def _findrec(eng, st, tvlist, stamp):
    """the events find_recombination returns for this transmission list (the other three arguments are the same for every trio: `stamp` stands for them)"""
    return VList(REF("Event"), FINDREC_ARR(tvlist.arr, tvlist.len, stamp), FINDREC_LEN(tvlist.arr, tvlist.len, stamp))


_STAMP = z3.Int("REC_ARGS")


def model_find_recombination(eng, st, node, args, kwargs):
    ev = _findrec(eng, st, args[0], _STAMP)
    st.assume(ev.len >= 0)
    i = z3.Int(fresh_name("i"))
    st.assume(forall_pat([i], z3.Implies(z3.And(0 <= i, i < ev.len), z3.And(ev.arr[i] > 0, ev.arr[i] < eng.alloc_bound(st, "Event"))), [ev.arr[i]]))
    eng.assumptions.add("find_recombination (whatshap/pedigree.py) is used as a deterministic function of its arguments returning a list of event objects (assumed, not verified)")
    return ev


R.constants["list"] = z3.IntVal(0)       # the type object, only ever the argument of defaultdict
R.external_models["defaultdict"] = model_defaultdict
R.external_models["find_recombination"] = model_find_recombination


@R.spec
def events_of(eng, st, t):
    return _events_under(eng, st, to_z3(st.env["transmission_vector_trio"].d), to_z3(t))


_DSORT = DICT(INT, LIST(INT))
OFFSET = z3.Function("REC_OFFSET", _DSORT.z3sort(), z3.IntSort(), z3.IntSort())


def _events_under(eng, st, dval, t):
    """the events find_recombination returns for trio t when the per-child transmission lists are the dictionary value dval"""
    child = to_z3(eng.load_field_raw(st, VRef("Trio", st.env["trios"].arr[t]), "child"))
    return _findrec(eng, st, DefaultDictOfLists(from_z3(dval, _DSORT)).get(child), _STAMP)


@R.spec
def offset(eng, st, t):
    """number of events of the trios before t (OFFSET of the dictionary the decoding loop built)"""
    return OFFSET(to_z3(st.env["transmission_vector_trio"].d), to_z3(t))


@R.spec
def RECDEFS(eng, st):
    """definition of OFFSET by recurrence, for every dictionary value D: OFFSET(D, 0) = 0, OFFSET(D, t+1) = OFFSET(D, t) + number of events of trio t under D"""
    D = z3.Const(fresh_name("D"), _DSORT.z3sort())
    t = z3.Int(fresh_name("t"))
    n = st.env["trios"].len
    return z3.And(z3.ForAll([D], OFFSET(D, 0) == 0, patterns=[OFFSET(D, 0)]),
                  z3.ForAll([D, t], z3.Implies(z3.And(0 <= t, t < n), z3.And(OFFSET(D, t + 1) == OFFSET(D, t) + _events_under(eng, st, D, t).len, OFFSET(D, t) >= 0)),
                            patterns=[OFFSET(D, t)]))


@R.spec
def FINDREC_RETURNS_LISTS(eng, st):
    """part of the assumed contract of find_recombination: whatever the arguments, the result is a list (length >= 0)"""
    a = z3.Const(fresh_name("a"), _LI)
    n, s_ = z3.Ints(fresh_name("n") + " " + fresh_name("s"))
    return z3.ForAll([a, n, s_], FINDREC_LEN(a, n, s_) >= 0, patterns=[FINDREC_LEN(a, n, s_)])


@R.spec
def RECROW(eng, st, t, e):
    f = lambda n: to_z3(eng.load_field_raw(st, e, n))
    child = to_z3(eng.load_field_raw(st, VRef("Trio", st.env["trios"].arr[to_z3(t)]), "child"))
    return LINE9(child, to_z3(st.env["chromosome"]), f("position1") + 1, f("position2") + 1, f("transmitted_hap_father1"), f("transmitted_hap_father2"),
                 f("transmitted_hap_mother1"), f("transmitted_hap_mother2"), f("recombination_cost"))


_RB = "(old(len(path.lines)) + (1 if old(len(path.lines)) == 0 else 0))"
_RPREFIX = "forall(k, implies(0 <= k and k < old(len(path.lines)), path.lines[k] == old(path.lines[k])))"
_RHEADER = "implies(old(len(path.lines)) == 0, path.lines[0] == HEADER_LINE())"
_RROWS = ("forall(t, i, implies(0 <= t and t < {t} and 0 <= i and i < len(events_of(t)), path.lines[" + _RB + " + offset(t) + i] == RECROW(t, events_of(t)[i])))")
R.contract(
    "write_recombination_list",
    params={"path": REF("Path"), "chromosome": INT, "accessible_positions": LIST(INT), "overall_components": DICT(INT, INT), "recombination_costs": LIST(INT),
            "transmission_vector": LIST(INT), "trios": LIST(REF("Trio"))},
    returns=INT,
    requires=[("trios-valid", "forall(t, implies(0 <= t and t < len(trios), trios[t] is not None))")],
    ensures=[("earlier-entries-preserved", _RPREFIX), ("header-once", _RHEADER),
             ("one-row-per-event", "len(path.lines) == " + _RB + " + offset(len(trios)) and result == offset(len(trios))"),
             ("rows-trio-by-trio-in-order", _RROWS.format(t="len(trios)"))],
    modifies=["Path.lines"],
    locals={"n": INT, "value": INT, "transmission_vector_value": INT, "trio": REF("Trio"), "recombination_events": LIST(REF("Event"))},
    loops={
        0: dict(index="vi", inv=[]),
        1: dict(index="ti0", inv=[]),
        2: dict(index="ti", modifies=["Path.lines"],
                inv=[("earlier-trios-end-before", "forall(t, implies(0 <= t and t < ti, offset(t) >= 0 and offset(t) + len(events_of(t)) <= offset(ti)))"), ("prefix", _RPREFIX), ("header", _RHEADER), ("length", "len(path.lines) == " + _RB + " + offset(ti) and n == offset(ti)"),
                     ("rows", _RROWS.format(t="ti"))]),
        3: dict(index="ei", modifies=["Path.lines"],
                inv=[("earlier-trios-end-before", "forall(t, implies(0 <= t and t < ti, offset(t) >= 0 and offset(t) + len(events_of(t)) <= offset(ti)))"), ("prefix", _RPREFIX), ("header", _RHEADER), ("length", "len(path.lines) == " + _RB + " + offset(ti) + ei and n == offset(ti)"),
                     ("rows", _RROWS.format(t="ti")),
                     ("this-trio", "trio is trios[ti] and forall(i, implies(0 <= i and i < ei, path.lines[" + _RB + " + offset(ti) + i] == RECROW(ti, events_of(ti)[i])))")]),
    },
    extra={"assume": ["FINDREC_RETURNS_LISTS()", "RECDEFS()"]},
    props=["C20"])


def canary_recomb():
    import copy
    c = copy.copy(R.contracts["write_recombination_list"])
    c.ensures = [("wrong", "path.lines[0] == HEADER_LINE()")]     # "the file always starts with a fresh header" = truncation
    return c


R.canaries.append(("phase.py:canary#recombination-list-restarts-with-header", canary_recomb))
