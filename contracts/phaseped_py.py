"""Contracts for the pedigree part of whatshap/cli/phase.py (C05): find_mendelian_conflicts.

The set returned is exactly the set of variant indices at which SOME trio with both parents known has three called genotypes in Mendelian conflict
(`mendelian_conflict`, used through the contract proved in contracts/pedigree_py.py).  Those are the variants `run_whatshap` leaves unphased in every
member of the family.

Model: VariantTable.genotypes_of(sample) returns the sample's genotype objects, one per variant of the table (ghost function GENOTYPES_OF(table, sample));
Genotype is the allele-vector object of contracts/pedigree_py.py and is_none() is "no alleles"; a Trio has child / mother / father sample ids (parents may be None)."""
import z3
from vcgen.api import *  # noqa
from contracts import pedigree_py as _PED

R = Registry("whatshap/cli/phase.py")
R.import_proved(_PED.R, "contracts.pedigree_py", ["mendelian_conflict"])
R.declare_class("Trio", {"child": INT, "mother": OPT(INT), "father": OPT(INT)})
R.declare_class("VariantTable", {"nvariants": INT})
P = ["C05"]
GENOTYPES_OF = z3.Function("GENOTYPES_OF", z3.IntSort(), z3.IntSort(), z3.ArraySort(z3.IntSort(), z3.IntSort()))


def _alleles(eng, st):
    return (eng.heap_arr(st, "Genotype.alleles#arr", z3.ArraySort(z3.IntSort(), z3.IntSort())), eng.heap_arr(st, "Genotype.alleles#len", z3.IntSort()))


class TableModel:
    @staticmethod
    def method(eng, st, obj, name, args, kwargs):
        if name == "genotypes_of" and len(args) == 1:
            n = to_z3(eng.load_field(st, obj, "nvariants"))
            return VList(REF("Genotype"), GENOTYPES_OF(obj.ref, to_z3(eng.coerce(args[0], INT, st))), n)
        return NotImplemented


class GenotypeModel:
    @staticmethod
    def method(eng, st, obj, name, args, kwargs):
        if name == "is_none" and not args:
            return eng.load_field(st, obj, "alleles").len == 0
        return NotImplemented


R.object_models.update({"VariantTable": TableModel, "Genotype": GenotypeModel})


@R.spec
def TABLE_OK(eng, st, table):
    """type invariant of the table: every genotype object exists and is either uncalled (no alleles) or diploid"""
    t = to_z3(table)
    s, k = z3.Ints(fresh_name("s") + " " + fresh_name("k"))
    arr, ln = _alleles(eng, st)
    g = GENOTYPES_OF(t, s)[k]
    n = to_z3(eng.load_field_raw(st, table, "nvariants"))
    return z3.And(n >= 0, z3.ForAll([s, k], z3.Implies(z3.And(0 <= k, k < n), z3.And(g > 0, g < eng.alloc_bound(st, "Genotype"), z3.Or(ln[g] == 0, ln[g] == 2))),
                                    patterns=[GENOTYPES_OF(t, s)[k]]))


@R.spec
def conflict_at(eng, st, table, trio, k):
    """the statement of a Mendelian conflict of trio at variant k: all three genotypes are called and no ordering of the child's alleles takes one from each parent"""
    t, k = to_z3(table), to_z3(k)
    arr, ln = _alleles(eng, st)
    mo = eng.load_field_raw(st, trio, "mother")
    fa = eng.load_field_raw(st, trio, "father")
    ch = to_z3(eng.load_field_raw(st, trio, "child"))
    gm, gf, gc = GENOTYPES_OF(t, mo.val())[k], GENOTYPES_OF(t, fa.val())[k], GENOTYPES_OF(t, ch)[k]
    has = lambda g, a: z3.Or(arr[g][0] == a, arr[g][1] == a)
    c0, c1 = arr[gc][0], arr[gc][1]
    compatible = z3.Or(z3.And(has(gm, c0), has(gf, c1)), z3.And(has(gm, c1), has(gf, c0)))
    return z3.And(z3.Not(mo.is_none()), z3.Not(fa.is_none()), ln[gm] != 0, ln[gf] != 0, ln[gc] != 0, z3.Not(compatible))


_IN = "0 <= k and k < variant_table.nvariants"
_UPTO = "forall(k, (k in mendelian_conflicts) == (" + _IN + " and (exists(t, 0 <= t and t < {ti} and conflict_at(variant_table, trios[t], k)){extra})))"
R.contract(
    "find_mendelian_conflicts", params={"trios": LIST(REF("Trio")), "variant_table": REF("VariantTable")}, returns=SET(INT),
    requires=[("trios-valid", "forall(t, implies(0 <= t and t < len(trios), trios[t] is not None))"), ("table", "variant_table is not None and TABLE_OK(variant_table)")],
    ensures=[("exactly-the-variants-with-a-conflict-in-some-trio",
              "forall(k, (k in result) == (" + _IN + " and exists(t, 0 <= t and t < len(trios) and conflict_at(variant_table, trios[t], k))))")],
    locals={"mendelian_conflicts": SET(INT), "trio": REF("Trio"), "gt_mother": REF("Genotype"), "gt_father": REF("Genotype"), "gt_child": REF("Genotype"), "index": INT},
    loops={0: dict(index="ti", inv=[("conflicts-of-the-trios-so-far", _UPTO.format(ti="ti", extra=""))]),
           1: dict(index="vi", inv=[("plus-this-trio-up-to-here", _UPTO.format(ti="ti", extra=" or (k < vi and conflict_at(variant_table, trios[ti], k))")),
                                    ("this-trio", "trio is trios[ti] and trio.mother is not None and trio.father is not None")])},
    props=P)


def canary():
    import copy
    c = copy.copy(R.contracts["find_mendelian_conflicts"])
    c.ensures = [("wrong", "forall(k, (k in result) == (" + _IN + " and forall(t, implies(0 <= t and t < len(trios), conflict_at(variant_table, trios[t], k)))))")]
    return c        # "a variant counts only if EVERY trio is in conflict"


R.canaries.append(("phase.py:canary#conflict-needs-every-trio", canary))


# ---------------------------------------------------------------------------------------------------------------------------------
# find_phaseable_variants (C05): which variants of a family are handed to the solver at all.  Row k of the table is REMOVED from the table that is phased
# exactly if some family member's genotype is missing there, or some trio is in Mendelian conflict there, or (unless --include-homozygous) no family member
# is heterozygous there.  (Removed variants are written unphased for every member of the family.)
R.classes["VariantTable"] = {"nvariants": INT, "removed": SET(INT), "variants": LIST(REF("VcfVariant")), "copy_of": REF("VariantTable")}
R.declare_class("VcfVariant", {"position": INT})
HOMOZYGOUS = z3.Function("GENOTYPE_HOMOZYGOUS", z3.IntSort(), z3.BoolSort())


def _gt_method(eng, st, obj, name, args, kwargs):
    if name == "is_none" and not args:
        return eng.load_field(st, obj, "alleles").len == 0
    if name == "is_homozygous" and not args:
        return HOMOZYGOUS(obj.ref)
    if name == "is_diploid_and_biallelic" and not args:
        return z3.Bool(fresh_name("diploid_and_biallelic"))      # only ever asserted
    return NotImplemented


GenotypeModel.method = staticmethod(_gt_method)


def _table_method(eng, st, obj, name, args, kwargs):
    if name == "genotypes_of" and len(args) == 1:
        n = to_z3(eng.load_field(st, obj, "nvariants"))
        return VList(REF("Genotype"), GENOTYPES_OF(obj.ref, to_z3(eng.coerce(args[0], INT, st))), n)
    if name == "remove_rows_by_index" and len(args) == 1 and isinstance(args[0], VSet):
        cur = eng.load_field(st, obj, "removed")
        k = z3.Int(fresh_name("k"))
        eng.store_field(st, obj, "removed", VSet(INT, z3.Lambda([k], z3.Or(cur.dom[k], args[0].dom[k]))))
        return NONE
    return NotImplemented


TableModel.method = staticmethod(_table_method)
TableModel.len = staticmethod(lambda eng, st, obj: to_z3(eng.load_field(st, obj, "nvariants")))


def model_deepcopy(eng, st, node, args, kwargs):
    """deepcopy(variant_table): a fresh table with the same rows (nothing removed yet); the original is not touched by operations on the copy"""
    src = args[0]
    if not (isinstance(src, VRef) and src.cls == "VariantTable"):
        raise Unsupported("deepcopy of %r" % (src,))
    t = eng.allocate(st, "VariantTable")
    eng.store_field(st, t, "nvariants", eng.load_field(st, src, "nvariants"))
    eng.store_field(st, t, "removed", VSet(INT, z3.K(z3.IntSort(), z3.BoolVal(False))))
    eng.store_field(st, t, "variants", eng.load_field(st, src, "variants"))
    eng.store_field(st, t, "copy_of", src)
    return t


R.external_models["deepcopy"] = model_deepcopy


@R.spec
def missing_at(eng, st, table, s, k):
    arr, ln = _alleles(eng, st)
    return ln[GENOTYPES_OF(to_z3(table), to_z3(s))[to_z3(k)]] == 0


@R.spec
def het_at(eng, st, table, s, k):
    arr, ln = _alleles(eng, st)
    g = GENOTYPES_OF(to_z3(table), to_z3(s))[to_z3(k)]
    return z3.And(ln[g] != 0, z3.Not(HOMOZYGOUS(g)))


@R.spec
def hom_at(eng, st, table, s, k):
    arr, ln = _alleles(eng, st)
    g = GENOTYPES_OF(to_z3(table), to_z3(s))[to_z3(k)]
    return z3.And(ln[g] != 0, HOMOZYGOUS(g))


_FAM = "0 <= f and f < {fi}"
_SETS = [("missing", "forall(k, (k in missing_genotypes) == (" + _IN + " and (exists(f, " + _FAM + " and missing_at(variant_table, family[f], k)){extra_m})))"),
         ("heterozygous", "forall(k, (k in heterozygous) == (" + _IN + " and (exists(f, " + _FAM + " and het_at(variant_table, family[f], k)){extra_h})))"),
         ("homozygous", "forall(k, (k in homozygous) == (" + _IN + " and (exists(f, " + _FAM + " and hom_at(variant_table, family[f], k)){extra_o})))")]
_ANY_MISSING = "exists(f, 0 <= f and f < len(family) and missing_at(variant_table, family[f], k))"
_ANY_HET = "exists(f, 0 <= f and f < len(family) and het_at(variant_table, family[f], k))"
_ANY_CONFLICT = "exists(t, 0 <= t and t < len(trios) and conflict_at(variant_table, trios[t], k))"
R.contract(
    "find_phaseable_variants",
    params={"family": LIST(INT), "include_homozygous": BOOL, "trios": LIST(REF("Trio")), "variant_table": REF("VariantTable")},
    returns=TUPLE(LIST(INT), REF("VariantTable")),
    requires=[("trios-valid", "forall(t, implies(0 <= t and t < len(trios), trios[t] is not None))"), ("table", "variant_table is not None and TABLE_OK(variant_table)"),
              ("rows", "len(variant_table.variants) == variant_table.nvariants and forall(k, implies(0 <= k and k < variant_table.nvariants, variant_table.variants[k] is not None))")],
    ensures=[
        ("a-copy-is-phased-the-input-table-is-not-touched", "result[1] is not None and result[1].copy_of is variant_table and result[1].nvariants == variant_table.nvariants and "
                                                            "forall(k, (k in variant_table.removed) == old(k in variant_table.removed))"),
        ("removed-rows-are-exactly-missing-or-conflict-or-nowhere-heterozygous",
         "forall(k, (k in result[1].removed) == (" + _IN + " and (" + _ANY_MISSING + " or " + _ANY_CONFLICT + " or (not include_homozygous and not " + _ANY_HET + "))))"),
    ],
    modifies=["VariantTable.removed", "VariantTable.nvariants", "VariantTable.variants", "VariantTable.copy_of"],
    locals={"missing_genotypes": SET(INT), "heterozygous": SET(INT), "homozygous": SET(INT), "gt": REF("Genotype"), "index": INT, "sample": INT,
            "to_retain": SET(INT), "to_discard": SET(INT), "mendelian_conflicts": SET(INT), "homozygous_positions": LIST(INT)},
    loops={0: dict(index="fi", inv=[(t, c.format(fi="fi", extra_m="", extra_h="", extra_o="")) for t, c in _SETS]),
           1: dict(index="vi", inv=[(t, c.format(fi="fi", extra_m=" or (k < vi and missing_at(variant_table, family[fi], k))",
                                                 extra_h=" or (k < vi and het_at(variant_table, family[fi], k))",
                                                 extra_o=" or (k < vi and hom_at(variant_table, family[fi], k))")) for t, c in _SETS] + [("sample", "sample == family[fi]")])},
    extra={"allocates": ["VariantTable"], "assume_asserts": [0], "desugar_comprehensions": True},
    props=P)


def canary_phaseable():
    import copy
    c = copy.copy(R.contracts["find_phaseable_variants"])
    c.ensures = [("wrong", "forall(k, (k in result[1].removed) == (" + _IN + " and " + _ANY_MISSING + "))")]      # "only missing genotypes remove a variant"
    return c


R.canaries.append(("phase.py:canary#only-missing-genotypes-remove-variants", canary_phaseable))
