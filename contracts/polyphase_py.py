"""Loop-body contract for whatshap/cli/polyphase.py:phase_single_individual (C15): the translation of cut positions into phase sets.

Unit under verification: loop 0 (`for i, cut_pos in enumerate(cuts[:-1])` with its inner range loop).  Given the cut indices (non-decreasing, the last one
being the number of variants) and the strictly increasing list of read-covered variant positions, every variant of an interval [cuts[k], cuts[k+1]) ends up
in the component named by the position of the FIRST variant of that interval: phase sets are disjoint intervals in variant order, named by their first
variant.  (The code also writes the key position+1; with adjacent variant positions that key is another variant's key -- the proof shows a later write always
restores the right value.)"""
import z3
from vcgen.api import *  # noqa

R = Registry("whatshap/cli/polyphase.py")
R.declare_class("Param", {"ploidy": INT})

_N = "len(cuts)"
_SETUP = [
    ("cuts", "len(cuts) >= 1 and cuts[len(cuts) - 1] == num_vars and num_vars == len(accessible_pos) and "
             "forall(k, j, implies(0 <= k and k <= j and j < len(cuts), 0 <= cuts[k] and cuts[k] <= cuts[j]))"),
    ("positions-strictly-increasing", "forall(a, b, implies(0 <= a and a < b and b < len(accessible_pos), accessible_pos[a] < accessible_pos[b]))"),
    ("ploidy", "param.ploidy >= 0"),
]
_DONE = ("forall(p, k, implies(0 <= k and k < {k} and cuts[k] <= p and p < cuts[k + 1], "
         "accessible_pos[p] in components and components[accessible_pos[p]] == accessible_pos[cuts[k]]))")
_CURRENT = ("forall(p, implies(cuts[i] <= p and p < pp, accessible_pos[p] in components and components[accessible_pos[p]] == accessible_pos[cuts[i]]))")

R.contract(
    "phase_single_individual#components",
    params={"cuts": LIST(INT), "accessible_pos": LIST(INT), "components": DICT(INT, INT), "haploid_components": DICT(INT, LIST(INT)), "param": REF("Param"), "num_vars": INT},
    requires=_SETUP,
    ensures=[("every-variant-is-in-the-set-named-by-the-first-variant-of-its-interval", _DONE.format(k="len(cuts) - 1"))],
    locals={"i": INT, "cut_pos": INT, "pos": INT},
    loops={0: dict(index="ci", inv=[("done", _DONE.format(k="ci"))]),
           1: dict(index="pp", inv=[("done", _DONE.format(k="i")), ("current", _CURRENT), ("interval", "0 <= i and i < len(cuts) - 1")])},
    extra={"target": "phase_single_individual", "loop_slice": 0},
    props=["C15"])


def canary():
    import copy
    c = copy.copy(R.contracts["phase_single_individual#components"])
    c.ensures = [("wrong", "forall(p, implies(0 <= p and p < num_vars, components[accessible_pos[p]] == accessible_pos[0]))")]    # "one phase set for everything"
    return c


R.canaries.append(("polyphase.py:canary#single-phase-set", canary))
