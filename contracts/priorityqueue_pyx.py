"""placeholder until the Cython front end lands"""
from vcgen.api import *  # noqa
R = Registry("whatshap/priorityqueue.pyx", lang="cython")
