"""Contracts for whatshap/priorityqueue.pyx (C18, C07): binary max-heap of (score vector, item) with a position map.

Model (what the Cython extraction keeps / drops is stated in vcgen/fe_cython.py):
  heap      : vector[pair[priority_type_ptr, item_type]]  ->  LIST(TUPLE(REF Score, INT)); sc(i), it(i) its components
  positions : unordered_map[item_type, int]                ->  DICT(INT, INT)
  Score     : the target of a priority_type_ptr, an immutable vector<int> (field data); pointer identity/ownership dropped
Order: LOWER(a, b) is an abstract strict weak order on scores (irreflexive, transitive, negatively transitive).  That the lexicographic
order computed by _vector_score_lower IS such an order is discharged by the lemma group L#lexicographic-order-is-a-strict-weak-order at the end of this file; the function
itself is verified against the lexicographic definition LEX and against LOWER under the definitional instance LOWER(a,b) == LEX(a,b).

Abstract view V = {it(i) -> sc(i) | i < n}.  WF: positions[it(i)] == i, dom(positions) == items, heap order not LOWER(sc(par i), sc(i)).
"""
import z3
from vcgen.api import *  # noqa

R = Registry("whatshap/priorityqueue.pyx", lang="cython")
ENTRY = TUPLE(REF("Score"), INT)
R.declare_class("Score", {"data": LIST(INT)})
R.pointees.add("Score")
R.declare_class("PriorityQueue", {"heap": LIST(ENTRY), "positions": DICT(INT, INT)})
R.ctypes.update({"int": INT, "bool": BOOL, "bint": BOOL, "item_type": INT, "priority_type_ptr": REF("Score"), "queue_entry_type": ENTRY})
P = ["C18", "C07"]

LOWER_F = z3.Function("LOWER", z3.IntSort(), z3.IntSort(), z3.BoolSort())


def swo_axioms():
    a, b, c = z3.Ints("swo_a swo_b swo_c")
    return [z3.ForAll([a], z3.Not(LOWER_F(a, a))),
            z3.ForAll([a, b, c], z3.Implies(z3.And(LOWER_F(a, b), LOWER_F(b, c)), LOWER_F(a, c))),
            z3.ForAll([a, b, c], z3.Implies(z3.And(z3.Not(LOWER_F(a, b)), z3.Not(LOWER_F(b, c))), z3.Not(LOWER_F(a, c))))]


def H(eng, st, self=None):
    q = eng.load_field_raw(st, self if self is not None else st.env["self"], "heap")
    d = eng.load_field_raw(st, self if self is not None else st.env["self"], "positions")
    sc = lambda i: ENTRY.dt.accessor(0, 0)(q.arr[i])
    it = lambda i: ENTRY.dt.accessor(0, 1)(q.arr[i])
    return q, d, sc, it


def par(i):
    return (i - 1) / 2


@R.spec
def LOWER(eng, st, a, b):
    return LOWER_F(to_z3(a, REF("Score")), to_z3(b, REF("Score")))


@R.spec
def SWO(eng, st):
    return swo_axioms()


@R.spec
def POSOK(eng, st, self):
    q, d, sc, it = H(eng, st, self)
    i, k = z3.Ints(fresh_name("i") + " " + fresh_name("k"))
    return [q.len >= 0,
            z3.ForAll([i], z3.Implies(z3.And(0 <= i, i < q.len), z3.And(d.dom[it(i)], d.map[it(i)] == i))),
            z3.ForAll([k], z3.Implies(d.dom[k], z3.And(0 <= d.map[k], d.map[k] < q.len, it(d.map[k]) == k)))]


@R.spec
def ORDER(eng, st, self):
    q, d, sc, it = H(eng, st, self)
    i = z3.Int(fresh_name("i"))
    return z3.ForAll([i], z3.Implies(z3.And(1 <= i, i < q.len), z3.Not(LOWER_F(sc(par(i)), sc(i)))))


@R.spec
def ORDER_EXCEPT_UP(eng, st, self, index):
    """heap order on every edge except (parent(index), index); plus the grandparent condition for the children of index"""
    q, d, sc, it = H(eng, st, self)
    x = to_z3(index)
    i = z3.Int(fresh_name("i"))
    return [z3.ForAll([i], z3.Implies(z3.And(1 <= i, i < q.len, i != x), z3.Not(LOWER_F(sc(par(i)), sc(i))))),
            z3.ForAll([i], z3.Implies(z3.And(1 <= i, i < q.len, par(i) == x, x >= 1), z3.Not(LOWER_F(sc(par(x)), sc(i)))))]


@R.spec
def ORDER_EXCEPT_DOWN(eng, st, self, index):
    """heap order on every edge except those from index to its children; plus the grandparent condition"""
    q, d, sc, it = H(eng, st, self)
    x = to_z3(index)
    i = z3.Int(fresh_name("i"))
    return [z3.ForAll([i], z3.Implies(z3.And(1 <= i, i < q.len, par(i) != x), z3.Not(LOWER_F(sc(par(i)), sc(i))))),
            z3.ForAll([i], z3.Implies(z3.And(1 <= i, i < q.len, par(i) == x, x >= 1), z3.Not(LOWER_F(sc(par(x)), sc(i)))))]


@R.spec
def VIEW_SAME(eng, st, self):
    """the abstract view item -> score is the same as in the pre-state (entries only permuted)"""
    q, d, sc, it = H(eng, st, self)
    q0, d0, sc0, it0 = H(eng, st.old, st.old.env["self"])
    k = z3.Int(fresh_name("k"))
    return [q.len == q0.len,
            z3.ForAll([k], d.dom[k] == d0.dom[k]),
            z3.ForAll([k], z3.Implies(d0.dom[k], sc(d.map[k]) == sc0(d0.map[k])))]


@R.spec
def VIEW_UPDATED(eng, st, self, item, score):
    """V' == V[item -> score]"""
    q, d, sc, it = H(eng, st, self)
    q0, d0, sc0, it0 = H(eng, st.old, st.old.env["self"])
    x, s = to_z3(item), to_z3(score, REF("Score"))
    k = z3.Int(fresh_name("k"))
    return [z3.ForAll([k], d.dom[k] == z3.Or(d0.dom[k], k == x)),
            sc(d.map[x]) == s,
            z3.ForAll([k], z3.Implies(z3.And(d0.dom[k], k != x), sc(d.map[k]) == sc0(d0.map[k])))]


@R.spec
def VIEW_REMOVED(eng, st, self, item):
    q, d, sc, it = H(eng, st, self)
    q0, d0, sc0, it0 = H(eng, st.old, st.old.env["self"])
    x = to_z3(item)
    k = z3.Int(fresh_name("k"))
    return [q.len == q0.len - 1,
            z3.ForAll([k], d.dom[k] == z3.And(d0.dom[k], k != x)),
            z3.ForAll([k], z3.Implies(z3.And(d0.dom[k], k != x), sc(d.map[k]) == sc0(d0.map[k])))]


@R.spec
def IS_MAX(eng, st, self, score):
    """no queued score is above `score` (evaluated in the given state)"""
    q, d, sc, it = H(eng, st, self)
    i = z3.Int(fresh_name("i"))
    return z3.ForAll([i], z3.Implies(z3.And(0 <= i, i < q.len), z3.Not(LOWER_F(to_z3(score, REF("Score")), sc(i)))))


@R.spec
def SWAPPED(eng, st, self, a, b):
    q, d, sc, it = H(eng, st, self)
    q0, d0, sc0, it0 = H(eng, st.old, st.old.env["self"])
    x, y = to_z3(a), to_z3(b)
    i, k = z3.Ints(fresh_name("i") + " " + fresh_name("k"))
    return [q.len == q0.len,
            z3.ForAll([i], z3.Implies(z3.And(0 <= i, i < q.len), q.arr[i] == z3.If(i == x, q0.arr[y], z3.If(i == y, q0.arr[x], q0.arr[i])))),
            z3.ForAll([k], d.dom[k] == d0.dom[k])]


@R.spec
def LEX(eng, st, a, b):
    """lexicographic order with 'proper prefix is smaller' on the two score vectors"""
    da = eng.load_field_raw(st, a, "data")
    db = eng.load_field_raw(st, b, "data")
    k, j = z3.Ints(fresh_name("k") + " " + fresh_name("j"))
    m = z3.If(da.len < db.len, da.len, db.len)
    prefix_eq = lambda upto: z3.ForAll([j], z3.Implies(z3.And(0 <= j, j < upto), da.arr[j] == db.arr[j]))
    return z3.Or(z3.Exists([k], z3.And(0 <= k, k < m, prefix_eq(k), da.arr[k] < db.arr[k])),
                 z3.And(prefix_eq(m), da.len < db.len))


# ------------------------------------------------------------------------------------------------ index helpers (inlined at call sites)
R.contract("_parent", params={"index": INT}, returns=INT, inline=True, ensures=["result == (index - 1) // 2"], props=P)
R.contract("_left_child", params={"index": INT}, returns=INT, inline=True, ensures=["result == 2 * index + 1"], props=P)
R.contract("_right_child", params={"index": INT}, returns=INT, inline=True, ensures=["result == 2 * index + 2"], props=P)

# ------------------------------------------------------------------------------------------------ score comparison
R.contract("_vector_score_lower", params={"first": REF("Score"), "second": REF("Score")}, returns=BOOL,
           requires=[("sizes", "len(first.data) >= 0 and len(second.data) >= 0")],
           ensures=[("lexicographic", "result == LEX(first, second)"),
                    ("abstract-order", "result == LOWER(first, second)")],
           loops={0: dict(index="k", inv=[("equal-prefix", "forall(j, implies(0 <= j and j < k, first.data[j] == second.data[j]))")])},
           extra={"assume": ["LOWER(first, second) == LEX(first, second)"]},
           props=P)

R.contract("PriorityQueue._score_lower", params={"self": REF("PriorityQueue"), "index1": INT, "index2": INT}, returns=BOOL,
           requires=[("in-range", "0 <= index1 and index1 < len(self.heap) and 0 <= index2 and index2 < len(self.heap)"),
                     ("scores-valid", "self.heap[index1].first is not None and self.heap[index2].first is not None and len(self.heap[index1].first.data) >= 0 and len(self.heap[index2].first.data) >= 0")],
           ensures=[("order", "result == LOWER(self.heap[index1].first, self.heap[index2].first)")],
           props=P)

R.contract("PriorityQueue._swap", params={"self": REF("PriorityQueue"), "index1": INT, "index2": INT},
           requires=[("in-range", "0 <= index1 and index1 < len(self.heap) and 0 <= index2 and index2 < len(self.heap)"), ("pos", "POSOK(self)")],
           ensures=[("swapped", "SWAPPED(self, index1, index2)"), ("pos", "POSOK(self)")],
           modifies=["PriorityQueue.heap", "PriorityQueue.positions"], props=P)

SCORES_VALID = ("scores-valid", "forall(i, implies(0 <= i and i < len(self.heap), self.heap[i].first is not None and len(self.heap[i].first.data) >= 0))")

R.contract("PriorityQueue._sift_up", params={"self": REF("PriorityQueue"), "index": INT},
           requires=[("swo", "SWO()"), ("pos", "POSOK(self)"), ("in-range", "0 <= index and index < len(self.heap)"), ("order-except", "ORDER_EXCEPT_UP(self, index)"), SCORES_VALID],
           ensures=[("pos", "POSOK(self)"), ("order", "ORDER(self)"), ("view-unchanged", "VIEW_SAME(self)"), SCORES_VALID],
           modifies=["PriorityQueue.heap", "PriorityQueue.positions"], extra={"decreases": "index"}, props=P)

R.contract("PriorityQueue._sift_down", params={"self": REF("PriorityQueue"), "index": INT},
           requires=[("swo", "SWO()"), ("pos", "POSOK(self)"), ("in-range", "0 <= index and index < len(self.heap)"), ("order-except", "ORDER_EXCEPT_DOWN(self, index)"), SCORES_VALID],
           ensures=[("pos", "POSOK(self)"), ("order", "ORDER(self)"), ("view-unchanged", "VIEW_SAME(self)"), SCORES_VALID],
           modifies=["PriorityQueue.heap", "PriorityQueue.positions"], extra={"decreases": "len(self.heap) - index"}, props=P)

WF = [("swo", "SWO()"), ("pos", "POSOK(self)"), ("order", "ORDER(self)"), SCORES_VALID]

R.contract("PriorityQueue.c_push", params={"self": REF("PriorityQueue"), "score": REF("Score"), "item": INT},
           requires=WF + [("new-item", "item not in self.positions"), ("score-valid", "len(score.data) >= 0")],
           ensures=[("pos", "POSOK(self)"), ("order", "ORDER(self)"), ("view", "VIEW_UPDATED(self, item, score)"), ("size", "len(self.heap) == old(len(self.heap)) + 1"), SCORES_VALID],
           modifies=["PriorityQueue.heap", "PriorityQueue.positions"], props=P)

R.contract("PriorityQueue.c_pop", params={"self": REF("PriorityQueue")}, returns=ENTRY,
           requires=WF + [("root-is-maximum", "implies(len(self.heap) > 0, IS_MAX(self, self.heap[0].first))")],
           raises={"IndexError": "len(self.heap) == 0"},
           ensures=[("pos", "POSOK(self)"), ("order", "ORDER(self)"),
                    ("returns-queued-item-with-its-score", "old(result.second in self.positions) and old(self.heap[self.positions[result.second]].first) is result.first"),
                    ("returns-a-maximum", "old(IS_MAX(self, result.first))"),
                    ("view", "VIEW_REMOVED(self, result.second)"), SCORES_VALID],
           modifies=["PriorityQueue.heap", "PriorityQueue.positions"], props=P)

R.contract("PriorityQueue.c_change_score", params={"self": REF("PriorityQueue"), "item": INT, "c_new_score": REF("Score")},
           requires=WF + [("present", "item in self.positions"), ("score-valid", "len(c_new_score.data) >= 0")],
           ensures=[("pos", "POSOK(self)"), ("order", "ORDER(self)"), ("view", "VIEW_UPDATED(self, item, c_new_score)"), ("size", "len(self.heap) == old(len(self.heap))"), SCORES_VALID],
           modifies=["PriorityQueue.heap", "PriorityQueue.positions"], locals={"position": INT, "c_old_score": REF("Score")}, props=P)

R.contract("PriorityQueue.c_get_score_by_item", params={"self": REF("PriorityQueue"), "item": INT}, returns=REF("Score"),
           requires=[("pos", "POSOK(self)")],
           ensures=[("absent-gives-null", "implies(item not in self.positions, result is None)"),
                    ("present-gives-score", "implies(item in self.positions, result is self.heap[self.positions[item]].first)")],
           extra={"nullable_result": True}, props=P)

# a second contract of c_pop for callers that do not care WHICH queued item comes out (read selection's safety properties): no root-is-maximum
# precondition, no maximality postcondition
R.contract("PriorityQueue.c_pop/any", params={"self": REF("PriorityQueue")}, returns=ENTRY,
           requires=WF,
           raises={"IndexError": "len(self.heap) == 0"},
           ensures=[("pos", "POSOK(self)"), ("order", "ORDER(self)"),
                    ("returns-queued-item-with-its-score", "old(result.second in self.positions) and old(self.heap[self.positions[result.second]].first) is result.first"),
                    ("view", "VIEW_REMOVED(self, result.second)"), SCORES_VALID],
           modifies=["PriorityQueue.heap", "PriorityQueue.positions"], extra={"target": "PriorityQueue.c_pop"}, props=P)
R.contract("PriorityQueue.is_empty", params={"self": REF("PriorityQueue")}, returns=BOOL, ensures=["result == (len(self.heap) == 0)"], props=P)

R.contract("PriorityQueue.size", params={"self": REF("PriorityQueue")}, returns=INT, ensures=["result == len(self.heap)"], props=P)
R.contract("PriorityQueue.c_is_empty", params={"self": REF("PriorityQueue")}, returns=BOOL, ensures=["result == (len(self.heap) == 0)"], props=P)


# ------------------------------------------------------------------------------------------------ lemmas over the contracts
def lemma_root_is_maximum_step():
    """Inductive step of 'heap order => the root is a maximum': if no earlier entry is above the root's score... the statement for i follows from
    the statement for par(i) < i, the heap-order edge (par i, i) and negative transitivity.  (The induction principle itself is meta-level.)"""
    sc = z3.Function("lemma_sc", z3.IntSort(), z3.IntSort())
    n, i, j = z3.Ints("lemma_n lemma_i lemma_j")
    hyp = swo_axioms() + [
        z3.ForAll([j], z3.Implies(z3.And(1 <= j, j < n), z3.Not(LOWER_F(sc((j - 1) / 2), sc(j))))),
        z3.ForAll([j], z3.Implies(z3.And(0 <= j, j < i), z3.Not(LOWER_F(sc(0), sc(j))))),
        0 <= i, i < n]
    return hyp, {"inductive-step": z3.Not(LOWER_F(sc(0), sc(i))), "parent-is-smaller-index": z3.Implies(i >= 1, z3.And((i - 1) / 2 >= 0, (i - 1) / 2 < i))}


def lemma_pop_sequence_non_increasing():
    """History lemma over the per-operation contracts: if pop returns s1 (a maximum of view V1) and the next pop returns s2 from a view contained in
    V1 minus the popped item, then s2 is not above s1."""
    s1, s2 = z3.Ints("pop_s1 pop_s2")
    inV1 = z3.Function("inV1", z3.IntSort(), z3.BoolSort())   # scores present in the first view
    x = z3.Int("pop_x")
    hyp = swo_axioms() + [z3.ForAll([x], z3.Implies(inV1(x), z3.Not(LOWER_F(s1, x)))), inV1(s2)]
    return hyp, {"second-pop-not-above-first": z3.Not(LOWER_F(s1, s2))}


R.lemmas.append(("priorityqueue.pyx:L#root-is-maximum", P, lemma_root_is_maximum_step))
R.lemmas.append(("priorityqueue.pyx:L#pops-are-non-increasing", P, lemma_pop_sequence_non_increasing))


def canary_pop_returns_minimum():
    import copy
    c = copy.copy(R.contracts["PriorityQueue._sift_up"])
    c.requires = [r for r in c.requires if not (isinstance(r, tuple) and r[0] == "order-except")] + \
        [("order-except", lambda eng, st: ORDER_EXCEPT_UP(eng, st, st.env["self"], st.env["index"])[:1])]    # grandparent condition dropped
    return c


R.canaries.append(("priorityqueue.pyx:canary#sift_up-without-grandparent-condition", canary_pop_returns_minimum))


# ------------------------------------------------------------------------------------------------ the lexicographic order IS a strict weak order (lemmas)
def lemma_lex_is_strict_weak_order():
    """LEX (lexicographic with 'proper prefix is smaller') over integer vectors of any lengths is irreflexive, transitive and negatively transitive.
    Irreflexivity and transitivity are discharged directly.  Negative transitivity goes through trichotomy (a < b or b < a or a == b), whose proof needs the
    existence of a first differing index: P(n) := 'the vectors agree below n, or have a first difference below n' is shown for 0 (base) and from n to n+1
    (step); the induction principle that gives P(min length) is meta-level, like for the heap-root lemma.  From P(min length): trichotomy; from trichotomy,
    the transitivity instance b<a<c => b<c and congruence (a == b and a < c => b < c): negative transitivity."""
    A = z3.ArraySort(z3.IntSort(), z3.IntSort())

    def pe(a, b, upto, tag):
        j = z3.Int("lexj_" + tag)
        return z3.ForAll([j], z3.Implies(z3.And(0 <= j, j < upto), a[j] == b[j]))

    def lex(a, la, b, lb, tag):
        k = z3.Int("lexk_" + tag)
        m = z3.If(la < lb, la, lb)
        return z3.Or(z3.Exists([k], z3.And(0 <= k, k < m, pe(a, b, k, tag + "p"), a[k] < b[k])), z3.And(pe(a, b, m, tag + "q"), la < lb))

    def fd(a, b, n, tag):
        k = z3.Int("lexfd_" + tag)
        return z3.Exists([k], z3.And(0 <= k, k < n, pe(a, b, k, tag + "p"), a[k] != b[k]))

    def P(a, b, n, tag):
        return z3.Or(pe(a, b, n, tag + "e"), fd(a, b, n, tag))

    def EQ(a, la, b, lb, tag):
        return z3.And(la == lb, pe(a, b, la, tag))
    a, b, c = z3.Consts("lex_a lex_b lex_c", A)
    la, lb, lc, n = z3.Ints("lex_la lex_lb lex_lc lex_n")
    m = z3.If(la < lb, la, lb)
    hyp = [la >= 0, lb >= 0, lc >= 0]
    x1, x2, x3, x4, e = lex(a, la, b, lb, "n1"), lex(b, lb, c, lc, "n2"), lex(a, la, c, lc, "n3"), lex(b, lb, a, la, "n4"), EQ(a, la, b, lb, "n5")
    goals = {
        "irreflexive": z3.Not(lex(a, la, a, la, "i")),
        "transitive": z3.Implies(z3.And(lex(a, la, b, lb, "t1"), lex(b, lb, c, lc, "t2")), lex(a, la, c, lc, "t3")),
        "first-difference-base": P(a, b, z3.IntVal(0), "b"),
        "first-difference-step": z3.Implies(z3.And(n >= 0, n < m, P(a, b, n, "s1")), P(a, b, n + 1, "s2")),
        "trichotomy-from-first-difference": z3.Implies(P(a, b, m, "tr"), z3.Or(lex(a, la, b, lb, "tr1"), lex(b, lb, a, la, "tr2"), EQ(a, la, b, lb, "tr3"))),
        "congruence": z3.Implies(z3.And(EQ(a, la, b, lb, "c1"), lex(a, la, c, lc, "c2")), lex(b, lb, c, lc, "c3")),
        "negatively-transitive-from-trichotomy-transitivity-congruence":
            z3.Implies(z3.And(z3.Or(x1, x4, e), z3.Implies(z3.And(x4, x3), x2), z3.Implies(z3.And(e, x3), x2), z3.Not(x1), z3.Not(x2)), z3.Not(x3)),
    }
    return hyp, goals


R.lemmas.append(("priorityqueue.pyx:L#lexicographic-order-is-a-strict-weak-order", P, lemma_lex_is_strict_weak_order))


# ---- client lemmas over the contracts (histories)
R.client_lemmas["L#push-then-get_score"] = '''
def pushed_then_looked_up(self, score, item, other):
    self.c_push(score, item)
    a = self.c_get_score_by_item(item)
    b = self.c_get_score_by_item(other)
    return (a, b)
'''
R.contract("L#push-then-get_score", params={"self": REF("PriorityQueue"), "score": REF("Score"), "item": INT, "other": INT}, returns=TUPLE(REF("Score"), REF("Score")),
           requires=WF + [("new-item", "item not in self.positions"), ("score-valid", "score is not None and len(score.data) >= 0"), ("another-item", "other != item")],
           ensures=[("the-pushed-item-has-the-pushed-score", "result[0] is score"),
                    ("every-other-item-keeps-its-score-or-absence", "ite(old(other in self.positions), result[1] is old(self.heap[self.positions[other]].first), result[1] is None)")],
           modifies=["PriorityQueue.heap", "PriorityQueue.positions"], props=P)

R.client_lemmas["L#change_score-then-get_score"] = '''
def changed_then_looked_up(self, item, c_new_score, other):
    self.c_change_score(item, c_new_score)
    a = self.c_get_score_by_item(item)
    b = self.c_get_score_by_item(other)
    return (a, b)
'''
R.contract("L#change_score-then-get_score", params={"self": REF("PriorityQueue"), "item": INT, "c_new_score": REF("Score"), "other": INT}, returns=TUPLE(REF("Score"), REF("Score")),
           requires=list(R.contracts["PriorityQueue.c_change_score"].requires) + [("another-item", "other != item")],
           ensures=[("the-item-has-the-new-score", "result[0] is c_new_score"),
                    ("every-other-item-keeps-its-score-or-absence", "ite(old(other in self.positions), result[1] is old(self.heap[self.positions[other]].first), result[1] is None)")],
           modifies=["PriorityQueue.heap", "PriorityQueue.positions"], props=P)

R.client_lemmas["L#pop-then-get_score"] = '''
def popped_then_looked_up(self, other):
    e = self.c_pop()
    a = self.c_get_score_by_item(e.second)
    b = self.c_get_score_by_item(other)
    return (e, a, b)
'''
R.contract("L#pop-then-get_score", params={"self": REF("PriorityQueue"), "other": INT}, returns=TUPLE(ENTRY, REF("Score"), REF("Score")),
           requires=list(R.contracts["PriorityQueue.c_pop"].requires) + [("non-empty", "len(self.heap) > 0")],
           ensures=[("the-popped-item-is-gone", "result[1] is None"),
                    ("every-other-item-keeps-its-score-or-absence", "implies(other != result[0].second, ite(old(other in self.positions), result[2] is old(self.heap[self.positions[other]].first), result[2] is None))")],
           modifies=["PriorityQueue.heap", "PriorityQueue.positions"], props=P)
