"""Axiomatised model of the part of pysam's VariantFile API that whatshap's VCF-rewriting code uses (unphase.py, vcf.py).

This is the *assumed contract of a dependency* (listed in the evidence as such).  Its clauses were taken from pysam's observable behaviour and
are exercised against the real pysam by the bounded checks of C13/C04/C09 (the same operations on real records):

  Reader   = VariantFile(path)            an object that exists in the pre-state: READER(path id); .header, iteration over .records
  Writer   = VariantFile(out, mode="w", header=h)   fresh; write(record) appends the record to .written
  Record   : .format  -> view with `tag in`, `del [tag]` over the set of FORMAT keys Record.fmt
             .samples -> view with .values() (the calls, in sample order) and [sample]
  Call     : call["GT"] -> tuple of Optional[int] alleles or None; call["GT"] = alleles  sets the alleles and CLEARS all phase bits
             call.phased (get) = all alleles after the first carry the phase bit; call.phased = v sets the bit of every allele after the first
             call[tag] = None marks the value of another tag missing; `tag in call` == tag in the record's FORMAT keys
  Header   : .records (list of header records with .key and .remove()), .formats and .info views with `tag in` and remove_header(tag)

Strings coming out of pysam (tags, header keys) are modelled by interned integer ids; literals in the code are interned the same way.
Type invariants of a reader's contents (assumed when it is opened): records and calls are non-null, pairwise distinct objects, and every call
belongs to exactly one record (Call.rec).
"""
import z3
from vcgen.api import *  # noqa

OPTINT = OPT(INT)
_READER = z3.Function("READER", z3.IntSort(), z3.IntSort())
_STRID = z3.Function("STRID", z3.ArraySort(z3.IntSort(), z3.IntSort()), z3.IntSort(), z3.IntSort())
STDIN_ID = z3.IntVal(-1)


def not_written_yet(eng, st, rec):
    """write() serialises the record at that moment; the model keeps a reference instead, which is the same thing as long as no record is
    modified after it was written -- every modifying operation carries that obligation"""
    eng.oblige(st, "assert", z3.Not(as_bool_z3(eng.load_field(st, rec, "frozen"))), "record-not-modified-after-write")


def _owner(eng, st, call):
    return VRef("Record", to_z3(eng.load_field(st, call, "rec")))


class FormatView(VModel):
    """record.format"""

    def __init__(self, rec):
        self.rec = rec

    def sym_contains(self, eng, st, x):
        return eng.load_field(st, self.rec, "fmt").dom[eng.key_of(x)]

    def sym_delitem(self, eng, st, key):
        s = eng.load_field(st, self.rec, "fmt")
        k = eng.key_of(key)
        eng.oblige(st, "noexc", s.dom[k], "KeyError-format")
        not_written_yet(eng, st, self.rec)
        eng.store_field(st, self.rec, "fmt", VSet(INT, z3.Store(s.dom, k, False)))


class SamplesView(VModel):
    """record.samples"""

    def __init__(self, rec):
        self.rec = rec

    def sym_call_method(self, eng, st, name, args, kwargs, node=None):
        if name == "values" and not args:
            return eng.load_field(st, self.rec, "calls")
        raise Unsupported("record.samples.%s" % name)

    def sym_getitem(self, eng, st, key):
        # record.samples[sample]: the call of that sample -- an index into the calls (sample ids are positions in the header's sample list)
        calls = eng.load_field(st, self.rec, "calls")
        k = to_z3(key)
        eng.oblige(st, "noexc", z3.And(k >= 0, k < calls.len), "KeyError-sample")
        return VRef("Call", calls.arr[k])


class HeaderFormatsView(VModel):
    """header.formats / header.info: the set of IDs defined as FORMAT / INFO (two separate name spaces in a VCF header)"""

    def __init__(self, hdr, field="formats"):
        self.hdr, self.field = hdr, field

    def sym_contains(self, eng, st, x):
        return eng.load_field(st, self.hdr, self.field).dom[eng.key_of(x)]

    def sym_call_method(self, eng, st, name, args, kwargs, node=None):
        if name == "remove_header" and len(args) == 1:
            s = eng.load_field(st, self.hdr, self.field)
            eng.store_field(st, self.hdr, self.field, VSet(INT, z3.Store(s.dom, eng.key_of(args[0]), False)))
            return NONE
        raise Unsupported("header.%s.%s" % (self.field, name))


class RecordModel:
    @staticmethod
    def getattr(eng, st, obj, name):
        if name == "format":
            return FormatView(obj)
        if name == "samples":
            return SamplesView(obj)
        return NotImplemented


class HeaderModel:
    @staticmethod
    def getattr(eng, st, obj, name):
        if name == "formats":
            return HeaderFormatsView(obj)
        if name == "info":
            return HeaderFormatsView(obj, "info")
        if name == "records":
            return eng.load_field(st, obj, "hrecs")
        return NotImplemented


class HRecModel:
    @staticmethod
    def getattr(eng, st, obj, name):
        if name == "key":
            k = eng.load_field(st, obj, "key")
            k.interned = True
            return k
        return NotImplemented

    @staticmethod
    def method(eng, st, obj, name, args, kwargs):
        if name == "remove" and not args:
            eng.store_field(st, obj, "removed", z3.BoolVal(True))
            return NONE
        return NotImplemented


class ReaderModel:
    @staticmethod
    def getattr(eng, st, obj, name):
        return NotImplemented


class WriterModel:
    @staticmethod
    def method(eng, st, obj, name, args, kwargs):
        if name == "write" and len(args) == 1 and isinstance(args[0], VRef) and args[0].cls == "Record":
            w = eng.load_field(st, obj, "written")
            eng.store_field(st, obj, "written", eng.list_append(w, args[0]))
            eng.store_field(st, args[0], "frozen", z3.BoolVal(True))
            return NONE
        return NotImplemented


def _is_gt(eng, key):
    return getattr(key, "pystr", None) == "GT"


class CallModel:
    @staticmethod
    def getitem(eng, st, obj, key):
        if _is_gt(eng, key):
            gt = eng.load_field(st, obj, "gt")
            gt.none = eng.load_field(st, obj, "gt_none")
            return gt
        # any other tag: only its None-ness is modelled
        k = eng.key_of(key)
        isnone = eng.load_field(st, obj, "tag_none").dom[k]
        v = VTagValue(isnone)
        return v

    @staticmethod
    def setitem(eng, st, obj, key, v):
        not_written_yet(eng, st, _owner(eng, st, obj))
        if _is_gt(eng, key):
            if not isinstance(v, VList):
                raise Unsupported("call['GT'] = %r" % (v,))
            if not isinstance(v.elem, OPT):
                # a tuple of plain ints: the stored genotype is the same sequence with every allele known (a named array with its defining axiom rather than a
                # lambda: quantified facts about the genotype instantiate on it)
                wrapped = z3.Array(fresh_name("gt.arr"), z3.IntSort(), OPTINT.dt)
                st.assume(z3.ForAll([_I], wrapped[_I] == OPTINT.dt.some(v.arr[_I]), patterns=[wrapped[_I]]))
                v = VList(OPTINT, wrapped, v.len)
            eng.store_field(st, obj, "gt", v)
            eng.store_field(st, obj, "gt_none", z3.BoolVal(False))
            eng.store_field(st, obj, "ph", VSet(INT, z3.K(z3.IntSort(), z3.BoolVal(False))))      # pysam writes unphased alleles
            return True
        s = eng.load_field(st, obj, "tag_none")
        k = eng.key_of(key)
        if v is NONE:
            eng.store_field(st, obj, "tag_none", VSet(INT, z3.Store(s.dom, k, True)))
            return True
        if isinstance(v, z3.ExprRef) and v.sort() == z3.IntSort():
            # an integer-valued tag (PS): the value is kept in tag_int
            ti = eng.load_field(st, obj, "tag_int")
            eng.store_field(st, obj, "tag_int", VDict(INT, INT, z3.Store(ti.dom, k, True), z3.Store(ti.map, k, v)))
            eng.store_field(st, obj, "tag_none", VSet(INT, z3.Store(s.dom, k, False)))
            return True
        if isinstance(v, VList) and v.elem.z3sort() == z3.IntSort() and not v.is_str:
            tl = eng.load_field(st, obj, "tag_list")
            eng.store_field(st, obj, "tag_list", VDict(INT, LIST(INT), tl.dom, tl.map) if False else store_list_tag(eng, tl, k, v))
            eng.store_field(st, obj, "tag_none", VSet(INT, z3.Store(s.dom, k, False)))
            return True
        raise Unsupported("call[%r] = value" % (key,))

    @staticmethod
    def contains(eng, st, obj, x):
        rec = VRef("Record", to_z3(eng.load_field(st, obj, "rec")))
        return eng.load_field(st, rec, "fmt").dom[eng.key_of(x)]

    @staticmethod
    def method(eng, st, obj, name, args, kwargs):
        if name == "get" and len(args) == 2 and not _is_gt(eng, args[0]):
            # call.get(tag, default): the stored integer when the tag holds one; in every other case (tag undefined -> default, defined but missing -> None,
            # non-integer value) the result is left unspecified
            k = eng.key_of(args[0])
            known = z3.And(eng.load_field(st, obj, "tag_int").dom[k], z3.Not(eng.load_field(st, obj, "tag_none").dom[k]))
            if args[1] is NONE:
                r = OPTINT.fresh("tagvalue")
                st.assume(z3.Implies(known, r.expr == OPTINT.dt.some(eng.load_field(st, obj, "tag_int").map[k])))
                return r
            r = z3.Int(fresh_name("tagvalue"))
            st.assume(z3.Implies(known, r == eng.load_field(st, obj, "tag_int").map[k]))
            return r
        return NotImplemented

    @staticmethod
    def getattr(eng, st, obj, name):
        if name == "phased":
            ph = eng.load_field(st, obj, "ph")
            gt = eng.load_field(st, obj, "gt")
            i = z3.Int(fresh_name("i"))
            return z3.ForAll([i], z3.Implies(z3.And(i >= 1, i < gt.len), ph.dom[i]))
        return NotImplemented

    @staticmethod
    def setattr(eng, st, obj, name, v):
        if name == "phased":
            not_written_yet(eng, st, _owner(eng, st, obj))
            ph = eng.load_field(st, obj, "ph")
            b = as_bool_z3(v)
            i = z3.Int(fresh_name("i"))
            eng.store_field(st, obj, "ph", VSet(INT, z3.Lambda([i], z3.If(i >= 1, b, ph.dom[i]))))
            return True
        return NotImplemented


_I = z3.Int("opt_i")
_LISTID = z3.Function("LISTVAL", z3.ArraySort(z3.IntSort(), z3.IntSort()), z3.IntSort(), z3.IntSort())


def store_list_tag(eng, tl, k, v):
    """list-valued tags (HS) are kept as an abstract value id LISTVAL(array, length)"""
    return VDict(INT, INT, z3.Store(tl.dom, k, True), z3.Store(tl.map, k, _LISTID(v.arr, v.len)))


def as_bool_z3(v):
    if isinstance(v, bool):
        return z3.BoolVal(v)
    return v


class VTagValue(VModel):
    """value of a FORMAT tag other than GT: only `is None` is observable in the code under contract"""

    def __init__(self, isnone):
        self.isnone = isnone

    def sym_is_none(self):
        return self.isnone


class SysModule(VModel):
    def sym_getattr(self, eng, st, name):
        if name == "stdin":
            return STDIN_ID
        raise Unsupported("sys.%s" % name)


def reader_invariants(eng, st, rd):
    """type invariants of the contents of an opened reader (assumed)"""
    recs = eng.load_field(st, rd, "records")
    calls_arr = eng.heap_arr(st, "Record.calls#arr", z3.ArraySort(z3.IntSort(), z3.IntSort()))
    calls_len = eng.heap_arr(st, "Record.calls#len", z3.IntSort())
    owner = eng.heap_arr(st, "Call.rec", z3.IntSort())
    k, k2, j, j2 = z3.Ints("%s %s %s %s" % (fresh_name("k"), fresh_name("k"), fresh_name("j"), fresh_name("j")))
    nrec, ncall = eng.alloc_bound(st, "Record"), eng.alloc_bound(st, "Call")
    hdr = eng.load_field(st, rd, "header")
    hrecs = eng.load_field(st, hdr, "hrecs")
    return [
        z3.And(hdr.ref > 0, hdr.ref < eng.alloc_bound(st, "Header")),
        z3.ForAll([k], z3.Implies(z3.And(k >= 0, k < hrecs.len), z3.And(hrecs.arr[k] > 0, hrecs.arr[k] < eng.alloc_bound(st, "HRec"))), patterns=[hrecs.arr[k]]),
        z3.ForAll([k], z3.Implies(z3.And(k >= 0, k < recs.len), z3.And(recs.arr[k] > 0, recs.arr[k] < nrec, calls_len[recs.arr[k]] >= 0,
                                                                       z3.Not(eng.heap_arr(st, "Record.frozen", z3.BoolSort())[recs.arr[k]]))), patterns=[recs.arr[k]]),
        z3.ForAll([k, k2], z3.Implies(z3.And(k >= 0, k < k2, k2 < recs.len), recs.arr[k] != recs.arr[k2]), patterns=[z3.MultiPattern(recs.arr[k], recs.arr[k2])]),
        z3.ForAll([k, j], z3.Implies(z3.And(k >= 0, k < recs.len, j >= 0, j < calls_len[recs.arr[k]]),
                                     z3.And(calls_arr[recs.arr[k]][j] > 0, calls_arr[recs.arr[k]][j] < ncall, owner[calls_arr[recs.arr[k]][j]] == recs.arr[k])),
                  patterns=[calls_arr[recs.arr[k]][j]]),
        z3.ForAll([k, j, j2], z3.Implies(z3.And(k >= 0, k < recs.len, j >= 0, j < j2, j2 < calls_len[recs.arr[k]]), calls_arr[recs.arr[k]][j] != calls_arr[recs.arr[k]][j2]),
                  patterns=[z3.MultiPattern(calls_arr[recs.arr[k]][j], calls_arr[recs.arr[k]][j2])]),
    ]


def model_VariantFile(eng, st, node, args, kwargs):
    mode = kwargs.get("mode")
    if mode is not None and getattr(mode, "pystr", None) == "w":
        w = eng.allocate(st, "Writer")
        eng.store_field(st, w, "written", VList(REF("Record"), z3.K(z3.IntSort(), z3.IntVal(0)), z3.IntVal(0)))
        hdr = kwargs.get("header")
        if not isinstance(hdr, VRef):
            raise Unsupported("VariantFile(mode='w') without header")
        eng.store_field(st, w, "header", hdr)
        return w
    if mode is not None:
        raise Unsupported("VariantFile mode %r" % (mode,))
    src = args[0]
    if isinstance(src, VList):
        pid = _STRID(src.arr, src.len)
        st.assume(pid >= 0)
    else:
        pid = to_z3(src)
    rd = VRef("Reader", _READER(pid))
    # the file's contents exist before the call: the reader object and everything reachable from it are pre-state objects
    pre = st.old.alloc.get("pre:Reader") if st.old is not None else None
    st.assume(z3.And(rd.ref > 0, rd.ref < (pre if pre is not None else eng.alloc_bound(st, "Reader"))))
    eng.spec_mode += 1
    try:
        st.assume(eng.load_field(st, rd, "records").len >= 0)
        for f in reader_invariants(eng, st, rd):
            st.assume(f)
    finally:
        eng.spec_mode -= 1
    eng.assumptions.add("pysam model (contracts/pysam_model.py): VariantFile/VariantRecord/VariantRecordSample operations behave as axiomatised there")
    return rd


from vcgen.builtins_model import sorted_fn  # noqa: E402
_SORTED = sorted_fn(OPTINT)


def _arrs(eng, st):
    A = z3.ArraySort
    I, B = z3.IntSort(), z3.BoolSort()
    return dict(
        fmt=eng.heap_arr(st, "Record.fmt#dom", A(I, B)),
        gt=eng.heap_arr(st, "Call.gt#arr", A(I, OPTINT.dt)), gtlen=eng.heap_arr(st, "Call.gt#len", I),
        none=eng.heap_arr(st, "Call.gt_none", B), ph=eng.heap_arr(st, "Call.ph#dom", A(I, B)),
        calls=eng.heap_arr(st, "Record.calls#arr", A(I, I)), ncalls=eng.heap_arr(st, "Record.calls#len", I))


def _keys(eng):
    return {t: eng.key_of(eng.str_const(t)) for t in ("HP", "PQ", "PS", "GT")}


def _call_untouched(a, a0, c):
    return z3.And(a["gt"][c] == a0["gt"][c], a["gtlen"][c] == a0["gtlen"][c], a["none"][c] == a0["none"][c], a["ph"][c] == a0["ph"][c])


def _call_done(a, a0, c):
    """the call's genotype after unphasing, in terms of its genotype on entry"""
    i = z3.Int(fresh_name("i"))
    known = z3.ForAll([i], z3.Implies(z3.And(i >= 0, i < a0["gtlen"][c]), z3.Not(OPTINT.dt.is_none(a0["gt"][c][i]))))
    sortable = z3.And(z3.Not(a0["none"][c]), known)
    return z3.And(
        forall_pat([i], z3.Implies(i >= 1, z3.Not(a["ph"][c][i])), [a["ph"][c][i]]),                       # no phase bit left
        a["gtlen"][c] == a0["gtlen"][c], a["none"][c] == a0["none"][c],
        z3.If(sortable, a["gt"][c] == _SORTED(a0["gt"][c], a0["gtlen"][c]), a["gt"][c] == a0["gt"][c]))



def install(R):
    R.declare_class("Header", {"formats": SET(INT), "info": SET(INT), "hrecs": LIST(REF("HRec"))})
    R.declare_class("HRec", {"key": INT, "removed": BOOL})
    R.declare_class("Reader", {"header": REF("Header"), "records": LIST(REF("Record"))})
    R.declare_class("Writer", {"header": REF("Header"), "written": LIST(REF("Record"))})
    R.declare_class("Record", {"fmt": SET(INT), "calls": LIST(REF("Call")), "frozen": BOOL, "chrom": INT})
    R.declare_class("Call", {"rec": REF("Record"), "gt": LIST(OPTINT), "gt_none": BOOL, "ph": SET(INT), "tag_none": SET(INT), "tag_int": DICT(INT, INT),
                              "tag_list": DICT(INT, INT)})
    R.iter_fields["Reader"] = "records"
    R.object_models.update({"Record": RecordModel, "Header": HeaderModel, "HRec": HRecModel, "Reader": ReaderModel, "Writer": WriterModel, "Call": CallModel})
    R.external_models["VariantFile"] = model_VariantFile
    R.constants["sys"] = SysModule()

    @R.spec
    def tag(eng, st, s):
        return eng.key_of(s)
