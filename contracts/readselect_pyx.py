"""Contracts for whatshap/readselect.pyx (C07): the selection never exceeds the coverage cap and every rejected read is rejected for a reason that
stays true.

Model: cpp.ReadSet* -> CReadSet{reads: list of CRead}, cpp.Read* -> CRead{pos: list of variant positions}; readset.get(i), read.getVariantCount(),
read.getPosition(i) carry index obligations (the C++ methods do not check).  Python sets -> SET(INT), unordered_set[int] -> SET(INT),
vcf_indices -> DICT(INT, INT), variant_to_reads_map (a defaultdict(list)) -> DICT(INT, LIST(INT)) whose keys are required to exist.
The priority queue, the coverage monitor and the component finder are used through the contracts proved in their own contract modules.
WHICH read the queue returns is irrelevant for the properties proved here, so pops use the order-free contract c_pop/any.  The two scoring functions
are verified for what the selection relies on: they return a FRESH C++ vector of three components and write no existing one (so every queued score keeps
the three components `_update_score_for_reads` reads with .at(0..2)), every C++ accessor is called in range, and `_compute_score_for_read` never indexes
its list of covered variants while it is empty; `new priority_type()` is an allocation, `ptr.at/push_back/size` dereference the pointer.
SPAN_B(r), SPAN_E(r) name the half-open index range [begin, end) that read r spans (ghost names fixed by VALID).
"""
import z3
from vcgen.api import *  # noqa
from contracts import priorityqueue_pyx as _PQ, coverage_py as _COV, graph_py as _G

R = Registry("whatshap/readselect.pyx", lang="cython")
R.import_proved(_PQ.R, "contracts.priorityqueue_pyx",
                ["PriorityQueue.c_push", "PriorityQueue.c_pop/any", "PriorityQueue.c_change_score", "PriorityQueue.c_get_score_by_item",
                 "PriorityQueue.c_is_empty", "PriorityQueue.is_empty"])
R.callee_map[("*", "c_pop")] = "PriorityQueue.c_pop/any"
R.import_proved(_COV.R, "contracts.coverage_py", ["CovMonitor.__init__", "CovMonitor.max_coverage_in_range", "CovMonitor.add_read"])
R.import_proved(_G.R, "contracts.graph_py", ["ComponentFinder.__init__", "ComponentFinder.merge", "ComponentFinder.find"])
R.declare_class("CReadSet", {"reads": LIST(REF("CRead"))})
R.declare_class("CRead", {"pos": LIST(INT), "vars": LIST(REF("PyVar")), "source_id": INT})
R.declare_class("PyVar", {"position": INT})
R.iter_fields["CRead"] = "vars"
R.ctypes.update({"Read*": REF("CRead"), "unordered_set[...]": SET(INT), "PriorityQueue": REF("PriorityQueue")})
P = ["C07"]

SPAN_B = z3.Function("SPAN_B", z3.IntSort(), z3.IntSort())
SPAN_E = z3.Function("SPAN_E", z3.IntSort(), z3.IntSort())


@R.spec
def span_b(eng, st, r):
    return SPAN_B(to_z3(r))


@R.spec
def span_e(eng, st, r):
    return SPAN_E(to_z3(r))


class ReadSetModel:
    @staticmethod
    def method(eng, st, obj, name, args, kwargs):
        if name == "get" and len(args) == 1:
            reads = eng.load_field(st, obj, "reads")
            i = to_z3(args[0])
            eng.oblige(st, "noexc", z3.And(i >= 0, i < reads.len), "readset.get-out-of-range")
            return VRef("CRead", reads.arr[i])
        return NotImplemented


class ReadModel:
    @staticmethod
    def method(eng, st, obj, name, args, kwargs):
        pos = eng.load_field(st, obj, "pos")
        if name == "getVariantCount" and not args:
            return pos.len
        if name == "getPosition" and len(args) == 1:
            i = to_z3(args[0])
            eng.oblige(st, "noexc", z3.And(i >= 0, i < pos.len), "read.getPosition-out-of-range")
            return pos.arr[i]
        if name == "getVariantQuality" and len(args) == 1:
            # the quality of the i-th variant: one per variant position (an uninterpreted function of read and index; only ever compared and copied)
            i = to_z3(args[0])
            eng.oblige(st, "noexc", z3.And(i >= 0, i < pos.len), "read.getVariantQuality-out-of-range")
            return QUALITY(obj.ref, i)
        return NotImplemented


QUALITY = z3.Function("READ_QUALITY", z3.IntSort(), z3.IntSort(), z3.IntSort())


def model_new(eng, st, node, args, kwargs):
    """new priority_type(): a fresh, empty C++ vector<int> behind a pointer"""
    obj = eng.allocate(st, "Score")
    eng.store_field(st, obj, "data", VList(INT, z3.K(z3.IntSort(), z3.IntVal(0)), z3.IntVal(0)))
    return obj


R.external_models["__new__"] = model_new
R.object_models.update({"CReadSet": ReadSetModel, "CRead": ReadModel})


def _pq_empty_init(eng, st, obj):
    """a cdef class instance starts with default-constructed C++ members: empty vector, empty map"""
    eng.store_field(st, obj, "heap", VList(_PQ.ENTRY, z3.K(z3.IntSort(), to_z3(_PQ.ENTRY.fresh("dflt"))), z3.IntVal(0)))
    eng.store_field(st, obj, "positions", VDict(INT, INT, z3.K(z3.IntSort(), z3.BoolVal(False)), z3.K(z3.IntSort(), z3.IntVal(0))))


R.ctor_fields["PriorityQueue"] = []
R.ghost_init["PriorityQueue"] = _pq_empty_init


def _reads(eng, st, readset):
    reads = eng.load_field_raw(st, readset, "reads")
    parr = eng.heap_arr(st, "CRead.pos#arr", z3.ArraySort(z3.IntSort(), z3.IntSort()))
    plen = eng.heap_arr(st, "CRead.pos#len", z3.IntSort())
    return reads, parr, plen


@R.spec
def VALID(eng, st, readset, vcf_indices, coverages, v2r):
    """type invariants of the inputs: every read has at least one variant, every variant position has an index inside the coverage array and a
    (possibly empty) entry in the variant->reads map; SPAN_B/SPAN_E name the index range of the read, which is non-empty"""
    reads, parr, plen = _reads(eng, st, readset)
    cov = eng.load_field_raw(st, coverages, "coverage")
    r, i = z3.Ints(fresh_name("r") + " " + fresh_name("i"))
    ref = reads.arr[r]
    idx = lambda p: vcf_indices.map[p]
    return [
        reads.len >= 0, cov.len >= 0,
        z3.ForAll([r], z3.Implies(z3.And(r >= 0, r < reads.len), z3.And(
            ref > 0, ref < eng.alloc_bound(st, "CRead"), plen[ref] >= 1,
            SPAN_B(r) == idx(parr[ref][0]), SPAN_E(r) == idx(parr[ref][plen[ref] - 1]) + 1,
            0 <= SPAN_B(r), SPAN_B(r) < SPAN_E(r), SPAN_E(r) <= cov.len)), patterns=[reads.arr[r], SPAN_B(r), SPAN_E(r)]),
        z3.ForAll([r, i], z3.Implies(z3.And(r >= 0, r < reads.len, i >= 0, i < plen[ref]), z3.And(
            vcf_indices.dom[parr[ref][i]], v2r.dom[idx(parr[ref][i])], z3.Implies(i >= 1, parr[ref][i] != parr[ref][0]))), patterns=[parr[reads.arr[r]][i]]),
    ]


@R.spec
def SCORES3(eng, st, pq):
    """every queued score is an existing C++ vector with (at least) the three components the scoring functions read -- stated over the item -> score
    view (equivalent to the statement over heap indices by POSOK), which is what the queue operations' postconditions speak about"""
    q, d, sc, it = _PQ.H(eng, st, pq)
    ln = eng.heap_arr(st, "Score.data#len", z3.IntSort())
    k, i = z3.Ints(fresh_name("k") + " " + fresh_name("i"))
    good = lambda ref: z3.And(ref > 0, ref < eng.alloc_bound(st, "Score"), ln[ref] >= 3)
    return [forall_pat([k], z3.Implies(d.dom[k], good(sc(d.map[k]))), [d.dom[k]]),
            forall_pat([i], z3.Implies(z3.And(0 <= i, i < q.len), good(sc(i))), [q.arr[i]])]


@R.spec
def ITEMS_VALID(eng, st, pq, readset):
    reads, parr, plen = _reads(eng, st, readset)
    d = eng.load_field_raw(st, pq, "positions")
    k = z3.Int(fresh_name("k"))
    return z3.ForAll([k], z3.Implies(d.dom[k], z3.And(k >= 0, k < reads.len)), patterns=[d.dom[k]])


@R.spec
def CAP(eng, st, coverages, max_cov):
    cov = eng.load_field_raw(st, coverages, "coverage")
    k = z3.Int(fresh_name("k"))
    return z3.ForAll([k], z3.Implies(z3.And(k >= 0, k < cov.len), cov.arr[k] <= to_z3(max_cov)), patterns=[cov.arr[k]])


@R.spec
def SATURATED(eng, st, coverages, max_cov, r):
    """some variant that read r spans is already covered max_cov times: adding r would exceed the cap"""
    cov = eng.load_field_raw(st, coverages, "coverage")
    k = z3.Int(fresh_name("k"))
    r = to_z3(r)
    return z3.Exists([k], z3.And(SPAN_B(r) <= k, k < SPAN_E(r), cov.arr[k] >= to_z3(max_cov)))


@R.spec
def MONOTONE(eng, st, coverages):
    cov = eng.load_field_raw(st, coverages, "coverage")
    cov0 = eng.load_field_raw(st.old, st.old.env["coverages"], "coverage")
    k = z3.Int(fresh_name("k"))
    return [cov.len == cov0.len, z3.ForAll([k], z3.Implies(z3.And(k >= 0, k < cov.len), cov.arr[k] >= cov0.arr[k]), patterns=[cov.arr[k], cov0.arr[k]])]


CNT_F = z3.Function("SPANCOUNT", z3.ArraySort(z3.IntSort(), z3.BoolSort()), z3.IntSort(), z3.IntSort())


@R.spec
def CNT(eng, st, s, k):
    """number of reads in the set s whose span contains index k (ghost; defined by COUNTING below)"""
    return CNT_F(s.dom, to_z3(k))


@R.spec
def COUNTING(eng, st):
    """definition of SPANCOUNT by insertion: empty set counts 0; inserting a new read adds one exactly on its span"""
    S = z3.Const(fresh_name("S"), z3.ArraySort(z3.IntSort(), z3.BoolSort()))
    r, k = z3.Ints(fresh_name("r") + " " + fresh_name("k"))
    return [z3.ForAll([k], CNT_F(z3.K(z3.IntSort(), z3.BoolVal(False)), k) == 0),
            z3.ForAll([S, r, k], z3.Implies(z3.Not(S[r]), CNT_F(z3.Store(S, r, True), k) == CNT_F(S, k) + z3.If(z3.And(SPAN_B(r) <= k, k < SPAN_E(r)), 1, 0)),
                      patterns=[CNT_F(z3.Store(S, r, True), k)])]


_COUNTED = "forall(k, implies(0 <= k and k < len(coverages.coverage), coverages.coverage[k] == old(coverages.coverage[k]) + CNT(%s, k)), triggers=[coverages.coverage[k]])"

WFQ = [("swo", "SWO()"), ("pos", "POSOK(pq)"), ("order", "ORDER(pq)"),
       ("scores-valid", "SCORES3(pq)")]
INPUTS = [("valid", "VALID(readset, vcf_indices, coverages, variant_to_reads_map)"), ("cap", "CAP(coverages, max_cov)")]
SLICE_INV = [
    ("items-shrink", "forall(k, implies(k in pq.positions, old(k in pq.positions)))"),
    ("items-valid", "ITEMS_VALID(pq, readset)"),
    ("decided-left-the-queue", "forall(k, implies(k in reads_in_slice or k in reads_violating_coverage, old(k in pq.positions) and k not in pq.positions))"),
    ("disjoint", "forall(k, not (k in reads_in_slice and k in reads_violating_coverage))"),
    ("cap", "CAP(coverages, max_cov)"),
    ("monotone", "MONOTONE(coverages)"),
    ("rejected-are-saturated", "forall(k, implies(k in reads_violating_coverage, SATURATED(coverages, max_cov, k)))"),
    ("coverage-counts-the-slice", _COUNTED % "reads_in_slice"),
]
_QMOD = ["PriorityQueue.heap", "PriorityQueue.positions"]

@R.spec
def READS_OK(eng, st, readset, vcf_indices):
    """the part of VALID the scoring functions rely on: every read exists, has at least one variant, and every variant position has an index"""
    reads, parr, plen = _reads(eng, st, readset)
    r, i = z3.Ints(fresh_name("r") + " " + fresh_name("i"))
    ref = reads.arr[r]
    return [z3.ForAll([r], z3.Implies(z3.And(r >= 0, r < reads.len), z3.And(ref > 0, ref < eng.alloc_bound(st, "CRead"), plen[ref] >= 1)), patterns=[reads.arr[r]]),
            z3.ForAll([r, i], z3.Implies(z3.And(r >= 0, r < reads.len, i >= 0, i < plen[ref]), vcf_indices.dom[parr[ref][i]]), patterns=[parr[reads.arr[r]][i]])]


@R.spec
def EXISTING_SCORES_SAME(eng, st):
    """frame: the only Score object written is the freshly allocated result"""
    n = z3.Int(fresh_name("n"))
    A = z3.ArraySort(z3.IntSort(), z3.IntSort())
    arr = lambda s_: eng.heap_arr(s_, "Score.data#arr", A)
    ln = lambda s_: eng.heap_arr(s_, "Score.data#len", z3.IntSort())
    return forall_pat([n], z3.Implies(z3.And(n > 0, n < st.old.alloc["pre:Score"]), z3.And(arr(st)[n] == arr(st.old)[n], ln(st)[n] == ln(st.old)[n])),
                      [arr(st)[n], ln(st)[n]])


_SCORE3 = ("a-fresh-score-of-three-components", "result is not None and len(result.data) == 3 and fresh_score(result) and EXISTING_SCORES_SAME()")


@R.spec
def fresh_score(eng, st, s_):
    return z3.And(to_z3(s_) >= st.old.alloc["pre:Score"], to_z3(s_) < eng.alloc_bound(st, "Score"))
R.contract("_update_score_for_reads",
           params={"former_score": REF("Score"), "readset": REF("CReadSet"), "index": INT, "already_covered_variants": SET(INT)}, returns=REF("Score"),
           requires=[("score", "former_score is not None and len(former_score.data) >= 3"), ("index", "0 <= index and index < len(readset.reads)"),
                     ("read", "readset.reads[index] is not None")],
           ensures=[_SCORE3,
                    ("second-and-third-component-kept", "result.data[1] == former_score.data[1] and result.data[2] == former_score.data[2]"),
                    ("first-component-does-not-grow", "result.data[0] <= former_score.data[0]")],
           modifies=["Score.data"], extra={"allocates": ["Score"]},
           locals={"read": REF("CRead"), "first_score": INT, "second_score": INT, "quality": INT},
           loops={0: dict(index="ui", inv=[("decreasing", "first_score <= former_score.data[0]")])},
           props=P)
R.contract("_compute_score_for_read",
           params={"readset": REF("CReadSet"), "index": INT, "vcf_indices": DICT(INT, INT)}, returns=REF("Score"),
           requires=[("index", "0 <= index and index < len(readset.reads)"), ("reads", "READS_OK(readset, vcf_indices)")],
           ensures=[_SCORE3,
                    ("first-two-components-equal", "result.data[0] == result.data[1]")],
           modifies=["Score.data"], extra={"allocates": ["Score"]},
           locals={"read": REF("CRead"), "min_quality": INT, "good_score": INT, "bad_score": INT, "quality": INT, "pos": INT, "covered_variants": LIST(INT),
                   "variant_covered": OPT(INT)},
           loops={0: dict(index="ci", inv=[("every-variant-so-far-is-indexed", "len(covered_variants) == ci and good_score == ci")])},
           props=P)

R.contract(
    "_slice_read_selection",
    params={"pq": REF("PriorityQueue"), "coverages": REF("CovMonitor"), "max_cov": INT, "readset": REF("CReadSet"), "vcf_indices": DICT(INT, INT),
            "variant_to_reads_map": DICT(INT, LIST(INT))},
    returns=TUPLE(SET(INT), SET(INT)),
    requires=WFQ + INPUTS + [("items-valid", "ITEMS_VALID(pq, readset)")],
    ensures=[
        ("selected-and-rejected-come-from-the-queue", "forall(k, implies(k in result[0] or k in result[1], old(k in pq.positions)))"),
        ("disjoint", "forall(k, not (k in result[0] and k in result[1]))"),
        ("cap-kept", "CAP(coverages, max_cov)"),
        ("coverage-only-grows", "MONOTONE(coverages)"),
        ("rejected-are-saturated", "forall(k, implies(k in result[1], SATURATED(coverages, max_cov, k)))"),
        ("queue-drained", "len(pq.heap) == 0"),
        ("coverage-grows-by-the-spans-of-the-selected-reads", _COUNTED % "result[0]"),
    ],
    modifies=_QMOD + ["CovMonitor.coverage"],
    locals={"already_covered_variants": SET(INT), "reads_in_slice": SET(INT), "reads_violating_coverage": SET(INT), "extracted_read": REF("CRead"),
            "reads_whose_score_has_to_be_updated": SET(INT), "covers_new_variant": BOOL},
    loops={
        0: dict(inv=WFQ + SLICE_INV),
        1: dict(index="i", inv=[("new-variants-indexed", "forall(p, implies(p in variants_covered_by_this_read, p in vcf_indices and vcf_indices[p] in variant_to_reads_map))")]),
        2: dict(index="vi", inv=[]),
        3: dict(index="ei", inv=WFQ + [("items-same", "forall(k, (k in pq.positions) == entry(k in pq.positions))"), ("items-valid", "ITEMS_VALID(pq, readset)")]),
    },
    extra={"assume": ["COUNTING()"]},
    props=P)


# ---------------------------------------------------------------------------------------------------------------------------------
R.contract(
    "_construct_priorityqueue", params={"readset": REF("CReadSet"), "read_indices": SET(INT), "vcf_indices": DICT(INT, INT)}, returns=REF("PriorityQueue"),
    requires=[("swo", "SWO()"), ("indices-valid", "forall(k, implies(k in read_indices, 0 <= k and k < len(readset.reads)))"), ("reads", "READS_OK(readset, vcf_indices)")],
    ensures=[("fresh", "result is not None and fresh_pq(result)"), ("swo", "SWO()"), ("pos", "POSOK(result)"), ("order", "ORDER(result)"),
             ("scores-valid", "SCORES3(result)"),
             ("items-are-the-given-reads", "forall(k, (k in result.positions) == (k in read_indices))")],
    modifies=_QMOD, extra={"allocates": ["PriorityQueue"]},
    locals={"priorityqueue": REF("PriorityQueue")},
    loops={0: dict(index="qi", inv=[("swo", "SWO()"), ("fresh", "priorityqueue is not None and fresh_pq(priorityqueue)"), ("pos", "POSOK(priorityqueue)"), ("order", "ORDER(priorityqueue)"),
                                    ("scores-valid", "SCORES3(priorityqueue)"),
                                    ("items", "forall(k, (k in priorityqueue.positions) == visited(0, k))")])},
    props=P)


@R.spec
def fresh_pq(eng, st, q):
    return z3.And(to_z3(q) >= st.old.alloc["pre:PriorityQueue"], to_z3(q) < eng.alloc_bound(st, "PriorityQueue"))


R.contract("PriorityQueue.pop", assumed=True, params={"self": REF("PriorityQueue")}, returns=TUPLE(INT, INT),
           requires=[("swo", "SWO()"), ("pos", "POSOK(self)"), ("order", "ORDER(self)"),
                     ("scores-valid", "SCORES3(self)"),
                     ("non-empty", "len(self.heap) > 0")],
           ensures=[("pos", "POSOK(self)"), ("order", "ORDER(self)"), ("returns-queued-item", "old(result[1] in self.positions)"), ("view", "VIEW_REMOVED(self, result[1])"),
                    ("scores-valid", "SCORES3(self)")],
           modifies=_QMOD, props=P)


@R.spec
def ADDITIVE(eng, st):
    """SPANCOUNT of a disjoint union is the sum: used as a lemma; base and step of its induction over the finite set are discharged as the lemma group
    L#spancount-of-a-disjoint-union-is-the-sum at the end of this file"""
    A = z3.ArraySort(z3.IntSort(), z3.BoolSort())
    a, b, c = z3.Const(fresh_name("A"), A), z3.Const(fresh_name("B"), A), z3.Const(fresh_name("C"), A)
    r, k = z3.Ints(fresh_name("r") + " " + fresh_name("k"))
    return z3.ForAll([a, b, c, k], z3.Implies(z3.And(z3.ForAll([r], c[r] == z3.Or(a[r], b[r])), z3.ForAll([r], z3.Not(z3.And(a[r], b[r])))),
                                              CNT_F(c, k) == CNT_F(a, k) + CNT_F(b, k)),
                     patterns=[z3.MultiPattern(CNT_F(c, k), CNT_F(a, k), CNT_F(b, k))])


def additive_fact(eng, st):
    return ADDITIVE(eng, st)


additive_fact.__name__ = "lemma group readselect.pyx:L#spancount-of-a-disjoint-union-is-the-sum"

_H = [
    ("cap", "CAP(coverages, max_cov)"),
    ("monotone", "MONOTONE(coverages)"),
    ("selected-and-undecided-disjoint", "forall(k, not (k in selected_reads and k in undecided_reads))"),
    ("undecided-valid", "forall(k, implies(k in undecided_reads, 0 <= k and k < len(readset.reads)))"),
    ("selected-grows", "forall(k, implies(old(k in selected_reads), k in selected_reads))"),
    ("selected-come-from-undecided", "forall(k, implies(k in selected_reads, old(k in selected_reads) or old(k in undecided_reads)))"),
    ("undecided-shrinks", "forall(k, implies(k in undecided_reads, old(k in undecided_reads)))"),
    ("left-out-reads-are-saturated", "forall(k, implies(old(k in undecided_reads), k in selected_reads or k in undecided_reads or SATURATED(coverages, max_cov, k)))"),
    ("coverage-counts-the-selection", "forall(k, implies(0 <= k and k < len(coverages.coverage), "
                                      "coverages.coverage[k] - CNT(selected_reads, k) == old(coverages.coverage[k]) - old(CNT(selected_reads, k))), triggers=[coverages.coverage[k]])"),
]
_CF = [("cf-wf", "WF(component_finder)"), ("cf-nodes", "forall(v, (v in component_finder.nodes) == exists(j, 0 <= j and j < len(positions) and positions[j] == v))")]
_HQ = [("swo", "SWO()"), ("pos", "POSOK(pq)"), ("order", "ORDER(pq)"),
       ("scores-valid", "SCORES3(pq)"),
       ("queued-are-undecided", "forall(k, implies(k in pq.positions, k in undecided_reads))")]

R.contract(
    "readselection_helper",
    params={"coverages": REF("CovMonitor"), "max_cov": INT, "readset": REF("CReadSet"), "vcf_indices": DICT(INT, INT), "variant_to_reads_map": DICT(INT, LIST(INT)),
            "selected_reads": SET(INT), "undecided_reads": SET(INT), "positions": LIST(INT), "bridging": BOOL},
    returns=SET(INT), mutates=["selected_reads", "undecided_reads"],
    requires=[("swo", "SWO()")] + INPUTS + [
        ("selected-and-undecided-disjoint", "forall(k, not (k in selected_reads and k in undecided_reads))"),
        ("undecided-valid", "forall(k, implies(k in undecided_reads, 0 <= k and k < len(readset.reads)))"),
        ("positions-listed", "forall(r, i, implies(0 <= r and r < len(readset.reads) and 0 <= i and i < len(readset.reads[r].pos), "
                             "exists(j, 0 <= j and j < len(positions) and positions[j] == readset.reads[r].pos[i])))"),
    ],
    ensures=[
        ("returns-the-selection", "forall(k, (k in result) == (k in new_selected_reads))"),
        ("cap-kept", "CAP(coverages, max_cov)"),
        ("earlier-selection-kept", "forall(k, implies(old(k in selected_reads), k in result))"),
        ("selected-are-input-reads", "forall(k, implies(k in result, old(k in selected_reads) or old(k in undecided_reads)))"),
        ("maximal", "forall(k, implies(old(k in undecided_reads), k in result or SATURATED(coverages, max_cov, k)))"),
        ("no-read-left-undecided", "forall(k, k not in new_undecided_reads)"),
        ("coverage-counts-the-selection", "forall(k, implies(0 <= k and k < len(coverages.coverage), "
                                          "coverages.coverage[k] - CNT(result, k) == old(coverages.coverage[k]) - old(CNT(selected_reads, k))))"),
        ("coverage-only-grows", "MONOTONE(coverages)"),
    ],
    modifies=_QMOD + ["CovMonitor.coverage", "ComponentFinder.nodes", "Node.value", "Node.parent"],
    locals={"pq": REF("PriorityQueue"), "read": REF("CRead"), "reads_in_slice": SET(INT), "reads_violating_coverage": SET(INT), "bridging_reads": SET(INT),
            "covered_blocks": SET(INT), "component_finder": REF("ComponentFinder"), "score": INT, "read_index": INT},
    loops={
        0: dict(inv=_H, allocates=["PriorityQueue", "ComponentFinder", "Node"]),
        1: dict(index="si", inv=_CF),
        2: dict(index="mi", inv=_CF),
        3: dict(inv=_H + _HQ + _CF),
        4: dict(index="bi", inv=_CF),
        5: dict(index="ci", inv=_CF),
    },
    extra={"assume": ["COUNTING()"], "uses_lemmas": [additive_fact], "allocates": ["PriorityQueue", "ComponentFinder", "Node"]},
    props=P)


# ---------------------------------------------------------------------------------------------------------------------------------
# readselection: the statement of C07 for the public entry point.
R.declare_class("PyReadSet", {"thisptr": REF("CReadSet")})
R.iter_fields["PyReadSet"] = "__reads__"
INDEXES = TUPLE(LIST(INT), DICT(INT, INT), DICT(INT, LIST(INT)), SET(INT))


GETPOS_ARR = z3.Function("READSET_POSITIONS", z3.IntSort(), z3.ArraySort(z3.IntSort(), z3.IntSort()))
GETPOS_LEN = z3.Function("READSET_NPOSITIONS", z3.IntSort(), z3.IntSort())


class V2R(VModel):
    """variant_to_reads_map = defaultdict(list): variant index -> list of read indices (a missing index reads as the empty list)"""

    def __init__(self, d=None):
        self.d = d if d is not None else VDict(INT, LIST(INT), z3.K(z3.IntSort(), z3.BoolVal(False)), z3.K(z3.IntSort(), to_z3(VList(INT, z3.K(z3.IntSort(), z3.IntVal(0)), z3.IntVal(0)))))

    def sym_getitem(self, eng, st, key):
        k = to_z3(key)
        lst = from_z3(self.d.map[k], self.d.val)
        return VList(INT, lst.arr, z3.If(self.d.dom[k], lst.len, 0))

    def sym_setitem(self, eng, st, key, v):
        k = to_z3(key)
        return V2R(VDict(INT, LIST(INT), z3.Store(self.d.dom, k, True), z3.Store(self.d.map, k, to_z3(v))))

    def sym_contains(self, eng, st, x):
        return self.d.dom[to_z3(x)]

    def as_value(self):
        return self.d

    def havoc(self, eng, st, name):
        return V2R(DICT(INT, LIST(INT)).fresh(name))


R.external_models["defaultdict"] = lambda eng, st, node, args, kwargs: V2R()
R.constants["list"] = z3.IntVal(0)


class PyReadSetModel:
    @staticmethod
    def method(eng, st, obj, name, args, kwargs):
        if name == "get_positions" and not args:
            # C++ ReadSet::get_positions: the strictly increasing list of all variant positions of all reads (assumed, see POSITIONS_OK)
            eng.assumptions.add("ReadSet.get_positions (C++) returns the strictly increasing list of exactly the variant positions of the reads (assumed)")
            n = GETPOS_LEN(obj.ref)
            st.assume(n >= 0)
            return VList(INT, GETPOS_ARR(obj.ref), n)
        return NotImplemented

    @staticmethod
    def len(eng, st, obj):
        return eng.load_field(st, VRef("CReadSet", to_z3(eng.load_field(st, obj, "thisptr"))), "reads").len

    @staticmethod
    def getattr(eng, st, obj, name):
        if name == "__reads__":      # iteration yields the wrapped reads in index order
            return eng.load_field(st, VRef("CReadSet", to_z3(eng.load_field(st, obj, "thisptr"))), "reads")
        return NotImplemented


class PyReadLen:
    @staticmethod
    def len(eng, st, obj):
        return eng.load_field(st, obj, "pos").len


R.object_models["PyReadSet"] = PyReadSetModel
ReadModel.len = PyReadLen.len


@R.spec
def INDEXED(eng, st, rs, positions, vcf_indices, v2r):
    """what _construct_indexes returns: positions lists every variant position of every read, vcf_indices maps each of them to its index in positions, the
    variant -> reads map has an entry for each such index, positions within a read differ from its first one and the index of the first does not exceed the
    index of the last -- PROVED as the postcondition of _construct_indexes; SPAN_B/SPAN_E are the NAMES of [index of first, index of last + 1) (ghost
    definitions attached to that call)"""
    reads, parr, plen = _reads(eng, st, rs)
    if isinstance(v2r, VModel):
        v2r = v2r.as_value()
    r, i, j = z3.Ints(fresh_name("r") + " " + fresh_name("i") + " " + fresh_name("j"))
    ref = reads.arr[r]
    idx = lambda p: vcf_indices.map[p]
    return [
        positions.len >= 0,
        z3.ForAll([r], z3.Implies(z3.And(r >= 0, r < reads.len, plen[ref] >= 1), z3.And(
            0 <= idx(parr[ref][0]), idx(parr[ref][0]) < idx(parr[ref][plen[ref] - 1]) + 1, idx(parr[ref][plen[ref] - 1]) + 1 <= positions.len)),
            patterns=[reads.arr[r]]),
        z3.ForAll([r, i], z3.Implies(z3.And(r >= 0, r < reads.len, i >= 0, i < plen[ref]), z3.And(
            vcf_indices.dom[parr[ref][i]], v2r.dom[idx(parr[ref][i])], z3.Implies(i >= 1, parr[ref][i] != parr[ref][0]),
            z3.Exists([j], z3.And(j >= 0, j < positions.len, positions.arr[j] == parr[ref][i])))), patterns=[parr[reads.arr[r]][i]]),
    ]


@R.spec
def SPANS_NAMED(eng, st, rs, vcf_indices):
    """ghost definition: SPAN_B(r) / SPAN_E(r) name the index range [index of read r's first variant, index of its last variant + 1)"""
    reads, parr, plen = _reads(eng, st, rs)
    r = z3.Int(fresh_name("r"))
    ref = reads.arr[r]
    idx = lambda p: vcf_indices.map[p]
    return z3.ForAll([r], z3.Implies(z3.And(r >= 0, r < reads.len, plen[ref] >= 1), z3.And(SPAN_B(r) == idx(parr[ref][0]), SPAN_E(r) == idx(parr[ref][plen[ref] - 1]) + 1)),
                     patterns=[reads.arr[r], SPAN_B(r), SPAN_E(r)])


@R.spec
def READSET_OK(eng, st, prs):
    """type invariants of the Python-level read set (assumed of the C++ ReadSet after ReadSet.sort()): every read is an object whose variant wrappers mirror its
    position list, positions within a read strictly increase, and get_positions() is the strictly increasing list covering every variant position"""
    rs = VRef("CReadSet", to_z3(eng.load_field_raw(st, prs, "thisptr")))
    reads, parr, plen = _reads(eng, st, rs)
    varr = eng.heap_arr(st, "CRead.vars#arr", z3.ArraySort(z3.IntSort(), z3.IntSort()))
    vlen = eng.heap_arr(st, "CRead.vars#len", z3.IntSort())
    vpos = eng.heap_arr(st, "PyVar.position", z3.IntSort())
    r, i, j, a, b = z3.Ints(" ".join(fresh_name(x) for x in "rijab"))
    ref = reads.arr[r]
    P, N = GETPOS_ARR(to_z3(prs)), GETPOS_LEN(to_z3(prs))
    inr = z3.And(r >= 0, r < reads.len)
    return [
        z3.ForAll([r], z3.Implies(inr, z3.And(ref > 0, ref < eng.alloc_bound(st, "CRead"), vlen[ref] == plen[ref], plen[ref] >= 0)), patterns=[reads.arr[r]]),
        z3.ForAll([r, i], z3.Implies(z3.And(inr, i >= 0, i < plen[ref]), z3.And(varr[ref][i] > 0, varr[ref][i] < eng.alloc_bound(st, "PyVar"), vpos[varr[ref][i]] == parr[ref][i])),
                  patterns=[varr[reads.arr[r]][i]]),
        z3.ForAll([r, i, j], z3.Implies(z3.And(inr, 0 <= i, i < j, j < plen[ref]), parr[ref][i] < parr[ref][j]), patterns=[z3.MultiPattern(parr[reads.arr[r]][i], parr[reads.arr[r]][j])]),
        z3.ForAll([a, b], z3.Implies(z3.And(0 <= a, a < b, b < N), P[a] < P[b]), patterns=[z3.MultiPattern(P[a], P[b])]),
        z3.ForAll([r, i], z3.Implies(z3.And(inr, i >= 0, i < plen[ref]), z3.And(POSIDX(to_z3(prs), parr[ref][i]) >= 0, POSIDX(to_z3(prs), parr[ref][i]) < N,
                                                                                 P[POSIDX(to_z3(prs), parr[ref][i])] == parr[ref][i])), patterns=[parr[reads.arr[r]][i]]),
    ]


POSIDX = z3.Function("READSET_INDEX_OF_POSITION", z3.IntSort(), z3.IntSort(), z3.IntSort())
_RS = "readset.thisptr"
_NR = "len(readset.thisptr.reads)"
R.contract(
    "_construct_indexes", params={"readset": REF("PyReadSet"), "preferred_source_ids": MAYBE(SET(INT))}, returns=INDEXES,
    requires=[("readset", "readset.thisptr is not None"), ("read-set-invariants", "READSET_OK(readset)")],
    ensures=[("indexed", "INDEXED(readset.thisptr, result[0], result[1], result[2])"),
             ("preferred-are-reads", "forall(k, implies(k in result[3], 0 <= k and k < " + _NR + "))")],
    locals={"__comp0": DICT(INT, INT), "vcf_indices": DICT(INT, INT), "preferred_reads": SET(INT), "index": INT, "variant_index": INT,
            "read": REF("CRead"), "variant": REF("PyVar")},
    loops={
        0: dict(index="pi", inv=[("indexed", "forall(j, implies(0 <= j and j < pi, positions[j] in __comp0 and __comp0[positions[j]] == j))"),
                                 ("only-positions", "forall(p, implies(p in __comp0, 0 <= __comp0[p] and __comp0[p] < pi and positions[__comp0[p]] == p))")]),
        1: dict(index="ri", inv=[("preferred", "forall(k, implies(k in preferred_reads, 0 <= k and k < ri))"),
                                 ("entries", "forall(r, i, implies(0 <= r and r < ri and 0 <= i and i < len(" + _RS + ".reads[r].pos), vcf_indices[" + _RS + ".reads[r].pos[i]] in variant_to_reads_map))")]),
        2: dict(index="vi", inv=[("preferred", "forall(k, implies(k in preferred_reads, 0 <= k and k <= ri))"),
                                 ("entries", "forall(r, i, implies(0 <= r and r < ri and 0 <= i and i < len(" + _RS + ".reads[r].pos), vcf_indices[" + _RS + ".reads[r].pos[i]] in variant_to_reads_map))"),
                                 ("this-read", "read is " + _RS + ".reads[ri] and index == ri and forall(i, implies(0 <= i and i < vi, vcf_indices[read.pos[i]] in variant_to_reads_map))")]),
    },
    extra={"desugar_comprehensions": True,
           "ghost_definitions": [("SPAN_B/SPAN_E name the index range of each read", "SPANS_NAMED(readset.thisptr, result[1])")]},
    props=P)


@R.spec
def READS_TYPED(eng, st, rs):
    """the read set's entries are (non-null) read objects"""
    reads, parr, plen = _reads(eng, st, rs)
    r = z3.Int(fresh_name("r"))
    return z3.ForAll([r], z3.Implies(z3.And(r >= 0, r < reads.len), z3.And(reads.arr[r] > 0, reads.arr[r] < eng.alloc_bound(st, "CRead"))), patterns=[reads.arr[r]])


_N = "len(pyreadset.thisptr.reads)"
R.contract(
    "readselection", params={"pyreadset": REF("PyReadSet"), "max_cov": INT, "preferred_source_ids": MAYBE(SET(INT)), "bridging": BOOL}, returns=SET(INT),
    requires=[("swo", "SWO()"), ("cap-non-negative", "max_cov >= 0"), ("readset", "pyreadset.thisptr is not None"),
              ("reads-valid", "READS_TYPED(pyreadset.thisptr)"), ("read-set-invariants", "READSET_OK(pyreadset)")],
    raises={"ValueError": "exists(r, 0 <= r and r < " + _N + " and len(pyreadset.thisptr.reads[r].pos) < 2)"},
    ensures=[
        ("selected-are-input-reads", "forall(k, implies(k in result, 0 <= k and k < " + _N + "))"),
        ("no-variant-spanned-more-than-cap-times", "forall(k, implies(0 <= k and k < len(positions), CNT(result, k) <= max_cov))"),
        ("maximal", "forall(r, implies(0 <= r and r < " + _N + " and r not in result, exists(k, span_b(r) <= k and k < span_e(r) and CNT(result, k) >= max_cov)))"),
    ],
    modifies=_QMOD + ["CovMonitor.coverage", "ComponentFinder.nodes", "Node.value", "Node.parent"],
    locals={"readset": REF("CReadSet"), "selected_reads": SET(INT), "undecided_reads": SET(INT)},
    loops={0: dict(index="ri", inv=[("all-reads-so-far-cover-two-variants", "forall(r, implies(0 <= r and r < ri, len(pyreadset.thisptr.reads[r].pos) >= 2))")])},
    extra={"assume": ["COUNTING()"], "uses_lemmas": [additive_fact], "allocates": ["PriorityQueue", "ComponentFinder", "Node", "CovMonitor"], "assume_asserts": [0]},
    props=P)


def canary_strict_cap():
    import copy
    c = copy.copy(R.contracts["readselection"])
    c.ensures = [("wrong", "forall(k, implies(0 <= k and k < len(positions), CNT(result, k) < max_cov))")]      # "the cap is never reached"
    return c


def canary_slice_rejects_nothing():
    import copy
    c = copy.copy(R.contracts["_slice_read_selection"])
    c.ensures = [("wrong", "forall(k, k not in result[1])")]      # "no read is ever rejected"
    return c


R.canaries.append(("readselect.pyx:canary#cap-never-reached", canary_strict_cap))
R.canaries.append(("readselect.pyx:canary#slice-rejects-nothing", canary_slice_rejects_nothing))


# ---------------------------------------------------------------------------------------------------------------------------------
# ADDITIVE as a lemma: SPANCOUNT(a ∪ b, k) == SPANCOUNT(a, k) + SPANCOUNT(b, k) for disjoint a, b follows from the two defining (insertion) axioms by
# induction on the finite set b: base b = {} and step b -> b ∪ {r} (r in neither set) are discharged here; the induction principle over finite sets is
# meta-level, like for the other lemma groups ("sets are finite" is the engine's standing assumption about Python sets).
def lemma_spancount_additive():
    A = z3.ArraySort(z3.IntSort(), z3.BoolSort())
    a, b, c, c2 = z3.Consts("lem_a lem_b lem_c lem_c2", A)
    S = z3.Const("lem_S", A)
    r, k, x = z3.Ints("lem_r lem_k lem_x")
    empty = z3.K(z3.IntSort(), z3.BoolVal(False))
    counting = [z3.ForAll([k], CNT_F(empty, k) == 0),
                z3.ForAll([S, x, k], z3.Implies(z3.Not(S[x]), CNT_F(z3.Store(S, x, True), k) == CNT_F(S, k) + z3.If(z3.And(SPAN_B(x) <= k, k < SPAN_E(x)), 1, 0)),
                          patterns=[CNT_F(z3.Store(S, x, True), k)])]
    union = lambda u, p, q: z3.ForAll([x], u[x] == z3.Or(p[x], q[x]))
    disjoint = lambda p, q: z3.ForAll([x], z3.Not(z3.And(p[x], q[x])))
    additive = lambda u, p, q: z3.ForAll([k], CNT_F(u, k) == CNT_F(p, k) + CNT_F(q, k))
    b2 = z3.Store(b, r, True)
    goals = {
        "base-empty-set": z3.Implies(union(c, a, empty), additive(c, a, empty)),
        "step-one-more-read": z3.Implies(z3.And(union(c, a, b), disjoint(a, b), additive(c, a, b), z3.Not(a[r]), z3.Not(b[r]), union(c2, a, b2)), additive(c2, a, b2)),
    }
    return counting, goals


R.lemmas.append(("readselect.pyx:L#spancount-of-a-disjoint-union-is-the-sum", P, lemma_spancount_additive))
