"""Loop-body contract for the single pass of whatshap/cli/split.py:run_split (C14).

Unit under verification: loop 0 of run_split (`for read_name, read_length, record in input_iterator(input_reader)`), with its free variables as
parameters.  `records` is the sequence the input iterator yields (ghost name); writers are objects holding the sequence of records written so far;
the name -> haplotype map is a defaultdict(int) (absent names read as 0); the per-output length histograms are Counters (absent lengths read as 0);
`read_counter` (statistics that are only logged) is not modelled.

Ghost vocabulary, fixed functions of the whole input (defined by the axioms in DEFS, which hold for the counting functions of any finite sequence):
  GOES(k, h)      record k belongs to output h according to the statement of C14 (see _goes)
  NGO(h, k)       number of records j < k with GOES(j, h);  SRC(h, c) = the index of the c-th such record
  NGOL(h, L, k)   number of records j < k with GOES(j, h) and length L
Invariant: for every REQUESTED output h, writer h holds exactly records SRC(h, 0..NGO(h, i)-1) in that order, and its histogram counts NGOL.
The histogram clause is the statement's "histogram counts equal the number of reads written per output"; on the --add-untagged path it fails on the
real code (known finding F7b: untagged reads copied to the haplotype outputs are counted only in the untagged column)."""
import z3
from vcgen.api import *  # noqa

R = Registry("whatshap/cli/split.py")
R.declare_class("OutWriter", {"written": LIST(INT)})
R.declare_class("Hist", {"counts": DICT(INT, INT)})
REC = TUPLE(INT, INT, INT)      # (read name id, read length, record id)
P = ["C14"]


class WriterModel:
    @staticmethod
    def method(eng, st, obj, name, args, kwargs):
        if name == "write" and len(args) == 1:
            w = eng.load_field(st, obj, "written")
            eng.store_field(st, obj, "written", eng.list_append(w, to_z3(args[0])))
            return NONE
        return NotImplemented


class HistModel:
    """collections.Counter: a missing key reads as 0"""

    @staticmethod
    def getitem(eng, st, obj, key):
        c = eng.load_field(st, obj, "counts")
        k = to_z3(key)
        return z3.If(c.dom[k], c.map[k], 0)

    @staticmethod
    def setitem(eng, st, obj, key, v):
        c = eng.load_field(st, obj, "counts")
        k = to_z3(key)
        eng.store_field(st, obj, "counts", VDict(INT, INT, z3.Store(c.dom, k, True), z3.Store(c.map, k, to_z3(v))))
        return True


R.object_models.update({"OutWriter": WriterModel, "Hist": HistModel})


class IterFn(VModel):
    """input_iterator(input_reader): yields (name, length, record) for every record of the input, in input order = the ghost sequence `records`"""

    def sym_call(self, eng, st, args, kwargs):
        return st.env["records"]

    def havoc(self, eng, st, name):
        return self


class Opaque(VModel):
    """an object the loop only passes around"""

    def havoc(self, eng, st, name):
        return self


class LoggedCounter(VModel):
    """read_counter: statistics that are only logged after the loop; not modelled (reads give an arbitrary integer, writes are dropped)"""

    def sym_getitem(self, eng, st, key):
        return z3.Int(fresh_name("stat"))

    def sym_setitem(self, eng, st, key, v):
        return None

    def havoc(self, eng, st, name):
        return self


class DefaultDictInt(VModel):
    """readname_to_haplotype: defaultdict(int) -- absent names read as 0 (the insertion a lookup performs is unobservable here)"""

    def __init__(self):
        self.d = DICT(INT, INT).fresh("readname_to_haplotype")

    def sym_getitem(self, eng, st, key):
        k = to_z3(key)
        return z3.If(self.d.dom[k], self.d.map[k], 0)

    def havoc(self, eng, st, name):
        return self


_R2H = DefaultDictInt()
GOES = z3.Function("GOES", z3.IntSort(), z3.IntSort(), z3.BoolSort())
NGO = z3.Function("NGO", z3.IntSort(), z3.IntSort(), z3.IntSort())
SRC = z3.Function("SRC", z3.IntSort(), z3.IntSort(), z3.IntSort())
NGOL = z3.Function("NGOL", z3.IntSort(), z3.IntSort(), z3.IntSort(), z3.IntSort())


def _rec(st, k):
    recs = st.env["records"]
    e = recs.arr[k]
    dt = REC.dt
    return dt.accessor(0, 0)(e), dt.accessor(0, 1)(e), dt.accessor(0, 2)(e)


def _goes(st, k, h):
    """the statement of C14: a read goes to the output of the haplotype the list assigns to it; untagged/unlisted reads (haplotype 0) go to the untagged
    output, and additionally to every haplotype output with --add-untagged; nowhere if --discard-unknown-reads and the read is not in the list"""
    name, length, rec = _rec(st, k)
    hap = z3.If(_R2H.d.dom[name], _R2H.d.map[name], 0)
    discard, add = st.env["discard_unknown_reads"], st.env["add_untagged"]
    known = st.env["known_reads"].dom[name]
    return z3.And(z3.Not(z3.And(discard, z3.Not(known))), z3.Or(hap == h, z3.And(hap == 0, add, h >= 1)))


@R.spec
def DEFS(eng, st):
    k, h, L = z3.Ints(fresh_name("k") + " " + fresh_name("h") + " " + fresh_name("L"))
    n = st.env["records"].len
    name, length, rec = _rec(st, k)
    inr = z3.And(k >= 0, k < n)
    return [
        z3.ForAll([k, h], z3.Implies(inr, GOES(k, h) == _goes(st, k, h)), patterns=[GOES(k, h)]),
        z3.ForAll([h], NGO(h, 0) == 0, patterns=[NGO(h, 0)]),
        z3.ForAll([k, h], z3.Implies(inr, z3.And(NGO(h, k + 1) == NGO(h, k) + z3.If(GOES(k, h), 1, 0), NGO(h, k) >= 0,
                                                 z3.Implies(GOES(k, h), SRC(h, NGO(h, k)) == k))), patterns=[NGO(h, k)]),
        z3.ForAll([h, L], NGOL(h, L, 0) == 0, patterns=[NGOL(h, L, 0)]),
        z3.ForAll([k, h, L], z3.Implies(inr, NGOL(h, L, k + 1) == NGOL(h, L, k) + z3.If(z3.And(GOES(k, h), length == L), 1, 0)), patterns=[NGOL(h, L, k)]),
    ]


@R.spec
def ngo(eng, st, h, k):
    return NGO(to_z3(h), to_z3(k))


@R.spec
def src(eng, st, h, c):
    return SRC(to_z3(h), to_z3(c))


@R.spec
def ngol(eng, st, h, L, k):
    return NGOL(to_z3(h), to_z3(L), to_z3(k))


@R.spec
def hist_count(eng, st, hist, L):
    c = eng.load_field_raw(st, hist, "counts")
    return z3.If(c.dom[to_z3(L)], c.map[to_z3(L)], 0)


_NH = "len(output_writers)"
_SETUP = [
    ("one-writer-and-histogram-per-output", "len(histogram_data) == " + _NH + " and len(process_haplotype) == " + _NH + " and len(requested) == " + _NH + " and " + _NH + " >= 1"),
    ("writers-valid", "forall(h, implies(0 <= h and h < " + _NH + ", output_writers[h] is not None and histogram_data[h] is not None))"),
    ("writers-distinct", "forall(h, g, implies(0 <= h and h < g and g < " + _NH + ", output_writers[h] is not output_writers[g] and histogram_data[h] is not histogram_data[g]))"),
    ("process-flags", "process_haplotype[0] == (requested[0] or add_untagged) and forall(h, implies(1 <= h and h < " + _NH + ", process_haplotype[h] == requested[h]))"),
    ("haplotypes-in-range", "forall(k, implies(0 <= k and k < len(records), 0 <= HAP(records[k][0]) and HAP(records[k][0]) < " + _NH + "))"),
    ("definitions", "DEFS()"),
]


@R.spec
def HAP(eng, st, name):
    n = to_z3(name)
    return z3.If(_R2H.d.dom[n], _R2H.d.map[n], 0)


_WRITTEN = ("forall(h, implies(0 <= h and h < " + _NH + " and requested[h], len(output_writers[h].written) == old(len(output_writers[h].written)) + ngo(h, {i}) and "
            "forall(c, implies(0 <= c and c < ngo(h, {i}), output_writers[h].written[old(len(output_writers[h].written)) + c] == records[src(h, c)][2]))))")
_EARLIER = "forall(h, c, implies(0 <= h and h < " + _NH + " and requested[h] and 0 <= c and c < old(len(output_writers[h].written)), output_writers[h].written[c] == old(output_writers[h].written[c])))"
_HIST = ("implies({guard}, forall(h, L, implies(0 <= h and h < " + _NH + " and requested[h], hist_count(histogram_data[h], L) == old(hist_count(histogram_data[h], L)) + ngol(h, L, {i}))))")

_HIST_UNREQUESTED = ("forall(h, L, implies(0 <= h and h < " + _NH + " and not requested[h] and not (h == 0 and add_untagged), "
                     "hist_count(histogram_data[h], L) == old(hist_count(histogram_data[h], L))))")

R.contract(
    "run_split#single-pass",
    params={"records": LIST(REC), "input_iterator": IterFn(), "input_reader": Opaque(), "read_counter": LoggedCounter(), "discard_unknown_reads": BOOL,
            "known_reads": SET(INT), "readname_to_haplotype": _R2H, "process_haplotype": LIST(BOOL), "requested": LIST(BOOL), "histogram_data": LIST(REF("Hist")),
            "output_writers": LIST(REF("OutWriter")), "add_untagged": BOOL},
    requires=_SETUP,
    ensures=[
        ("each-requested-output-holds-exactly-its-reads-in-input-order", _WRITTEN.format(i="len(records)")),
        ("earlier-content-kept", _EARLIER),
        ("histogram-counts-the-reads-written-per-output", _HIST.format(i="len(records)", guard="not add_untagged")),
        ("histogram-counts-the-reads-written-per-output-with-add-untagged", _HIST.format(i="len(records)", guard="add_untagged")),
        ("nothing-counted-for-an-output-that-was-not-requested", _HIST_UNREQUESTED),
    ],
    modifies=["OutWriter.written", "Hist.counts"],
    locals={"read_name": INT, "read_length": INT, "record": INT, "read_haplotype": INT, "writer": REF("OutWriter")},
    loops={
        0: dict(index="ri", modifies=["OutWriter.written", "Hist.counts"], preserves=["output_writers", "histogram_data"],
                inv=[("written", _WRITTEN.format(i="ri")), ("earlier", _EARLIER), ("histogram", _HIST.format(i="ri", guard="not add_untagged")),
                     ("histogram-with-add-untagged", _HIST.format(i="ri", guard="add_untagged")), ("histogram-unrequested", _HIST_UNREQUESTED)]),
        1: dict(index="wi", modifies=["OutWriter.written"], preserves=["output_writers", "histogram_data"],
                inv=[("earlier", _EARLIER),
                     ("copied-so-far", "forall(h, implies(0 <= h and h < " + _NH + " and requested[h], "
                                       "len(output_writers[h].written) == old(len(output_writers[h].written)) + ngo(h, ri) + ite(h == 0 or (1 <= h and h <= wi), 1, 0) and "
                                       "forall(c, implies(0 <= c and c < ngo(h, ri), output_writers[h].written[old(len(output_writers[h].written)) + c] == records[src(h, c)][2])) and "
                                       "implies(h == 0 or (1 <= h and h <= wi), output_writers[h].written[old(len(output_writers[h].written)) + ngo(h, ri)] == records[ri][2])))")]),
    },
    extra={"target": "run_split", "loop_slice": 0},
    props=P)


@R.spec
def GOES_(eng, st, k, h):
    return GOES(to_z3(k), to_z3(h))


def canary():
    import copy
    c = copy.copy(R.contracts["run_split#single-pass"])
    c.ensures = [("wrong", "forall(h, implies(0 <= h and h < len(output_writers) and requested[h], len(output_writers[h].written) == old(len(output_writers[h].written)) + len(records)))")]
    return c


R.canaries.append(("split.py:canary#every-output-gets-every-read", canary))
