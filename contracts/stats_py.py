"""Contracts for whatshap/cli/stats.py (C12): PhasedBlock keeps the true extent of a phase set.

Variants are objects ordered by their position (the reader never yields two variants at one position)."""
from vcgen.api import *  # noqa

R = Registry("whatshap/cli/stats.py")
R.declare_class("Variant", {"position": INT})
R.order_keys["Variant"] = "position"
R.declare_class("PhasedBlock", {"phases": DICT(REF("Variant"), INT), "leftmost_variant": REF("Variant"), "rightmost_variant": REF("Variant"), "chromosome": INT})

INV = ("forall(implies(v in self.phases, v is not None and self.leftmost_variant.position <= v.position and v.position <= self.rightmost_variant.position), v=Variant)"
       " and (len(self.phases) == 0 or (self.leftmost_variant in self.phases and self.rightmost_variant in self.phases))")

R.contract("PhasedBlock.add", params={"self": REF("PhasedBlock"), "variant": REF("Variant"), "phase": INT},
           requires=[("inv", INV)],
           ensures=[("inv", INV), ("inserted", "variant in self.phases and self.phases[variant] == phase"),
                    ("others-kept", "forall(implies(v is not variant, (v in self.phases) == old(v in self.phases) and self.phases[v] == old(self.phases[v])), v=Variant)"),
                    ("other-blocks-untouched", "OTHER_BLOCKS_SAME(self)")],
           modifies=["PhasedBlock.phases", "PhasedBlock.leftmost_variant", "PhasedBlock.rightmost_variant"], props=["C12"])



@R.spec
def OTHER_BLOCKS_SAME(eng, st, blk):
    """frame: no other block's fields change"""
    import z3
    A = z3.ArraySort
    I, B = z3.IntSort(), z3.BoolSort()
    n = z3.Int(fresh_name("n"))
    eqs = []
    for key, srt in (("PhasedBlock.phases#dom", A(I, B)), ("PhasedBlock.phases#map", A(I, I)), ("PhasedBlock.leftmost_variant", I), ("PhasedBlock.rightmost_variant", I), ("PhasedBlock.chromosome", I)):
        eqs.append(eng.heap_arr(st, key, srt)[n] == eng.heap_arr(st.old, key, srt)[n])
    return z3.ForAll([n], z3.Implies(n != to_z3(blk), z3.And(*eqs)))


R.contract("PhasedBlock.span", params={"self": REF("PhasedBlock")}, returns=INT,
           requires=[("inv", INV), ("nonempty", "len(self.phases) > 0")],
           ensures=[("extent", "result == self.rightmost_variant.position - self.leftmost_variant.position and result >= 0"),
                    ("covers-all", "forall(implies(v in self.phases, self.leftmost_variant.position <= v.position and v.position <= self.leftmost_variant.position + result), v=Variant)")],
           props=["C12"])


def canary():
    import copy
    c = copy.copy(R.contracts["PhasedBlock.add"])
    c.ensures = [("wrong", "self.leftmost_variant is variant")]
    return c


R.canaries.append(("stats.py:canary#add-always-moves-left-end", canary))


# ---- PhasingStats: the aggregation behind the ALL row (C12: "the ALL row equals the sum of the per-chromosome rows")
R.declare_class("PhasingStats", {"blocks": LIST(REF("PhasedBlock")), "split_blocks": LIST(REF("PhasedBlock")), "unphased": INT, "variants": INT,
                                 "heterozygous_variants": INT, "heterozygous_snvs": INT, "phased_snvs": INT})
_COUNTERS = ["unphased", "variants", "heterozygous_variants", "heterozygous_snvs", "phased_snvs"]
_SUMS = " and ".join("self.%s == old(self.%s) + old(other.%s)" % (c, c, c) for c in _COUNTERS)
_CONCAT = ("len(self.{f}) == old(len(self.{f})) + old(len(other.{f})) and "
           "forall(i, implies(0 <= i and i < old(len(self.{f})), self.{f}[i] is old(self.{f}[i]))) and "
           "forall(i, implies(0 <= i and i < old(len(other.{f})), self.{f}[old(len(self.{f})) + i] is old(other.{f}[i])))")
R.contract("PhasingStats.__iadd__", params={"self": REF("PhasingStats"), "other": REF("PhasingStats")}, returns=REF("PhasingStats"),
           requires=[("distinct", "self is not other")],
           ensures=[("returns-self", "result is self"), ("counters-add-up", _SUMS),
                    ("blocks-concatenated", _CONCAT.format(f="blocks")), ("split-blocks-concatenated", _CONCAT.format(f="split_blocks")),
                    ("other-unchanged", " and ".join("other.%s == old(other.%s)" % (c, c) for c in _COUNTERS))],
           modifies=["PhasingStats." + f for f in ["blocks", "split_blocks"] + _COUNTERS], props=["C12"])
for _name, _field, _param in [("add_unphased", "unphased", "unphased"), ("add_variants", "variants", "variants"),
                              ("add_heterozygous_variants", "heterozygous_variants", "variants"), ("add_heterozygous_snvs", "heterozygous_snvs", "snvs")]:
    R.contract("PhasingStats." + _name, params={"self": REF("PhasingStats"), _param: INT}, extra=({"defaults": {"unphased": 1}} if _name == "add_unphased" else {}),
               ensures=[("adds", "self.%s == old(self.%s) + %s" % (_field, _field, _param))] +
                       [("keeps-" + c, "self.%s == old(self.%s)" % (c, c)) for c in _COUNTERS if c != _field],
               modifies=["PhasingStats." + _field], props=["C12"])


# ---- PhasedBlock.__init__ and split (C12: block lengths are computed on non-overlapping pieces -- split is how an outer block is cut around a nested one)
R.contract("PhasedBlock.__init__", params={"self": REF("PhasedBlock"), "chromosome": INT},
           ensures=[("empty", "len(self.phases) == 0 and forall(not (v in self.phases), v=Variant)"), ("no-ends", "self.leftmost_variant is None and self.rightmost_variant is None"),
                    ("chromosome", "self.chromosome == chromosome"), ("other-blocks-untouched", "OTHER_BLOCKS_SAME(self)")],
           modifies=["PhasedBlock.phases", "PhasedBlock.leftmost_variant", "PhasedBlock.rightmost_variant", "PhasedBlock.chromosome"], props=["C12"])

_INVB = ("forall(implies(v in {b}.phases, v is not None and {b}.leftmost_variant.position <= v.position and v.position <= {b}.rightmost_variant.position), v=Variant)"
         " and (len({b}.phases) == 0 or ({b}.leftmost_variant in {b}.phases and {b}.rightmost_variant in {b}.phases))")
_PART = ("forall(iff(v in {b}.phases, old(v in self.phases) and {seen} and {cond}) and implies(v in {b}.phases, {b}.phases[v] == old(self.phases[v])), v=Variant)")
_SELF_SAME = "forall((v in self.phases) == old(v in self.phases) and self.phases[v] == old(self.phases[v]), v=Variant)"
_FRESH = "{b} is not None and fresh_block({b}) and {b} is not self"


@R.spec
def fresh_block(eng, st, b):
    import z3
    return z3.And(to_z3(b) >= st.old.alloc["pre:PhasedBlock"], to_z3(b) < eng.alloc_bound(st, "PhasedBlock"))


R.contract(
    "PhasedBlock.split", params={"self": REF("PhasedBlock"), "split_left": INT, "split_right": INT}, returns=TUPLE(REF("PhasedBlock"), REF("PhasedBlock")),
    requires=[("ordered", "split_left <= split_right"), ("keys-valid", "forall(implies(v in self.phases, v is not None), v=Variant)")],
    ensures=[
        ("two-new-blocks", _FRESH.format(b="result[0]") + " and " + _FRESH.format(b="result[1]") + " and result[0] is not result[1]"),
        ("left-part-is-everything-left-of-split_left", _PART.format(b="result[0]", seen="True", cond="v.position < split_left")),
        ("right-part-is-everything-right-of-split_right", _PART.format(b="result[1]", seen="True", cond="v.position > split_right")),
        ("parts-are-well-formed-blocks", _INVB.format(b="result[0]") + " and " + _INVB.format(b="result[1]")),
        ("this-block-unchanged", _SELF_SAME),
        ("same-chromosome", "result[0].chromosome == self.chromosome and result[1].chromosome == self.chromosome"),
    ],
    modifies=["PhasedBlock.phases", "PhasedBlock.leftmost_variant", "PhasedBlock.rightmost_variant", "PhasedBlock.chromosome"],
    locals={"left_block": REF("PhasedBlock"), "right_block": REF("PhasedBlock"), "variant": REF("Variant"), "phase": INT},
    loops={0: dict(index="vi", inv=[
        ("fresh", _FRESH.format(b="left_block") + " and " + _FRESH.format(b="right_block") + " and left_block is not right_block"),
        ("left", _PART.format(b="left_block", seen="visited(0, v)", cond="v.position < split_left")),
        ("right", _PART.format(b="right_block", seen="visited(0, v)", cond="v.position > split_right")),
        ("well-formed", _INVB.format(b="left_block") + " and " + _INVB.format(b="right_block")),
        ("self-same", _SELF_SAME),
        ("chromosome", "left_block.chromosome == self.chromosome and right_block.chromosome == self.chromosome")])},
    extra={"allocates": ["PhasedBlock"]},
    props=["C12"])


# ---- write_to_block_list (C12: the block list has one line per phase set, in increasing order of the set's id, with its true extent -- 1-based positions of
# the leftmost and rightmost variant the block object holds, which PhasedBlock.add keeps equal to the real extremes (INV) -- and its size)
import z3  # noqa: E402

R.declare_class("BlockListFile", {"lines": LIST(INT)})
BLOCKROW = z3.Function("BLOCK_LIST_ROW", *([z3.IntSort()] * 7))
CARD = z3.Function("NUMBER_OF_VARIANTS_IN_BLOCK", z3.IntSort(), z3.IntSort())


class BlockListModel:
    @staticmethod
    def print(eng, st, obj, args, kwargs):
        zs = [to_z3(a) for a in args]
        if len(zs) != 6:
            raise Unsupported("block list row with %d fields" % len(zs))
        lines = eng.load_field(st, obj, "lines")
        eng.store_field(st, obj, "lines", eng.list_append(lines, BLOCKROW(*zs)))
        return NONE


class BlockLenModel:
    """len(block) == len(block.phases): the number of variants in the block, an abstract function of the block (cardinalities of dicts are not modelled)"""

    @staticmethod
    def len(eng, st, obj):
        return CARD(obj.ref)


R.object_models.update({"BlockListFile": BlockListModel, "PhasedBlock": BlockLenModel})


@R.spec
def block_row(eng, st, sample, chromosome, bid, blk):
    f = lambda o, n: to_z3(eng.load_field_raw(st, o, n))
    lv, rv = VRef("Variant", f(blk, "leftmost_variant")), VRef("Variant", f(blk, "rightmost_variant"))
    return BLOCKROW(to_z3(sample), to_z3(chromosome), to_z3(bid), f(lv, "position") + 1, f(rv, "position") + 1, CARD(to_z3(blk)))


_IDS = "sorted(blocks.keys())"
R.contract(
    "write_to_block_list", params={"block_list_file": REF("BlockListFile"), "blocks": DICT(INT, REF("PhasedBlock")), "chromosome": INT, "sample": INT},
    requires=[("blocks-exist", "forall(b, implies(b in blocks, blocks[b] is not None and blocks[b].leftmost_variant is not None and blocks[b].rightmost_variant is not None))")],
    ensures=[("earlier-lines-kept", "forall(k, implies(0 <= k and k < old(len(block_list_file.lines)), block_list_file.lines[k] == old(block_list_file.lines[k])))"),
             ("one-line-per-phase-set", "len(block_list_file.lines) == old(len(block_list_file.lines)) + len(block_ids)"),
             ("ids-increase-and-are-exactly-the-phase-sets", "forall(a, c, implies(0 <= a and a < c and c < len(block_ids), block_ids[a] < block_ids[c])) and "
                                                            "forall(a, implies(0 <= a and a < len(block_ids), block_ids[a] in blocks)) and "
                                                            "forall(b, implies(b in blocks, exists(a, 0 <= a and a < len(block_ids) and block_ids[a] == b)))"),
             ("each-line-states-the-extent-and-size-of-its-set", "forall(a, implies(0 <= a and a < len(block_ids), block_list_file.lines[old(len(block_list_file.lines)) + a] == "
                                                                  "block_row(sample, chromosome, block_ids[a], blocks[block_ids[a]])))")],
    modifies=["BlockListFile.lines"],
    locals={"block_ids": LIST(INT), "block_id": INT},
    loops={0: dict(index="bi", modifies=["BlockListFile.lines"],
                   inv=[("kept", "forall(k, implies(0 <= k and k < old(len(block_list_file.lines)), block_list_file.lines[k] == old(block_list_file.lines[k])))"),
                        ("length", "len(block_list_file.lines) == old(len(block_list_file.lines)) + bi"),
                        ("rows", "forall(a, implies(0 <= a and a < bi, block_list_file.lines[old(len(block_list_file.lines)) + a] == block_row(sample, chromosome, block_ids[a], blocks[block_ids[a]])))")])},
    props=["C12"])


def canary_blocklist():
    import copy
    c = copy.copy(R.contracts["write_to_block_list"])
    c.ensures = [("wrong", "len(block_list_file.lines) == old(len(block_list_file.lines)) + 1")]      # "exactly one line is written"
    return c


R.canaries.append(("stats.py:canary#block-list-has-one-line", canary_blocklist))


# ---------------------------------------------------------------------------------------------------------------------------------
# Loop-body contract for the classification pass of get_phase_blocks (C12: every call is counted as a variant; a call with a missing or homozygous
# genotype is nothing more; a heterozygous one is either UNPHASED or a member of exactly the block named by its phase's block_id).
# Unit: loop 0 of get_phase_blocks (`for variant, genotype, phase in zip(variant_table.variants, genotypes, phases)`), GTF output switched off
# (gtfwriter is None: the GTF branch is not modelled).  `blocks` is a defaultdict(PhasedBlock): looking up a new id creates an empty block.
# Ghost counting functions of the three input lists (by recurrence): NHET(k), NSNV(k), NUNPH(k) over the first k calls.
R.declare_class("Genotype", {})
R.declare_class("Phase", {"block_id": INT})
R.declare_class("VT", {"variants": LIST(REF("Variant"))})
GNONE = z3.Function("GENOTYPE_IS_NONE", z3.IntSort(), z3.BoolSort())
GHOM = z3.Function("GENOTYPE_IS_HOMOZYGOUS", z3.IntSort(), z3.BoolSort())
ISSNV = z3.Function("VARIANT_IS_SNV", z3.IntSort(), z3.BoolSort())
NHET = z3.Function("N_HETEROZYGOUS", z3.IntSort(), z3.IntSort())
NSNV = z3.Function("N_HETEROZYGOUS_SNVS", z3.IntSort(), z3.IntSort())
NUNPH = z3.Function("N_UNPHASED", z3.IntSort(), z3.IntSort())


class GenotypeModel:
    @staticmethod
    def method(eng, st, obj, name, args, kwargs):
        if name == "is_none" and not args:
            return GNONE(obj.ref)
        if name == "is_homozygous" and not args:
            return GHOM(obj.ref)
        return NotImplemented


class VariantModel:
    @staticmethod
    def method(eng, st, obj, name, args, kwargs):
        if name == "is_snv" and not args:
            return ISSNV(obj.ref)
        return NotImplemented


R.object_models.update({"Genotype": GenotypeModel, "Variant": VariantModel})


class BlockMap(VModel):
    """blocks = defaultdict(PhasedBlock): id -> block object; blocks[id] for a new id creates an empty block (chromosome None) and enters it"""

    def __init__(self, d=None, name="blocks"):
        self.d = d if d is not None else DICT(INT, REF("PhasedBlock")).fresh(name)
        self.name = name

    def sym_contains(self, eng, st, x):
        return self.d.dom[to_z3(x)]

    def sym_getitem(self, eng, st, key):
        k = to_z3(key)
        if eng.spec_mode:
            return VRef("PhasedBlock", self.d.map[k])
        new = eng.allocate(st, "PhasedBlock")
        eng.store_field(st, new, "phases", VDict(REF("Variant"), INT, z3.K(z3.IntSort(), z3.BoolVal(False)), z3.K(z3.IntSort(), z3.IntVal(0))))
        eng.store_field(st, new, "leftmost_variant", VRef("Variant", z3.IntVal(0)))
        eng.store_field(st, new, "rightmost_variant", VRef("Variant", z3.IntVal(0)))
        eng.store_field(st, new, "chromosome", z3.IntVal(0))
        ref = z3.If(self.d.dom[k], self.d.map[k], new.ref)
        st.env[self.name] = BlockMap(VDict(INT, REF("PhasedBlock"), z3.Store(self.d.dom, k, True), z3.Store(self.d.map, k, ref)), self.name)
        return VRef("PhasedBlock", ref)

    def havoc(self, eng, st, name):
        return BlockMap(DICT(INT, REF("PhasedBlock")).fresh(name), name)


def _call(eng, st, k):
    vt = st.env["variant_table"]
    vs = eng.load_field_raw(st, vt, "variants")
    return vs.arr[k], st.env["genotypes"].arr[k], st.env["phases"].arr[k]


def _het(eng, st, k):
    v, g, p = _call(eng, st, k)
    return z3.And(z3.Not(GNONE(g)), z3.Not(GHOM(g)))


@R.spec
def CLASSDEFS(eng, st):
    k, j = z3.Ints(fresh_name("k") + " " + fresh_name("j"))
    v, g, p = _call(eng, st, k)
    het = _het(eng, st, k)
    step = lambda F, cond: F(j) == F(k) + z3.If(cond, 1, 0)
    return z3.And(NHET(0) == 0, NSNV(0) == 0, NUNPH(0) == 0,
                  z3.ForAll([k, j], z3.Implies(z3.And(k >= 0, j == k + 1), z3.And(step(NHET, het), step(NSNV, z3.And(het, ISSNV(v))), step(NUNPH, z3.And(het, p == 0)))),
                            patterns=[z3.MultiPattern(NHET(k), NHET(j)), z3.MultiPattern(NSNV(k), NSNV(j)), z3.MultiPattern(NUNPH(k), NUNPH(j))]))


@R.spec
def phased_at(eng, st, k):
    v, g, p = _call(eng, st, to_z3(k))
    return z3.And(_het(eng, st, to_z3(k)), p != 0)


@R.spec
def nhet(eng, st, k):
    return NHET(to_z3(k))


@R.spec
def nsnv(eng, st, k):
    return NSNV(to_z3(k))


@R.spec
def nunph(eng, st, k):
    return NUNPH(to_z3(k))


_NV = "len(variant_table.variants)"
_COUNTED = ("stats.variants == old(stats.variants) + {k} and stats.heterozygous_variants == old(stats.heterozygous_variants) + nhet({k}) and "
            "stats.heterozygous_snvs == old(stats.heterozygous_snvs) + nsnv({k}) and stats.unphased == old(stats.unphased) + nunph({k}) and stats.phased_snvs == old(stats.phased_snvs)")
@R.spec
def existing_block(eng, st, x):
    return z3.And(to_z3(x) > 0, to_z3(x) < eng.alloc_bound(st, "PhasedBlock"))


_BLOCKS_OK = ("forall(b, implies(b in blocks, existing_block(blocks[b]) and " + _INVB.format(b="blocks[b]") + ")) and "
              "forall(b1, b2, implies(b1 in blocks and b2 in blocks and b1 != b2, blocks[b1] is not blocks[b2]))")
_MEMBERS = ("forall(j, implies(0 <= j and j < {k} and phased_at(j), phases[j].block_id in blocks and variant_table.variants[j] in blocks[phases[j].block_id].phases))")
_ONLY = ("forall(b, implies(b in blocks, forall(implies(v in blocks[b].phases, old(b in blocks and v in blocks[b].phases) or "
         "exists(j, 0 <= j and j < {k} and phased_at(j) and phases[j].block_id == b and variant_table.variants[j] is v)), v=Variant)))")
R.contract(
    "get_phase_blocks#classification",
    params={"variant_table": REF("VT"), "genotypes": LIST(REF("Genotype")), "phases": LIST(REF("Phase")), "stats": REF("PhasingStats"), "blocks": BlockMap(),
            "gtfwriter": REF("BlockListFile"), "chromosome": INT},
    requires=[("same-lengths", "len(genotypes) == " + _NV + " and len(phases) == " + _NV),
              ("calls-exist", "forall(k, implies(0 <= k and k < " + _NV + ", variant_table.variants[k] is not None and genotypes[k] is not None))"),
              ("variants-distinct", "forall(a, c, implies(0 <= a and a < c and c < " + _NV + ", variant_table.variants[a] is not variant_table.variants[c]))"),
              ("no-gtf", "gtfwriter is None"), ("definitions", "CLASSDEFS()")],
    ensures=[("every-call-counted-in-its-class", _COUNTED.format(k=_NV)),
             ("blocks-are-well-formed-and-distinct", _BLOCKS_OK),
             ("every-phased-call-is-in-the-block-of-its-phase-set", _MEMBERS.format(k=_NV)),
             ("blocks-hold-nothing-else", _ONLY.format(k=_NV))],
    modifies=["PhasingStats.variants", "PhasingStats.heterozygous_variants", "PhasingStats.heterozygous_snvs", "PhasingStats.unphased",
              "PhasedBlock.phases", "PhasedBlock.leftmost_variant", "PhasedBlock.rightmost_variant", "PhasedBlock.chromosome"],
    locals={"variant": REF("Variant"), "genotype": REF("Genotype"), "phase": REF("Phase")},
    loops={0: dict(index="zi", allocates=["PhasedBlock"],
                   modifies=["PhasingStats.variants", "PhasingStats.heterozygous_variants", "PhasingStats.heterozygous_snvs", "PhasingStats.unphased",
                             "PhasedBlock.phases", "PhasedBlock.leftmost_variant", "PhasedBlock.rightmost_variant", "PhasedBlock.chromosome"],
                   inv=[("counted", _COUNTED.format(k="zi")), ("blocks", _BLOCKS_OK), ("members", _MEMBERS.format(k="zi")), ("only", _ONLY.format(k="zi"))])},
    extra={"target": "get_phase_blocks", "loop_slice": 0, "nullable": {"gtfwriter": True, "phases": True}, "allocates": ["PhasedBlock"], "assume_asserts": [0]},
    props=["C12"])


def canary_classification():
    import copy
    c = copy.copy(R.contracts["get_phase_blocks#classification"])
    c.ensures = [("wrong", "stats.unphased == old(stats.unphased)")]      # "nothing is ever counted as unphased"
    return c


R.canaries.append(("stats.py:canary#no-call-is-unphased", canary_classification))
