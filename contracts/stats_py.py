"""Contracts for whatshap/cli/stats.py (C12): PhasedBlock keeps the true extent of a phase set.

Variants are objects ordered by their position (the reader never yields two variants at one position)."""
from vcgen.api import *  # noqa

R = Registry("whatshap/cli/stats.py")
R.declare_class("Variant", {"position": INT})
R.order_keys["Variant"] = "position"
R.declare_class("PhasedBlock", {"phases": DICT(REF("Variant"), INT), "leftmost_variant": REF("Variant"), "rightmost_variant": REF("Variant"), "chromosome": INT})

INV = ("forall(implies(v in self.phases, v is not None and self.leftmost_variant.position <= v.position and v.position <= self.rightmost_variant.position), v=Variant)"
       " and (len(self.phases) == 0 or (self.leftmost_variant in self.phases and self.rightmost_variant in self.phases))")

R.contract("PhasedBlock.add", params={"self": REF("PhasedBlock"), "variant": REF("Variant"), "phase": INT},
           requires=[("inv", INV)],
           ensures=[("inv", INV), ("inserted", "variant in self.phases and self.phases[variant] == phase"),
                    ("others-kept", "forall(implies(v is not variant, (v in self.phases) == old(v in self.phases)), v=Variant)")],
           modifies=["PhasedBlock.phases", "PhasedBlock.leftmost_variant", "PhasedBlock.rightmost_variant"], props=["C12"])

R.contract("PhasedBlock.span", params={"self": REF("PhasedBlock")}, returns=INT,
           requires=[("inv", INV), ("nonempty", "len(self.phases) > 0")],
           ensures=[("extent", "result == self.rightmost_variant.position - self.leftmost_variant.position and result >= 0"),
                    ("covers-all", "forall(implies(v in self.phases, self.leftmost_variant.position <= v.position and v.position <= self.leftmost_variant.position + result), v=Variant)")],
           props=["C12"])


def canary():
    import copy
    c = copy.copy(R.contracts["PhasedBlock.add"])
    c.ensures = [("wrong", "self.leftmost_variant is variant")]
    return c


R.canaries.append(("stats.py:canary#add-always-moves-left-end", canary))


# ---- PhasingStats: the aggregation behind the ALL row (C12: "the ALL row equals the sum of the per-chromosome rows")
R.declare_class("PhasingStats", {"blocks": LIST(REF("PhasedBlock")), "split_blocks": LIST(REF("PhasedBlock")), "unphased": INT, "variants": INT,
                                 "heterozygous_variants": INT, "heterozygous_snvs": INT, "phased_snvs": INT})
_COUNTERS = ["unphased", "variants", "heterozygous_variants", "heterozygous_snvs", "phased_snvs"]
_SUMS = " and ".join("self.%s == old(self.%s) + old(other.%s)" % (c, c, c) for c in _COUNTERS)
_CONCAT = ("len(self.{f}) == old(len(self.{f})) + old(len(other.{f})) and "
           "forall(i, implies(0 <= i and i < old(len(self.{f})), self.{f}[i] is old(self.{f}[i]))) and "
           "forall(i, implies(0 <= i and i < old(len(other.{f})), self.{f}[old(len(self.{f})) + i] is old(other.{f}[i])))")
R.contract("PhasingStats.__iadd__", params={"self": REF("PhasingStats"), "other": REF("PhasingStats")}, returns=REF("PhasingStats"),
           requires=[("distinct", "self is not other")],
           ensures=[("returns-self", "result is self"), ("counters-add-up", _SUMS),
                    ("blocks-concatenated", _CONCAT.format(f="blocks")), ("split-blocks-concatenated", _CONCAT.format(f="split_blocks")),
                    ("other-unchanged", " and ".join("other.%s == old(other.%s)" % (c, c) for c in _COUNTERS))],
           modifies=["PhasingStats." + f for f in ["blocks", "split_blocks"] + _COUNTERS], props=["C12"])
for _name, _field, _param in [("add_unphased", "unphased", "unphased"), ("add_variants", "variants", "variants"),
                              ("add_heterozygous_variants", "heterozygous_variants", "variants"), ("add_heterozygous_snvs", "heterozygous_snvs", "snvs")]:
    R.contract("PhasingStats." + _name, params={"self": REF("PhasingStats"), _param: INT},
               ensures=[("adds", "self.%s == old(self.%s) + %s" % (_field, _field, _param))] +
                       [("keeps-" + c, "self.%s == old(self.%s)" % (c, c)) for c in _COUNTERS if c != _field],
               modifies=["PhasingStats." + _field], props=["C12"])
