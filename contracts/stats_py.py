"""Contracts for whatshap/cli/stats.py (C12): PhasedBlock keeps the true extent of a phase set.

Variants are objects ordered by their position (the reader never yields two variants at one position)."""
from vcgen.api import *  # noqa

R = Registry("whatshap/cli/stats.py")
R.declare_class("Variant", {"position": INT})
R.order_keys["Variant"] = "position"
R.declare_class("PhasedBlock", {"phases": DICT(REF("Variant"), INT), "leftmost_variant": REF("Variant"), "rightmost_variant": REF("Variant"), "chromosome": INT})

INV = ("forall(implies(v in self.phases, v is not None and self.leftmost_variant.position <= v.position and v.position <= self.rightmost_variant.position), v=Variant)"
       " and (len(self.phases) == 0 or (self.leftmost_variant in self.phases and self.rightmost_variant in self.phases))")

R.contract("PhasedBlock.add", params={"self": REF("PhasedBlock"), "variant": REF("Variant"), "phase": INT},
           requires=[("inv", INV)],
           ensures=[("inv", INV), ("inserted", "variant in self.phases and self.phases[variant] == phase"),
                    ("others-kept", "forall(implies(v is not variant, (v in self.phases) == old(v in self.phases)), v=Variant)")],
           modifies=["PhasedBlock.phases", "PhasedBlock.leftmost_variant", "PhasedBlock.rightmost_variant"], props=["C12"])

R.contract("PhasedBlock.span", params={"self": REF("PhasedBlock")}, returns=INT,
           requires=[("inv", INV), ("nonempty", "len(self.phases) > 0")],
           ensures=[("extent", "result == self.rightmost_variant.position - self.leftmost_variant.position and result >= 0"),
                    ("covers-all", "forall(implies(v in self.phases, self.leftmost_variant.position <= v.position and v.position <= self.leftmost_variant.position + result), v=Variant)")],
           props=["C12"])


def canary():
    import copy
    c = copy.copy(R.contracts["PhasedBlock.add"])
    c.ensures = [("wrong", "self.leftmost_variant is variant")]
    return c


R.canaries.append(("stats.py:canary#add-always-moves-left-end", canary))
