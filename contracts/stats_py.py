"""Contracts for whatshap/cli/stats.py (C12): PhasedBlock keeps the true extent of a phase set.

Variants are objects ordered by their position (the reader never yields two variants at one position)."""
from vcgen.api import *  # noqa

R = Registry("whatshap/cli/stats.py")
R.declare_class("Variant", {"position": INT})
R.order_keys["Variant"] = "position"
R.declare_class("PhasedBlock", {"phases": DICT(REF("Variant"), INT), "leftmost_variant": REF("Variant"), "rightmost_variant": REF("Variant"), "chromosome": INT})

INV = ("forall(implies(v in self.phases, v is not None and self.leftmost_variant.position <= v.position and v.position <= self.rightmost_variant.position), v=Variant)"
       " and (len(self.phases) == 0 or (self.leftmost_variant in self.phases and self.rightmost_variant in self.phases))")

R.contract("PhasedBlock.add", params={"self": REF("PhasedBlock"), "variant": REF("Variant"), "phase": INT},
           requires=[("inv", INV)],
           ensures=[("inv", INV), ("inserted", "variant in self.phases and self.phases[variant] == phase"),
                    ("others-kept", "forall(implies(v is not variant, (v in self.phases) == old(v in self.phases) and self.phases[v] == old(self.phases[v])), v=Variant)"),
                    ("other-blocks-untouched", "OTHER_BLOCKS_SAME(self)")],
           modifies=["PhasedBlock.phases", "PhasedBlock.leftmost_variant", "PhasedBlock.rightmost_variant"], props=["C12"])



@R.spec
def OTHER_BLOCKS_SAME(eng, st, blk):
    """frame: no other block's fields change"""
    import z3
    A = z3.ArraySort
    I, B = z3.IntSort(), z3.BoolSort()
    n = z3.Int(fresh_name("n"))
    eqs = []
    for key, srt in (("PhasedBlock.phases#dom", A(I, B)), ("PhasedBlock.phases#map", A(I, I)), ("PhasedBlock.leftmost_variant", I), ("PhasedBlock.rightmost_variant", I), ("PhasedBlock.chromosome", I)):
        eqs.append(eng.heap_arr(st, key, srt)[n] == eng.heap_arr(st.old, key, srt)[n])
    return z3.ForAll([n], z3.Implies(n != to_z3(blk), z3.And(*eqs)))


R.contract("PhasedBlock.span", params={"self": REF("PhasedBlock")}, returns=INT,
           requires=[("inv", INV), ("nonempty", "len(self.phases) > 0")],
           ensures=[("extent", "result == self.rightmost_variant.position - self.leftmost_variant.position and result >= 0"),
                    ("covers-all", "forall(implies(v in self.phases, self.leftmost_variant.position <= v.position and v.position <= self.leftmost_variant.position + result), v=Variant)")],
           props=["C12"])


def canary():
    import copy
    c = copy.copy(R.contracts["PhasedBlock.add"])
    c.ensures = [("wrong", "self.leftmost_variant is variant")]
    return c


R.canaries.append(("stats.py:canary#add-always-moves-left-end", canary))


# ---- PhasingStats: the aggregation behind the ALL row (C12: "the ALL row equals the sum of the per-chromosome rows")
R.declare_class("PhasingStats", {"blocks": LIST(REF("PhasedBlock")), "split_blocks": LIST(REF("PhasedBlock")), "unphased": INT, "variants": INT,
                                 "heterozygous_variants": INT, "heterozygous_snvs": INT, "phased_snvs": INT})
_COUNTERS = ["unphased", "variants", "heterozygous_variants", "heterozygous_snvs", "phased_snvs"]
_SUMS = " and ".join("self.%s == old(self.%s) + old(other.%s)" % (c, c, c) for c in _COUNTERS)
_CONCAT = ("len(self.{f}) == old(len(self.{f})) + old(len(other.{f})) and "
           "forall(i, implies(0 <= i and i < old(len(self.{f})), self.{f}[i] is old(self.{f}[i]))) and "
           "forall(i, implies(0 <= i and i < old(len(other.{f})), self.{f}[old(len(self.{f})) + i] is old(other.{f}[i])))")
R.contract("PhasingStats.__iadd__", params={"self": REF("PhasingStats"), "other": REF("PhasingStats")}, returns=REF("PhasingStats"),
           requires=[("distinct", "self is not other")],
           ensures=[("returns-self", "result is self"), ("counters-add-up", _SUMS),
                    ("blocks-concatenated", _CONCAT.format(f="blocks")), ("split-blocks-concatenated", _CONCAT.format(f="split_blocks")),
                    ("other-unchanged", " and ".join("other.%s == old(other.%s)" % (c, c) for c in _COUNTERS))],
           modifies=["PhasingStats." + f for f in ["blocks", "split_blocks"] + _COUNTERS], props=["C12"])
for _name, _field, _param in [("add_unphased", "unphased", "unphased"), ("add_variants", "variants", "variants"),
                              ("add_heterozygous_variants", "heterozygous_variants", "variants"), ("add_heterozygous_snvs", "heterozygous_snvs", "snvs")]:
    R.contract("PhasingStats." + _name, params={"self": REF("PhasingStats"), _param: INT},
               ensures=[("adds", "self.%s == old(self.%s) + %s" % (_field, _field, _param))] +
                       [("keeps-" + c, "self.%s == old(self.%s)" % (c, c)) for c in _COUNTERS if c != _field],
               modifies=["PhasingStats." + _field], props=["C12"])


# ---- PhasedBlock.__init__ and split (C12: block lengths are computed on non-overlapping pieces -- split is how an outer block is cut around a nested one)
R.contract("PhasedBlock.__init__", params={"self": REF("PhasedBlock"), "chromosome": INT},
           ensures=[("empty", "len(self.phases) == 0 and forall(not (v in self.phases), v=Variant)"), ("no-ends", "self.leftmost_variant is None and self.rightmost_variant is None"),
                    ("chromosome", "self.chromosome == chromosome"), ("other-blocks-untouched", "OTHER_BLOCKS_SAME(self)")],
           modifies=["PhasedBlock.phases", "PhasedBlock.leftmost_variant", "PhasedBlock.rightmost_variant", "PhasedBlock.chromosome"], props=["C12"])

_INVB = ("forall(implies(v in {b}.phases, v is not None and {b}.leftmost_variant.position <= v.position and v.position <= {b}.rightmost_variant.position), v=Variant)"
         " and (len({b}.phases) == 0 or ({b}.leftmost_variant in {b}.phases and {b}.rightmost_variant in {b}.phases))")
_PART = ("forall(iff(v in {b}.phases, old(v in self.phases) and {seen} and {cond}) and implies(v in {b}.phases, {b}.phases[v] == old(self.phases[v])), v=Variant)")
_SELF_SAME = "forall((v in self.phases) == old(v in self.phases) and self.phases[v] == old(self.phases[v]), v=Variant)"
_FRESH = "{b} is not None and fresh_block({b}) and {b} is not self"


@R.spec
def fresh_block(eng, st, b):
    import z3
    return z3.And(to_z3(b) >= st.old.alloc["pre:PhasedBlock"], to_z3(b) < eng.alloc_bound(st, "PhasedBlock"))


R.contract(
    "PhasedBlock.split", params={"self": REF("PhasedBlock"), "split_left": INT, "split_right": INT}, returns=TUPLE(REF("PhasedBlock"), REF("PhasedBlock")),
    requires=[("ordered", "split_left <= split_right"), ("keys-valid", "forall(implies(v in self.phases, v is not None), v=Variant)")],
    ensures=[
        ("two-new-blocks", _FRESH.format(b="result[0]") + " and " + _FRESH.format(b="result[1]") + " and result[0] is not result[1]"),
        ("left-part-is-everything-left-of-split_left", _PART.format(b="result[0]", seen="True", cond="v.position < split_left")),
        ("right-part-is-everything-right-of-split_right", _PART.format(b="result[1]", seen="True", cond="v.position > split_right")),
        ("parts-are-well-formed-blocks", _INVB.format(b="result[0]") + " and " + _INVB.format(b="result[1]")),
        ("this-block-unchanged", _SELF_SAME),
        ("same-chromosome", "result[0].chromosome == self.chromosome and result[1].chromosome == self.chromosome"),
    ],
    modifies=["PhasedBlock.phases", "PhasedBlock.leftmost_variant", "PhasedBlock.rightmost_variant", "PhasedBlock.chromosome"],
    locals={"left_block": REF("PhasedBlock"), "right_block": REF("PhasedBlock"), "variant": REF("Variant"), "phase": INT},
    loops={0: dict(index="vi", inv=[
        ("fresh", _FRESH.format(b="left_block") + " and " + _FRESH.format(b="right_block") + " and left_block is not right_block"),
        ("left", _PART.format(b="left_block", seen="visited(0, v)", cond="v.position < split_left")),
        ("right", _PART.format(b="right_block", seen="visited(0, v)", cond="v.position > split_right")),
        ("well-formed", _INVB.format(b="left_block") + " and " + _INVB.format(b="right_block")),
        ("self-same", _SELF_SAME),
        ("chromosome", "left_block.chromosome == self.chromosome and right_block.chromosome == self.chromosome")])},
    extra={"allocates": ["PhasedBlock"]},
    props=["C12"])
