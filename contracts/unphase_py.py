"""Contracts for whatshap/cli/unphase.py (C13) over the axiomatised pysam model (contracts/pysam_model.py).

run_unphase: the writer receives exactly the reader's records, in order; no record keeps an HP/PQ/PS FORMAT key and every other key stays; where
a record has GT, no allele of any call keeps a phase bit, a fully known genotype becomes sorted(genotype) (an ordered permutation of it: same
multiset of alleles) and any other genotype is left exactly as it was.  unphase_header: the three FORMAT definitions and the first `phasing`
header line go, nothing else.
The postcondition refers to the function's locals `reader` and `writer` (the objects it opened); old(...) is the file content on entry."""
import z3
from vcgen.api import *  # noqa
from contracts import pysam_model as PM

R = Registry("whatshap/cli/unphase.py")
PM.install(R)
OPTINT = PM.OPTINT



_arrs, _keys, _call_untouched, _call_done = PM._arrs, PM._keys, PM._call_untouched, PM._call_done


def _rec_fmt_done(eng, a, a0, r):
    K = _keys(eng)
    t = z3.Int(fresh_name("t"))
    return z3.And(z3.Not(a["fmt"][r][K["HP"]]), z3.Not(a["fmt"][r][K["PQ"]]), z3.Not(a["fmt"][r][K["PS"]]),
                  forall_pat([t], z3.Implies(z3.And(t != K["HP"], t != K["PQ"], t != K["PS"]), a["fmt"][r][t] == a0["fmt"][r][t]), [a["fmt"][r][t]]))


@R.spec
def record_done(eng, st, r):
    """POST of one record: format keys as specified; with GT every call done, without GT every call untouched"""
    a, a0 = _arrs(eng, st), _arrs(eng, st.old)
    r = to_z3(r)
    K = _keys(eng)
    j = z3.Int(fresh_name("j"))
    c = a0["calls"][r][j]
    return z3.And(_rec_fmt_done(eng, a, a0, r),
                  z3.ForAll([j], z3.Implies(z3.And(j >= 0, j < a0["ncalls"][r]),
                                            z3.If(a0["fmt"][r][K["GT"]], _call_done(a, a0, c), _call_untouched(a, a0, c))), patterns=[a0["calls"][r][j]]))


@R.spec
def record_untouched(eng, st, r):
    a, a0 = _arrs(eng, st), _arrs(eng, st.old)
    r = to_z3(r)
    j = z3.Int(fresh_name("j"))
    c = a0["calls"][r][j]
    return z3.And(a["fmt"][r] == a0["fmt"][r], z3.Not(eng.heap_arr(st, "Record.frozen", z3.BoolSort())[r]),
                  forall_pat([j], z3.Implies(z3.And(j >= 0, j < a0["ncalls"][r]), _call_untouched(a, a0, c)), [a0["calls"][r][j]]))


@R.spec
def format_done(eng, st, r):
    a, a0 = _arrs(eng, st), _arrs(eng, st.old)
    return _rec_fmt_done(eng, a, a0, to_z3(r))


@R.spec
def call_done(eng, st, c):
    return _call_done(_arrs(eng, st), _arrs(eng, st.old), to_z3(c))


@R.spec
def call_untouched(eng, st, c):
    return _call_untouched(_arrs(eng, st), _arrs(eng, st.old), to_z3(c))


_WRITTEN = "len(writer.written) == %s and forall(k, implies(0 <= k and k < %s, writer.written[k] is reader.records[k]))"
_DONE_BEFORE = "forall(k, implies(0 <= k and k < %s, record_done(reader.records[k])))"
_UNTOUCHED_FROM = "forall(k, implies(%s <= k and k < len(reader.records), record_untouched(reader.records[k])))"
_MOD = ["Record.fmt", "Record.frozen", "Call.gt", "Call.gt_none", "Call.ph", "Writer.written"]

R.contract(
    "run_unphase", params={"vcf_path": STR, "outfile": INT},
    ensures=[
        ("same-records-in-order", _WRITTEN % ("len(reader.records)", "len(reader.records)")),
        ("every-record-unphased-and-otherwise-unchanged", _DONE_BEFORE % "len(reader.records)"),
        ("header-passed-on", "writer.header is reader.header"),
    ],
    modifies=_MOD + ["Header.formats", "HRec.removed", "Writer.header"],
    loops={
        0: dict(index="ri", modifies=_MOD,
                inv=[("written", _WRITTEN % ("ri", "ri")), ("done", _DONE_BEFORE % "ri"), ("rest-untouched", _UNTOUCHED_FROM % "ri"),
                     ("writer", "writer is not None and fresh_writer(writer)")]),
        2: dict(index="cj", modifies=["Call.gt", "Call.gt_none", "Call.ph"],
                inv=[("done", _DONE_BEFORE % "ri"), ("rest-untouched", _UNTOUCHED_FROM % "(ri + 1)"),
                     ("format", "format_done(record) and not record.frozen"),
                     ("calls-done", "forall(j, implies(0 <= j and j < cj, call_done(record.calls[j])))"),
                     ("calls-rest", "forall(j, implies(cj <= j and j < len(record.calls), call_untouched(record.calls[j])))")]),
    },
    extra={"allocates": ["Writer"]},
    props=["C13"])


@R.spec
def fresh_writer(eng, st, w):
    return z3.And(to_z3(w) >= st.old.alloc["pre:Writer"], to_z3(w) < eng.alloc_bound(st, "Writer"))


R.contract(
    "unphase_header", params={"header": REF("Header")},
    ensures=[
        ("phase-tags-undefined", "tag('HP') not in header.formats and tag('PQ') not in header.formats and tag('PS') not in header.formats"),
        ("other-formats-kept", "forall(t, implies(t != tag('HP') and t != tag('PQ') and t != tag('PS'), (t in header.formats) == old(t in header.formats)))"),
        ("info-definitions-kept", "forall(t, (t in header.info) == old(t in header.info))"),
        ("only-phasing-lines-removed", "forall(k, implies(0 <= k and k < len(header.hrecs) and header.hrecs[k].removed and not old(header.hrecs[k].removed), "
                                       "header.hrecs[k].key == tag('phasing')))"),
    ],
    requires=[("records-valid", "forall(k, implies(0 <= k and k < len(header.hrecs), header.hrecs[k] is not None))")],
    modifies=["Header.formats", "HRec.removed"],
    loops={0: dict(index="hi", modifies=["HRec.removed"],
                   inv=[("nothing-removed-yet", "forall(k, implies(0 <= k and k < len(header.hrecs), header.hrecs[k].removed == old(header.hrecs[k].removed)))")])},
    props=["C13"])


def canary():
    import copy
    c = copy.copy(R.contracts["run_unphase"])
    c.ensures = [("wrong", "forall(k, implies(0 <= k and k < len(reader.records), record_untouched(reader.records[k])))")]   # "unphase changes nothing"
    return c


R.canaries.append(("unphase.py:canary#records-untouched", canary))
