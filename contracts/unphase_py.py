"""placeholder: contracts for whatshap/cli/unphase.py (filled in below)"""
from vcgen.api import *  # noqa
R = Registry("whatshap/cli/unphase.py")
