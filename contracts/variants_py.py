"""Contracts for whatshap/variants.py (C06): ReadSetReader.cigar_prefix_length.

R(i) / Q(i) = reference / query bases consumed by cigar[:i] up to (not including) a reference skip.  The function returns (r, q) with
r <= reference_bases such that the CIGAR prefix cigar[:i] plus c bases of element i consumes exactly r reference and q query bases; r < reference_bases
only when the CIGAR is exhausted or element i is a reference skip (N) -- 'no positions beyond a reference skip are reported', and the value reported
there is the reference length actually consumed (finding F10 was exactly a violation of this clause)."""
import z3
from vcgen.api import *  # noqa
from vcgen.builtins_model import SUM

R = Registry("whatshap/variants.py")
OP = TUPLE(INT, INT)
REF_OPS, QRY_OPS = (0, 7, 8, 2), (0, 7, 8, 1)


def _consumed(cigar, ops):
    k = z3.Int(fresh_name("k"))
    op = OP.dt.accessor(0, 0)(cigar.arr[k])
    ln = OP.dt.accessor(0, 1)(cigar.arr[k])
    return z3.Lambda([k], z3.If(z3.Or(*[op == o for o in ops]), ln, 0))


@R.spec
def RC(eng, st, cigar, i):
    return SUM(eng, st, _consumed(cigar, REF_OPS), 0, to_z3(i))


@R.spec
def QC(eng, st, cigar, i):
    return SUM(eng, st, _consumed(cigar, QRY_OPS), 0, to_z3(i))


WELLFORMED = "forall(j, implies(0 <= j and j < len(cigar), cigar[j][1] >= 0 and (cigar[j][0] == 0 or cigar[j][0] == 1 or cigar[j][0] == 2 or cigar[j][0] == 3 or cigar[j][0] == 4 or cigar[j][0] == 5 or cigar[j][0] == 7 or cigar[j][0] == 8)))"

R.contract("ReadSetReader.cigar_prefix_length", params={"cigar": LIST(OP), "reference_bases": INT}, returns=TUPLE(INT, INT),
           requires=[("known-operators", WELLFORMED), ("positive", "reference_bases >= 1")],
           ensures=[
               ("never-more-than-requested", "result[0] <= reference_bases"),
               ("exhausted", "implies(idx == len(cigar), result[0] == RC(cigar, len(cigar)) and result[1] == QC(cigar, len(cigar)) and result[0] < reference_bases)"),
               ("inside-match", "implies(idx < len(cigar) and (cigar[idx][0] == 0 or cigar[idx][0] == 7 or cigar[idx][0] == 8), "
                                "result[0] == reference_bases and result[1] == QC(cigar, idx) + (reference_bases - RC(cigar, idx)) and "
                                "RC(cigar, idx) <= reference_bases and reference_bases <= RC(cigar, idx) + cigar[idx][1])"),
               ("inside-deletion", "implies(idx < len(cigar) and cigar[idx][0] == 2, result[0] == reference_bases and result[1] == QC(cigar, idx) and "
                                   "RC(cigar, idx) <= reference_bases and reference_bases <= RC(cigar, idx) + cigar[idx][1])"),
               ("stops-at-reference-skip", "implies(idx < len(cigar) and cigar[idx][0] == 3, result[0] == RC(cigar, idx) and result[1] == QC(cigar, idx) and result[0] < reference_bases)"),
               ("returns-only-at-match-deletion-skip-or-end", "idx == len(cigar) or cigar[idx][0] == 0 or cigar[idx][0] == 7 or cigar[idx][0] == 8 or cigar[idx][0] == 2 or cigar[idx][0] == 3"),
           ],
           loops={0: dict(index="idx", inv=[("ref", "ref_pos == RC(cigar, idx)"), ("query", "query_pos == QC(cigar, idx)"), ("not-yet", "ref_pos < reference_bases"),
                                            ("nonneg", "ref_pos >= 0 and query_pos >= 0")])},
           props=["C06"])


def canary_skip_reports_requested():
    import copy
    c = copy.copy(R.contracts["ReadSetReader.cigar_prefix_length"])
    c.ensures = [("wrong", "implies(idx < len(cigar) and cigar[idx][0] == 3, result[0] == reference_bases)")]
    return c


R.canaries.append(("variants.py:canary#prefix-length-reports-requested-length-at-skip", canary_skip_reports_requested))


def CROSSCHECK():
    from vcgen.crosscheck import Case

    def gen(rng):
        cigar = [(rng.choice([0, 0, 0, 1, 2, 3, 4, 5, 7, 8]), rng.randint(1, 6)) for _ in range(rng.randint(0, 6))]
        return dict(cigar=cigar, reference_bases=rng.randint(-1, 20))

    def real(inp):
        from whatshap.variants import ReadSetReader
        try:
            return ("ok", tuple(ReadSetReader.cigar_prefix_length(inp["cigar"], inp["reference_bases"])), {})
        except Exception as e:      # noqa: BLE001
            return ("raise", type(e).__name__)
    return [Case("ReadSetReader.cigar_prefix_length", gen, real, n=150)]
