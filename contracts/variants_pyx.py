"""Contracts for whatshap/_variants.pyx (C06): _iterate_cigar, the lock-step walk over CIGAR and sorted variants.

RS(i) / QS(i) = reference position / query offset at the start of CIGAR element i (reference_start plus the reference-consuming lengths M,=,X,D,N of
cigar[:i]; the query-consuming lengths M,=,X,I,S of cigar[:i]).  The generator's ghost output __yielded__ is the sequence of tuples
(variant index, cigar index, consumed, query position).  Every yielded tuple is sound: the variant's position lies inside (M,=,X,D: at offset `consumed`)
or at the insertion point of (I: consumed 0) the named CIGAR element -- never inside a reference skip, a clip or padding -- and the query position is the
read offset of that reference position; variant indices are yielded in strictly increasing order.  (No allele can therefore be recorded at a position the
read does not cover.)"""
import z3
from vcgen.api import *  # noqa
from vcgen.builtins_model import SUM

R = Registry("whatshap/_variants.pyx", lang="cython")
OP = TUPLE(INT, INT)
Y = TUPLE(INT, INT, INT, INT)
R.declare_class("VcfVariant", {"position": INT})
R.declare_class("BamRead", {"reference_start": INT})
R.ctypes.update({"int": INT})
REF_OPS, QRY_OPS = (0, 7, 8, 2, 3), (0, 7, 8, 1, 4)


def _consumed(cigar, ops):
    k = z3.Int(fresh_name("k"))
    op = OP.dt.accessor(0, 0)(cigar.arr[k])
    ln = OP.dt.accessor(0, 1)(cigar.arr[k])
    return z3.Lambda([k], z3.If(z3.Or(*[op == o for o in ops]), ln, 0))


@R.spec
def RS(eng, st, bam_read, cigar, i):
    return to_z3(eng.load_field_raw(st, bam_read, "reference_start")) + SUM(eng, st, _consumed(cigar, REF_OPS), 0, to_z3(i))


@R.spec
def QS(eng, st, cigar, i):
    return SUM(eng, st, _consumed(cigar, QRY_OPS), 0, to_z3(i))


KNOWN = "forall(k, implies(0 <= k and k < len(cigartuples), cigartuples[k][1] >= 0 and 0 <= cigartuples[k][0] and cigartuples[k][0] <= 8))"
VALIDV = "forall(k, implies(0 <= k and k < len(variants), variants[k] is not None)) and forall(a, b, implies(0 <= a and a <= b and b < len(variants), variants[a].position <= variants[b].position))"
_M = "(cigartuples[{c}][0] == 0 or cigartuples[{c}][0] == 7 or cigartuples[{c}][0] == 8)"
SOUND = ("forall(k, implies(0 <= k and k < len(__yielded__), "
         "0 <= __yielded__[k][0] and __yielded__[k][0] < {jbound} and 0 <= __yielded__[k][1] and __yielded__[k][1] < {ibound} and "
         "variants[__yielded__[k][0]].position == RS(bam_read, cigartuples, __yielded__[k][1]) + __yielded__[k][2] and __yielded__[k][2] >= 0 and "
         "((" + _M.format(c="__yielded__[k][1]") + " and __yielded__[k][2] < cigartuples[__yielded__[k][1]][1] and __yielded__[k][3] == QS(cigartuples, __yielded__[k][1]) + __yielded__[k][2]) or "
         "(cigartuples[__yielded__[k][1]][0] == 2 and __yielded__[k][2] < cigartuples[__yielded__[k][1]][1] and __yielded__[k][3] == QS(cigartuples, __yielded__[k][1])) or "
         "(cigartuples[__yielded__[k][1]][0] == 1 and __yielded__[k][2] == 0 and __yielded__[k][3] == QS(cigartuples, __yielded__[k][1])))))")
ORDERED = "forall(k, implies(0 <= k and k + 1 < len(__yielded__), __yielded__[k][0] < __yielded__[k + 1][0]))"
LASTJ = "implies(len(__yielded__) > 0, __yielded__[len(__yielded__) - 1][0] < j)"
_COMMON = [("j", "0 <= j and j <= n and n == len(variants)"), ("ahead", "implies(j < n, variants[j].position >= ref_pos)"), ("ordered", ORDERED), ("last", LASTJ)]
_INNER = [("ref", "ref_pos == RS(bam_read, cigartuples, i)"), ("query", "query_pos == QS(cigartuples, i)"), ("i", "0 <= i and i < len(cigartuples)"),
          ("v", "implies(j < n, v_position == variants[j].position)"), ("sound", SOUND.format(jbound="j", ibound="i + 1"))] + _COMMON

R.contract(
    "_iterate_cigar", params={"variants": LIST(REF("VcfVariant")), "j": INT, "bam_read": REF("BamRead"), "cigartuples": LIST(OP)},
    requires=[("known-operators", KNOWN), ("variants-sorted", VALIDV), ("start", "0 <= j and j <= len(variants)")],
    ensures=[("every-yield-is-sound", SOUND.format(jbound="len(variants)", ibound="len(cigartuples)")), ("variant-indices-increase", ORDERED)],
    locals={"ref_pos": INT, "query_pos": INT, "cigar_op": INT, "length": INT, "i": INT, "n": INT, "v_position": INT},
    loops={
        0: dict(inv=[("j", "0 <= j and j <= n and n == len(variants)"), ("nothing-yielded", "len(__yielded__) == 0")]),
        1: dict(index="ci", inv=[("ref", "ref_pos == RS(bam_read, cigartuples, ci)"), ("query", "query_pos == QS(cigartuples, ci)"),
                                 ("sound", SOUND.format(jbound="j", ibound="ci"))] + _COMMON),
        2: dict(inv=_INNER + [("op", _M.format(c="i") + " and length == cigartuples[i][1] and cigar_op == cigartuples[i][0]")]),
        3: dict(inv=_INNER + [("op", "cigartuples[i][0] == 2 and length == cigartuples[i][1]")]),
        4: dict(inv=_INNER + [("op", "cigartuples[i][0] == 3 and length == cigartuples[i][1]")]),
    },
    extra={"yields": Y},
    props=["C06"])


def canary():
    import copy
    c = copy.copy(R.contracts["_iterate_cigar"])
    c.ensures = [("wrong", "forall(k, implies(0 <= k and k < len(__yielded__), " + _M.format(c="__yielded__[k][1]") + "))")]     # "variants are only ever reported inside matches"
    return c


R.canaries.append(("_variants.pyx:canary#yields-only-in-matches", canary))
