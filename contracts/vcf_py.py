"""Contracts for whatshap/vcf.py over the axiomatised pysam model (contracts/pysam_model.py).

PhasedVcfWriter._remove_existing_phasing (C09: every phase statement for a target sample stems from the new run; C04: nothing else changes):
for every target sample's call HP and PS are cleared when the record has them, no allele keeps a phase bit when the record has GT, a fully known
genotype becomes sorted(genotype) and any other genotype is left as it was; calls of samples that are not targets, the FORMAT keys and every
other record are untouched.  Samples are identified by their index in the record's sample list."""
import z3
from vcgen.api import *  # noqa
from contracts import pysam_model as PM

R = Registry("whatshap/vcf.py")
PM.install(R)
R.declare_class("PVW", {})
_arrs, _keys = PM._arrs, PM._keys


def _tagnone(eng, st):
    return eng.heap_arr(st, "Call.tag_none#dom", z3.ArraySort(z3.IntSort(), z3.BoolSort()))


def _cleared(eng, st, c, r):
    """HP/PS of call c are None now if the record has the key; every other tag's None-ness is as on entry"""
    K = _keys(eng)
    tn, tn0 = _tagnone(eng, st), _tagnone(eng, st.old)
    fmt = _arrs(eng, st.old)["fmt"]
    t = z3.Int(fresh_name("t"))
    return forall_pat([t], tn[c][t] == z3.If(z3.And(z3.Or(t == K["HP"], t == K["PS"]), fmt[r][t]), True, tn0[c][t]), [tn[c][t]])


@R.spec
def target_done(eng, st, c, r):
    a, a0 = _arrs(eng, st), _arrs(eng, st.old)
    c, r = to_z3(c), to_z3(r)
    K = _keys(eng)
    return z3.And(_cleared(eng, st, c, r), z3.If(a0["fmt"][r][K["GT"]], PM._call_done(a, a0, c), PM._call_untouched(a, a0, c)))


@R.spec
def untouched(eng, st, c):
    a, a0 = _arrs(eng, st), _arrs(eng, st.old)
    c = to_z3(c)
    return z3.And(PM._call_untouched(a, a0, c), _tagnone(eng, st)[c] == _tagnone(eng, st.old)[c])


@R.spec
def OTHER_CALLS_SAME(eng, st, record):
    """frame: a call that belongs to another record keeps every field"""
    r = to_z3(record)
    a, a0 = _arrs(eng, st), _arrs(eng, st.old)
    owner = eng.heap_arr(st, "Call.rec", z3.IntSort())
    n = z3.Int(fresh_name("n"))
    return forall_pat([n], z3.Implies(owner[n] != r, z3.And(PM._call_untouched(a, a0, n), _tagnone(eng, st)[n] == _tagnone(eng, st.old)[n])),
                      [a["gt"][n], a["ph"][n], _tagnone(eng, st)[n], owner[n]])


@R.spec
def gt_ascending_if_known(eng, st, c):
    """a fully known genotype lists its alleles in ascending order (what the HP encoding is read against, see _extract_HP_phase)"""
    a = _arrs(eng, st)
    c = to_z3(c)
    i, j = z3.Ints(fresh_name("i") + " " + fresh_name("j"))
    val = lambda k: PM.OPTINT.dt.val(a["gt"][c][k])
    known = z3.ForAll([i], z3.Implies(z3.And(i >= 0, i < a["gtlen"][c]), z3.Not(PM.OPTINT.dt.is_none(a["gt"][c][i]))))
    return z3.Implies(z3.And(z3.Not(a["none"][c]), known), z3.ForAll([i, j], z3.Implies(z3.And(0 <= i, i < j, j < a["gtlen"][c]), val(i) <= val(j))))


_IS_TARGET = "exists(s, 0 <= s and s < %s and samples[s] == j)"
_POST = ("forall(j, implies(0 <= j and j < len(record.calls), "
         "ite(" + _IS_TARGET + ", target_done(record.calls[j], record), untouched(record.calls[j]))))")

R.contract(
    "PhasedVcfWriter._remove_existing_phasing", params={"self": REF("PVW"), "record": REF("Record"), "samples": LIST(INT)},
    requires=[
        ("calls-valid", "forall(j, implies(0 <= j and j < len(record.calls), record.calls[j] is not None and record.calls[j].rec is record))"),
        ("calls-distinct", "forall(j, j2, implies(0 <= j and j < j2 and j2 < len(record.calls), record.calls[j] is not record.calls[j2]))"),
        ("samples-valid", "forall(s, implies(0 <= s and s < len(samples), 0 <= samples[s] and samples[s] < len(record.calls)))"),
        ("samples-distinct", "forall(s, s2, implies(0 <= s and s < s2 and s2 < len(samples), samples[s] != samples[s2]))"),
        ("not-written-yet", "not record.frozen"),
    ],
    ensures=[("old-phase-removed-for-targets-only", _POST % "len(samples)"), ("calls-of-other-records-untouched", "OTHER_CALLS_SAME(record)"),
             ("target-genotypes-ascending", "implies(tag('GT') in record.fmt, forall(j, implies(0 <= j and j < len(record.calls) and " + (_IS_TARGET % "len(samples)") + ", gt_ascending_if_known(record.calls[j]))))")],
    modifies=["Call.gt", "Call.gt_none", "Call.ph", "Call.tag_none"],
    loops={0: dict(index="si", modifies=["Call.gt", "Call.gt_none", "Call.ph", "Call.tag_none"], inv=[("progress", _POST % "si"), ("others", "OTHER_CALLS_SAME(record)"),
                                                                                                                 ("ascending", "implies(tag('GT') in record.fmt, forall(j, implies(0 <= j and j < len(record.calls) and " + (_IS_TARGET % "si") + ", gt_ascending_if_known(record.calls[j]))))")])},
    props=["C09", "C04"])


def canary():
    import copy
    c = copy.copy(R.contracts["PhasedVcfWriter._remove_existing_phasing"])
    c.ensures = [("wrong", "forall(j, implies(0 <= j and j < len(record.calls), target_done(record.calls[j], record)))")]   # "every sample is unphased, target or not"
    return c


R.canaries.append(("vcf.py:canary#all-samples-unphased", canary))


@R.spec
def ONLY_THIS_CALL(eng, st, call):
    """frame: the fields of every other call are as before"""
    c = to_z3(call)
    n = z3.Int(fresh_name("n"))
    A, I, B = z3.ArraySort, z3.IntSort(), z3.BoolSort()
    eqs = []
    for key, srt in (("Call.gt#arr", A(I, PM.OPTINT.dt)), ("Call.gt#len", I), ("Call.gt_none", B), ("Call.ph#dom", A(I, B)), ("Call.tag_none#dom", A(I, B)),
                     ("Call.tag_int#dom", A(I, B)), ("Call.tag_int#map", A(I, I)), ("Call.tag_list#dom", A(I, B)), ("Call.tag_list#map", A(I, I))):
        eqs.append(eng.heap_arr(st, key, srt)[n] == eng.heap_arr(st.old, key, srt)[n])
    return z3.ForAll([n], z3.Implies(n != c, z3.And(*eqs)))


# ---- PhasedVcfWriter._set_PS (C03: the phase set id written is component + 1; C09: GT carries the haplotype alleles in order, every allele after
# the first is marked phased)
R.contract(
    "PhasedVcfWriter._set_PS",
    params={"self": REF("PVW"), "call": REF("Call"), "component": INT, "phase": LIST(INT), "haploid_component": MAYBE(LIST(INT))},
    requires=[("owner", "call.rec is not None and not call.rec.frozen")],
    ensures=[
        ("ps-is-component-plus-one", "tag('PS') in call.tag_int and call.tag_int[tag('PS')] == component + 1 and tag('PS') not in call.tag_none"),
        ("gt-is-the-phase-in-order", "len(call.gt) == len(phase) and forall(i, implies(0 <= i and i < len(phase), call.gt[i] == phase[i])) and not call.gt_none"),
        ("all-alleles-phased", "forall(i, implies(1 <= i, i in call.ph))"),
        ("hs-only-when-given", "implies(haploid_component is None or len(haploid_component) == 0, forall(t, (t in call.tag_list) == old(t in call.tag_list)))"),
        ("other-tags-as-before", "forall(t, implies(t != tag('PS') and t != tag('HS'), (t in call.tag_none) == old(t in call.tag_none)))"),
        ("only-this-call", "ONLY_THIS_CALL(call)"),
    ],
    modifies=["Call.gt", "Call.gt_none", "Call.ph", "Call.tag_none", "Call.tag_int", "Call.tag_list"],
    extra={"assume_asserts": [0]},
    props=["C03", "C09"])


# ---- PhasedVcfWriter._set_HP: the HP value is set (its text "<component+1>-<allele+1>,..." is an opaque function of component and phase: f-strings and join are
# not interpreted), HS as for _set_PS; the genotype and its phase bits are NOT touched (an HP-encoded phase lives in the tag, the GT stays unphased)
R.contract(
    "PhasedVcfWriter._set_HP",
    params={"self": REF("PVW"), "call": REF("Call"), "component": INT, "phase": LIST(INT), "haploid_component": MAYBE(LIST(INT))},
    requires=[("owner", "call.rec is not None and not call.rec.frozen")],
    ensures=[
        ("hp-is-set", "tag('HP') not in call.tag_none"),
        ("genotype-untouched", "len(call.gt) == old(len(call.gt)) and forall(i, call.gt[i] == old(call.gt[i])) and call.gt_none == old(call.gt_none) and forall(i, (i in call.ph) == old(i in call.ph))"),
        ("other-tags-as-before", "forall(t, implies(t != tag('HP') and t != tag('HS'), (t in call.tag_none) == old(t in call.tag_none)))"),
        ("only-this-call", "ONLY_THIS_CALL(call)"),
    ],
    modifies=["Call.tag_none", "Call.tag_int", "Call.tag_list"],
    extra={"assume_asserts": [0]},
    props=["C09"])


# ---------------------------------------------------------------------------------------------------------------------------------
# VcfAugmenter._iterrecords / write_unchanged (C04: records are streamed from the input in order, one chromosome at a time; chromosomes that are
# not phased are written back untouched).  self._reader_iter is an iterator OBJECT over the file's records (items + cursor): a for loop over it consumes.
R.declare_class("RecIter", {"items": LIST(REF("Record")), "cursor": INT})
R.declare_class("Aug", {"_unprocessed_record": REF("Record"), "_reader_iter": REF("RecIter"), "_writer": REF("Writer")})
R.iterator_models["RecIter"] = ("items", "cursor")

_IT = "self._reader_iter"
_OFF = "(0 if old(self._unprocessed_record) is None else 1)"
_TAKEN = "(len(__yielded__) - " + _OFF + ")"
_STREAM = [
    ("yields-records", "forall(k, implies(0 <= k and k < len(__yielded__), __yielded__[k] is not None))"),
    ("pending-record-first", "implies(old(self._unprocessed_record) is not None, len(__yielded__) >= 1 and __yielded__[0] is old(self._unprocessed_record))"),
    ("then-the-next-records-of-this-chromosome-in-file-order", "len(__yielded__) >= " + _OFF + " and forall(k, implies(0 <= k and k < " + _TAKEN + ", "
        "__yielded__[" + _OFF + " + k] is " + _IT + ".items[old(" + _IT + ".cursor) + k] and " + _IT + ".items[old(" + _IT + ".cursor) + k].chrom == chromosome))"),
    ("stops-exactly-at-the-first-record-of-another-chromosome-and-keeps-it",
        "(old(" + _IT + ".cursor) + " + _TAKEN + " == len(" + _IT + ".items) and " + _IT + ".cursor == len(" + _IT + ".items) and self._unprocessed_record is old(self._unprocessed_record)) or "
        "(old(" + _IT + ".cursor) + " + _TAKEN + " < len(" + _IT + ".items) and " + _IT + ".items[old(" + _IT + ".cursor) + " + _TAKEN + "].chrom != chromosome and "
        + _IT + ".cursor == old(" + _IT + ".cursor) + " + _TAKEN + " + 1 and self._unprocessed_record is " + _IT + ".items[old(" + _IT + ".cursor) + " + _TAKEN + "])"),
]
_IT_REQ = [
    ("iterator-valid", "self._reader_iter is not None and 0 <= " + _IT + ".cursor and " + _IT + ".cursor <= len(" + _IT + ".items) and "
                       "forall(k, implies(0 <= k and k < len(" + _IT + ".items), " + _IT + ".items[k] is not None))"),
    ("pending-record-belongs-to-this-chromosome", "implies(self._unprocessed_record is not None, self._unprocessed_record.chrom == chromosome)"),
    ("chromosomes-are-asked-for-in-file-order", "implies(self._unprocessed_record is None and " + _IT + ".cursor < len(" + _IT + ".items), " + _IT + ".items[" + _IT + ".cursor].chrom == chromosome)"),
]
R.contract(
    "VcfAugmenter._iterrecords", params={"self": REF("Aug"), "chromosome": INT},
    requires=_IT_REQ, ensures=_STREAM,
    modifies=["RecIter.cursor", "Aug._unprocessed_record"],
    locals={"n": INT, "record": REF("Record")},
    loops={0: dict(index="ci", inv=[
        ("count", "n == " + _OFF + " + (ci - old(" + _IT + ".cursor)) and len(__yielded__) == n"),
        ("first", "implies(old(self._unprocessed_record) is not None, __yielded__[0] is old(self._unprocessed_record))"),
        ("taken", "forall(k, implies(0 <= k and k < ci - old(" + _IT + ".cursor), __yielded__[" + _OFF + " + k] is " + _IT + ".items[old(" + _IT + ".cursor) + k] and "
                  + _IT + ".items[old(" + _IT + ".cursor) + k].chrom == chromosome))"),
        ("non-null", "forall(k, implies(0 <= k and k < len(__yielded__), __yielded__[k] is not None))"),
        ("pending-kept", "self._unprocessed_record is old(self._unprocessed_record) and self._reader_iter is old(self._reader_iter)")])},
    extra={"yields": REF("Record"), "nullable": {}},
    props=["C04"])

_W = "self._writer.written"
_WSTREAM = [(t, c.replace("len(__yielded__)", "(len(" + _W + ") - old(len(" + _W + ")))").replace("__yielded__[", _W + "[old(len(" + _W + ")) + ")) for t, c in _STREAM]
R.contract(
    "VcfAugmenter.write_unchanged", params={"self": REF("Aug"), "chromosome": INT},
    requires=_IT_REQ + [("writer", "self._writer is not None")],
    ensures=[("earlier-output-kept", "forall(k, implies(0 <= k and k < old(len(" + _W + ")), " + _W + "[k] is old(" + _W + "[k])))")] + _WSTREAM,
    modifies=["RecIter.cursor", "Aug._unprocessed_record", "Writer.written", "Record.frozen"],
    locals={"record": REF("Record")},
    loops={0: dict(index="wi", modifies=["Writer.written", "Record.frozen"],
                   inv=[("written", "len(" + _W + ") == old(len(" + _W + ")) + wi and forall(k, implies(0 <= k and k < wi, " + _W + "[old(len(" + _W + ")) + k] is seq(0)[k]))"),
                        ("earlier", "forall(k, implies(0 <= k and k < old(len(" + _W + ")), " + _W + "[k] is old(" + _W + "[k])))"),
                        ("same-writer", "self._writer is old(self._writer) and self._writer is not None")])},
    props=["C04"])


# ---------------------------------------------------------------------------------------------------------------------------------
# VcfReader._extract_GT_PS_phase (C09: the decoder of GT/PS phase) and the ROUND TRIP with the writer's _set_PS as a client lemma over the two contracts
OPTINT = PM.OPTINT
R.declare_class("VariantCallPhase", {"block_id": INT, "phase": LIST(OPTINT), "quality": OPTINT})
R.ctor_fields["VariantCallPhase"] = ["block_id", "phase", "quality"]
_SAME_GT = "forall(i, implies(0 <= i and i < len(call.gt), call.gt[i] == call.gt[0]))"
R.contract(
    "VcfReader._extract_GT_PS_phase", params={"call": REF("Call")}, returns=REF("VariantCallPhase"),
    requires=[("has-genotype", "not call.gt_none and len(call.gt) >= 1")],
    ensures=[
        ("a-phase-is-reported-exactly-for-phased-heterozygous-calls", "(result is None) == (not call.phased or " + _SAME_GT + ")"),
        ("the-phase-is-the-genotype-in-order", "implies(result is not None, len(result.phase) == len(call.gt) and forall(i, implies(0 <= i and i < len(call.gt), result.phase[i] == call.gt[i])))"),
        ("the-block-is-the-PS-value", "implies(result is not None and tag('PS') in call.tag_int and tag('PS') not in call.tag_none, result.block_id == call.tag_int[tag('PS')])"),
    ],
    modifies=[], extra={"allocates": ["VariantCallPhase"], "nullable": {"result": True}},
    props=["C09"])

R.client_lemmas["L#set_PS-then-extract_GT_PS_phase"] = '''
def roundtrip(self, call, component, phase, haploid_component):
    self._set_PS(call, component, phase, haploid_component)
    decoded = _extract_GT_PS_phase(call)
    return decoded
'''
R.contract(
    "L#set_PS-then-extract_GT_PS_phase",
    params={"self": REF("PVW"), "call": REF("Call"), "component": INT, "phase": LIST(INT), "haploid_component": MAYBE(LIST(INT))}, returns=REF("VariantCallPhase"),
    requires=[("owner", "call.rec is not None and not call.rec.frozen"), ("heterozygous-phase", "len(phase) >= 2 and exists(i, 0 <= i and i < len(phase) and phase[i] != phase[0])")],
    ensures=[("round-trip", "result is not None and result.block_id == component + 1 and len(result.phase) == len(phase) and "
                            "forall(i, implies(0 <= i and i < len(phase), result.phase[i] == phase[i]))")],
    modifies=["Call.gt", "Call.gt_none", "Call.ph", "Call.tag_none", "Call.tag_int", "Call.tag_list"],
    extra={"allocates": ["VariantCallPhase"], "nullable": {"result": True}},
    props=["C09"])


def canary_extract():
    import copy
    c = copy.copy(R.contracts["VcfReader._extract_GT_PS_phase"])
    c.ensures = [("wrong", "(result is None) == (not call.phased)")]      # "homozygous phased calls are reported too"
    return c


R.canaries.append(("vcf.py:canary#extract-reports-homozygous-calls", canary_extract))


def canary_roundtrip():
    import copy
    c = copy.copy(R.contracts["L#set_PS-then-extract_GT_PS_phase"])
    c.ensures = [("wrong", "result is not None and result.block_id == component")]      # "the phase set id is the component itself"
    return c


R.canaries.append(("vcf.py:canary#round-trip-off-by-one", canary_roundtrip))


# "never mix old and new phase", at the level of the decoder: once _remove_existing_phasing has run for a sample, the GT/PS decoder reports NO phase for that
# sample's call (unless the run writes a new one afterwards) -- a client lemma over the two contracts.  A diploid-or-higher call loses its phase bits; a haploid
# call (vacuously "phased" in pysam) is homozygous by definition.
R.client_lemmas["L#remove_existing_phasing-then-extract_GT_PS_phase"] = '''
def removed_then_decoded(self, record, samples, j):
    self._remove_existing_phasing(record, samples)
    call = record.samples[j]
    return _extract_GT_PS_phase(call)
'''
R.contract(
    "L#remove_existing_phasing-then-extract_GT_PS_phase",
    params={"self": REF("PVW"), "record": REF("Record"), "samples": LIST(INT), "j": INT}, returns=REF("VariantCallPhase"),
    requires=list(R.contracts["PhasedVcfWriter._remove_existing_phasing"].requires) + [
        ("a-target-sample-with-a-genotype", "0 <= j and j < len(record.calls) and exists(s, 0 <= s and s < len(samples) and samples[s] == j) and "
                                            "tag('GT') in record.fmt and not record.calls[j].gt_none and len(record.calls[j].gt) >= 1")],
    ensures=[("no-stale-phase-is-decoded", "result is None")],
    modifies=["Call.gt", "Call.gt_none", "Call.ph", "Call.tag_none"],
    extra={"allocates": ["VariantCallPhase"], "nullable": {"result": True}},
    props=["C09"])
