"""Loop-body contract for the record pass of whatshap/vcf.py:PhasedVcfWriter.write (C04, C09, C03).

Unit under verification: loop 3 of `write` (`for record in self._record_modifier(chromosome)`), with its free variables as parameters: the per-sample
dictionaries built before the loop (components, phases, genotypes, haploid components), the writer object and the sequence `records` the record modifier
yields (ghost name).  What the loop must do to EVERY record it is handed, whichever `continue` it takes:

  * a call of a sample that is NOT being phased is not touched (C04);
  * a call of a sample that is being phased ends in one of two states (C09 "never mix old and new phase", C03 naming):
      NEW   its genotype is the haplotype alleles `phases[sample][pos]` in order, every allele after the first carries the phase bit, and with --tag=PS
            the PS value is `components[sample][pos] + 1` (the phase set is named by the 1-based position of its leftmost variant, see find_components);
      NONE  no allele carries a phase bit (when the record has GT) and HP / PS are missing wherever the record has those keys -- whatever the input said;
  * no record is modified after it was handed on (pysam serialises at write time: `Record.frozen` protocol of the pysam model).

Callees: `_remove_existing_phasing` through its PROVED contract (contracts/vcf_py.py); `self._set_phasing_tags` is the bound method `_set_PS` or `_set_HP`
chosen in __init__: its contract here is `_set_PS`'s PROVED postcondition under `self.tag == 'PS'` and `_set_HP`'s PROVED postcondition under `self.tag == 'HP'`
(both in contracts/vcf_py.py); what is assumed is only that __init__ bound the method that belongs to the tag.  `genotype_code`, `Genotype` (a C++ wrapper) and the variant / GenotypeChange
constructors are abstract values.  Not covered by this contract: which variants get phased (that is the solver's result), the genotype-change list, the
code before the loop (the dictionaries are arbitrary here) and the record modifier's write-after-yield (covered by the contracts of `_iterrecords` /
`write_unchanged` and by the bounded checks).
"""
import z3
from vcgen.api import *  # noqa
from contracts import pysam_model as PM, vcf_py as _V

R = Registry("whatshap/vcf.py")
PM.install(R)
R.import_proved(_V.R, "contracts.vcf_py", ["PhasedVcfWriter._remove_existing_phasing"])
OPTINT = PM.OPTINT
_arrs, _keys = PM._arrs, PM._keys
P = ["C04", "C09", "C03", "C02"]

R.classes["PVW"] = {"tag": INT, "_mav": BOOL, "_only_snvs": BOOL, "samples": LIST(INT), "ploidy": INT, "_phase_tag_found_warned": BOOL}
R.classes["Record"] = dict(R.classes["Record"], start=INT, ref=INT, alts=LIST(INT), alts_none=BOOL)
R.declare_class("Genotype", {"code": INT})
R.declare_class("GenotypeChange", {"sample": INT, "chromosome": INT, "variant": REF("Variant"), "old_gt": REF("Genotype"), "new_gt": REF("Genotype")})
R.ctor_fields["GenotypeChange"] = ["sample", "chromosome", "variant", "old_gt", "new_gt"]
R.declare_class("Variant", {"start": INT})

STRLEN = z3.Function("STRLEN", z3.IntSort(), z3.IntSort())
HOM = z3.Function("GENOTYPE_IS_HOMOZYGOUS", z3.IntSort(), z3.BoolSort())
GVEC = z3.Function("GENOTYPE_VECTOR", z3.IntSort(), z3.ArraySort(z3.IntSort(), z3.IntSort()))
GLEN = z3.Function("GENOTYPE_PLOIDY", z3.IntSort(), z3.IntSort())
GCODE = z3.Function("GENOTYPE_CODE_OF", z3.ArraySort(z3.IntSort(), OPTINT.dt), z3.IntSort(), z3.BoolSort(), z3.IntSort())


class StrId(VModel):
    """a string held by a pysam record (REF / an ALT allele): only its length is ever looked at"""

    def __init__(self, sid):
        self.sid = sid

    def sym_len(self, eng, st):
        return STRLEN(self.sid)

    def havoc(self, eng, st, name):
        return StrId(z3.Int(fresh_name(name)))


class AltsView(VModel):
    """record.alts: None or a tuple of strings"""

    def __init__(self, lst):
        self.lst = lst

    def sym_is_none(self):
        return self.lst.none

    def sym_truth(self, eng, st):
        return z3.And(z3.Not(self.lst.none), self.lst.len > 0)

    def sym_len(self, eng, st):
        eng.oblige(st, "noexc", z3.Not(self.lst.none), "TypeError-len-of-None")
        return self.lst.len

    def sym_getitem(self, eng, st, key):
        k = to_z3(key)
        eng.oblige(st, "noexc", z3.And(z3.Not(self.lst.none), k >= 0, k < self.lst.len), "IndexError-alts")
        return StrId(self.lst.arr[k])


_BaseRecord = PM.RecordModel


class RecordModel2:
    @staticmethod
    def getattr(eng, st, obj, name):
        if name == "ref":
            return StrId(to_z3(eng.load_field(st, obj, "ref")))
        if name == "alts":
            lst = eng.load_field(st, obj, "alts")
            lst.none = eng.load_field(st, obj, "alts_none")
            return AltsView(lst)
        return _BaseRecord.getattr(eng, st, obj, name)


class GenotypeModel:
    """whatshap.core.Genotype (C++ wrapper): an abstract value `code`; == / != compare values; is_homozygous and as_vector are functions of the value"""

    @staticmethod
    def method(eng, st, obj, name, args, kwargs):
        code = to_z3(eng.load_field(st, obj, "code"))
        if name == "is_homozygous" and not args:
            return HOM(code)
        if name == "as_vector" and not args:
            st.assume(GLEN(code) >= 0)
            return VList(INT, GVEC(code), GLEN(code))
        return NotImplemented

    @staticmethod
    def equal(eng, st, a, b):
        return to_z3(eng.load_field(st, a, "code")) == to_z3(eng.load_field(st, b, "code"))


R.object_models.update({"Record": RecordModel2, "Genotype": GenotypeModel})


def model_genotype_code(eng, st, node, args, kwargs):
    """genotype_code(gt): a Genotype whose value is a function of the genotype tuple"""
    gt = args[0]
    g = eng.allocate(st, "Genotype")
    eng.store_field(st, g, "code", GCODE(gt.arr, gt.len, gt.none if getattr(gt, "none", None) is not None else z3.BoolVal(False)))
    return g


def model_str(eng, st, node, args, kwargs):
    return args[0]


def model_tuple(eng, st, node, args, kwargs):
    return args[0]


def model_variant(eng, st, node, args, kwargs):
    """BiallelicVcfVariant / MultiallelicVcfVariant(start, ref, alt(s)): a value object that only goes into the genotype-change list"""
    v = eng.allocate(st, "Variant")
    eng.store_field(st, v, "start", to_z3(args[0]))
    return v


R.external_models.update({"genotype_code": model_genotype_code, "str": model_str, "BiallelicVcfVariant": model_variant, "MultiallelicVcfVariant": model_variant})


class WriterModel:
    """self._record_modifier(chromosome): hands out the records of the chromosome one by one = the ghost sequence `records` (each is written by the modifier
    after the loop body has run for it: not part of this unit)"""

    @staticmethod
    def method(eng, st, obj, name, args, kwargs):
        if name == "_record_modifier" and len(args) == 1:
            return st.env["records"]
        return NotImplemented


R.object_models["PVW"] = WriterModel


# ---------------------------------------------------------------------------------------------------------------- specification
def _tag(eng, st, which):
    return eng.heap_arr(st, "Call.tag_none#dom", z3.ArraySort(z3.IntSort(), z3.BoolSort())), eng.heap_arr(st, "Call.tag_int#map", z3.ArraySort(z3.IntSort(), z3.IntSort()))


@R.spec
def is_target(eng, st, j):
    return st.env["sample_superreads"].dom[to_z3(j)]


@R.spec
def call_untouched(eng, st, c):
    a, a0 = _arrs(eng, st), _arrs(eng, st.old)
    c = to_z3(c)
    tn, tn0 = _tag(eng, st, 0)[0], _tag(eng, st.old, 0)[0]
    return z3.And(PM._call_untouched(a, a0, c), tn[c] == tn0[c])


def _ascending(a, c):
    """a fully known genotype lists its alleles in ascending order"""
    i, j = z3.Ints(fresh_name("i") + " " + fresh_name("j"))
    val = lambda k: OPTINT.dt.val(a["gt"][c][k])
    known = z3.ForAll([i], z3.Implies(z3.And(i >= 0, i < a["gtlen"][c]), z3.Not(OPTINT.dt.is_none(a["gt"][c][i]))))
    return z3.Implies(z3.And(z3.Not(a["none"][c]), known), z3.ForAll([i, j], z3.Implies(z3.And(0 <= i, i < j, j < a["gtlen"][c]), val(i) <= val(j))))


@R.spec
def state_none(eng, st, c, r):
    """NONE: no phase statement left on the call (and its genotype, if fully known, in ascending allele order)"""
    a, a0 = _arrs(eng, st), _arrs(eng, st.old)
    c, r = to_z3(c), to_z3(r)
    K = _keys(eng)
    tn = _tag(eng, st, 0)[0]
    i = z3.Int(fresh_name("i"))
    nobits = forall_pat([i], z3.Implies(i >= 1, z3.Not(a["ph"][c][i])), [a["ph"][c][i]])
    return z3.And(z3.Implies(a0["fmt"][r][K["GT"]], z3.And(nobits, _ascending(a, c))), z3.Implies(a0["fmt"][r][K["HP"]], tn[c][K["HP"]]), z3.Implies(a0["fmt"][r][K["PS"]], tn[c][K["PS"]]))


@R.spec
def state_new(eng, st, c, j, pos, r):
    """NEW: the call carries exactly the phase this run computed for (sample j, position pos) in the encoding of the run's tag, and nothing of the other
    encoding: with PS the genotype is the haplotype alleles in order, every allele after the first has the phase bit, PS = component + 1 and an HP key of the
    record is empty; with HP the HP value is set (its text is _set_HP's, not verified), no allele has a phase bit and a PS key of the record is empty"""
    a, a0 = _arrs(eng, st), _arrs(eng, st.old)
    c, j, pos, r = to_z3(c), to_z3(j), to_z3(pos), to_z3(r)
    K = _keys(eng)
    tn, ti = _tag(eng, st, 0)
    comps, phases = st.env["sample_components"], st.env["sample_phases"]
    comp = from_z3(comps.map[j], comps.val)
    ph = from_z3(from_z3(phases.map[j], phases.val).map[pos], phases.val.val)
    i = z3.Int(fresh_name("i"))
    tagv = to_z3(eng.load_field_raw(st, st.env["self"], "tag"))
    with_ps = z3.And(
        z3.Not(a["none"][c]), a["gtlen"][c] == ph.len,
        forall_pat([i], z3.Implies(z3.And(0 <= i, i < ph.len), a["gt"][c][i] == OPTINT.dt.some(ph.arr[i])), [a["gt"][c][i]]),
        forall_pat([i], z3.Implies(i >= 1, a["ph"][c][i]), [a["ph"][c][i]]),
        z3.Not(tn[c][K["PS"]]), ti[c][K["PS"]] == comp.map[pos] + 1,
        z3.Implies(a0["fmt"][r][K["HP"]], tn[c][K["HP"]]))
    ascending = _ascending(a, c)
    with_hp = z3.And(
        z3.Not(tn[c][K["HP"]]),
        # the HP text is read against the order of the alleles in GT (_extract_HP_phase): a fully known genotype is in ascending order (defect F19)
        z3.Implies(a0["fmt"][r][K["GT"]], ascending),
        z3.Implies(a0["fmt"][r][K["GT"]], forall_pat([i], z3.Implies(i >= 1, z3.Not(a["ph"][c][i])), [a["ph"][c][i]])),
        z3.Implies(a0["fmt"][r][K["PS"]], tn[c][K["PS"]]))
    return z3.And(comps.dom[j], phases.dom[j], comp.dom[pos], from_z3(phases.map[j], phases.val).dom[pos], z3.If(tagv == K["PS"], with_ps, with_hp))


@R.spec
def record_done(eng, st, r):
    a0 = _arrs(eng, st.old)
    r = to_z3(r)
    j = z3.Int(fresh_name("j"))
    c = a0["calls"][r][j]
    pos = eng.heap_arr(st, "Record.start", z3.IntSort())[r]
    body = z3.If(is_target(eng, st, j), z3.Or(state_none(eng, st, c, r), state_new(eng, st, c, j, pos, r)), call_untouched(eng, st, c))
    return z3.ForAll([j], z3.Implies(z3.And(j >= 0, j < a0["ncalls"][r]), body), patterns=[a0["calls"][r][j]])


@R.spec
def record_untouched(eng, st, r):
    a0 = _arrs(eng, st.old)
    r = to_z3(r)
    j = z3.Int(fresh_name("j"))
    c = a0["calls"][r][j]
    return z3.And(z3.Not(eng.heap_arr(st, "Record.frozen", z3.BoolSort())[r]),
                  forall_pat([j], z3.Implies(z3.And(j >= 0, j < a0["ncalls"][r]), call_untouched(eng, st, c)), [a0["calls"][r][j]]))


@R.spec
def RECORDS_OK(eng, st):
    """type invariants of the records handed out (as for an opened reader): distinct records, each with its own distinct calls, not written yet"""
    recs = st.env["records"]
    calls_arr = eng.heap_arr(st, "Record.calls#arr", z3.ArraySort(z3.IntSort(), z3.IntSort()))
    calls_len = eng.heap_arr(st, "Record.calls#len", z3.IntSort())
    owner = eng.heap_arr(st, "Call.rec", z3.IntSort())
    k, k2, j, j2 = z3.Ints(" ".join(fresh_name(x) for x in ("k", "k", "j", "j")))
    nrec, ncall = eng.alloc_bound(st, "Record"), eng.alloc_bound(st, "Call")
    return [
        recs.len >= 0,
        z3.ForAll([k], z3.Implies(z3.And(k >= 0, k < recs.len), z3.And(recs.arr[k] > 0, recs.arr[k] < nrec, calls_len[recs.arr[k]] >= 0)), patterns=[recs.arr[k]]),
        z3.ForAll([k, k2], z3.Implies(z3.And(k >= 0, k < k2, k2 < recs.len), recs.arr[k] != recs.arr[k2]), patterns=[z3.MultiPattern(recs.arr[k], recs.arr[k2])]),
        z3.ForAll([k, j], z3.Implies(z3.And(k >= 0, k < recs.len, j >= 0, j < calls_len[recs.arr[k]]),
                                     z3.And(calls_arr[recs.arr[k]][j] > 0, calls_arr[recs.arr[k]][j] < ncall, owner[calls_arr[recs.arr[k]][j]] == recs.arr[k])),
                  patterns=[calls_arr[recs.arr[k]][j]]),
        z3.ForAll([k, j, j2], z3.Implies(z3.And(k >= 0, k < recs.len, j >= 0, j < j2, j2 < calls_len[recs.arr[k]]), calls_arr[recs.arr[k]][j] != calls_arr[recs.arr[k]][j2]),
                  patterns=[z3.MultiPattern(calls_arr[recs.arr[k]][j], calls_arr[recs.arr[k]][j2])]),
    ]


_DONE_BEFORE = "forall(k, implies(0 <= k and k < %s, record_done(records[k])))"
_UNTOUCHED_FROM = "forall(k, implies(%s <= k and k < len(records), record_untouched(records[k])))"
_ALLOC = ["Genotype", "GenotypeChange", "Variant"]
_MOD = ["Call.gt", "Call.gt_none", "Call.ph", "Call.tag_none", "Call.tag_int", "Call.tag_list", "PVW._phase_tag_found_warned"]

# self._set_phasing_tags: _set_PS's proved postcondition when the tag is PS, _set_HP's proved postcondition when it is HP (assumed: __init__ binds accordingly)
R.contract(
    "PhasedVcfWriter._set_phasing_tags", assumed=True,
    params={"self": REF("PVW"), "call": REF("Call"), "component": INT, "phase": LIST(INT), "haploid_component": MAYBE(LIST(INT))},
    requires=[("owner", "call.rec is not None and not call.rec.frozen")],
    ensures=[
        # tag == PS: the postcondition of _set_PS as proved in contracts/vcf_py.py
        ("ps-is-component-plus-one", "implies(self.tag == tag('PS'), tag('PS') in call.tag_int and call.tag_int[tag('PS')] == component + 1 and tag('PS') not in call.tag_none)"),
        ("ps-gt-is-the-phase-in-order", "implies(self.tag == tag('PS'), len(call.gt) == len(phase) and forall(i, implies(0 <= i and i < len(phase), call.gt[i] == phase[i])) and not call.gt_none)"),
        ("ps-all-alleles-phased", "implies(self.tag == tag('PS'), forall(i, implies(1 <= i, i in call.ph)))"),
        ("ps-other-tags-as-before", "implies(self.tag == tag('PS'), forall(t, implies(t != tag('PS') and t != tag('HS'), (t in call.tag_none) == old(t in call.tag_none))))"),
        # tag == HP: the postcondition of _set_HP as proved in contracts/vcf_py.py (HP set, HS as given, genotype and phase bits untouched)
        ("hp-is-set", "implies(self.tag == tag('HP'), tag('HP') not in call.tag_none)"),
        ("hp-genotype-untouched", "implies(self.tag == tag('HP'), GT_SAME(call) and forall(t, implies(t != tag('HP') and t != tag('HS'), (t in call.tag_none) == old(t in call.tag_none))))"),
        ("only-this-call", "ONLY_CALL(call)"),
    ],
    modifies=["Call.gt", "Call.gt_none", "Call.ph", "Call.tag_none", "Call.tag_int", "Call.tag_list"],
    extra={"target": None}, props=P)


@R.spec
def GT_SAME(eng, st, call):
    a, a0 = _arrs(eng, st), _arrs(eng, st.old)
    return PM._call_untouched(a, a0, to_z3(call))


@R.spec
def ONLY_CALL(eng, st, call):
    """frame of _set_phasing_tags: the fields of every other call are as before"""
    c = to_z3(call)
    n = z3.Int(fresh_name("n"))
    A, I, B = z3.ArraySort, z3.IntSort(), z3.BoolSort()
    eqs = []
    for key, srt in (("Call.gt#arr", A(I, OPTINT.dt)), ("Call.gt#len", I), ("Call.gt_none", B), ("Call.ph#dom", A(I, B)), ("Call.tag_none#dom", A(I, B)),
                     ("Call.tag_int#dom", A(I, B)), ("Call.tag_int#map", A(I, I)), ("Call.tag_list#dom", A(I, B)), ("Call.tag_list#map", A(I, I))):
        eqs.append(eng.heap_arr(st, key, srt)[n] == eng.heap_arr(st.old, key, srt)[n])
    return z3.ForAll([n], z3.Implies(n != c, z3.And(*eqs)))


R.contract(
    "PhasedVcfWriter.write#record-pass",
    params={"self": REF("PVW"), "chromosome": INT, "records": LIST(REF("Record")),
            "sample_superreads": DICT(INT, INT), "sample_components": DICT(INT, DICT(INT, INT)),
            "sample_haploid_components": MAYBE(DICT(INT, DICT(INT, LIST(INT)))), "sample_phases": DICT(INT, DICT(INT, LIST(INT))),
            "sample_genotypes": DICT(INT, DICT(INT, REF("Genotype"))), "genotype_changes": LIST(REF("GenotypeChange")), "prev_pos": OPT(INT)},
    requires=[
        ("records", "RECORDS_OK()"),
        ("not-written-yet", "forall(k, implies(0 <= k and k < len(records), not records[k].frozen))"),
        ("samples-are-columns", "forall(k, s, implies(0 <= k and k < len(records) and s in sample_superreads, 0 <= s and s < len(records[k].calls)))"),
        ("per-sample-results", "forall(s, implies(s in sample_superreads, s in sample_components and s in sample_phases and s in sample_genotypes))"),
        ("tag", "self.tag == tag('PS') or self.tag == tag('HP')"),
        ("haploid-components-per-sample", "implies(sample_haploid_components is not None, forall(s, implies(s in sample_superreads, s in sample_haploid_components)))"),
        ("genotypes-valid", "forall(s, p, implies(s in sample_genotypes and p in sample_genotypes[s], sample_genotypes[s][p] is not None))"),
    ],
    ensures=[("every-record-handed-out-is-left-with-new-phase-or-none-and-other-samples-untouched", _DONE_BEFORE % "len(records)")],
    modifies=_MOD, mutates=["genotype_changes"],
    locals={"record": REF("Record"), "pos": INT, "is_snv": BOOL, "sample": INT, "call": REF("Call"), "is_het": BOOL, "gt_type": REF("Genotype"),
            "variant": REF("Variant")},
    loops={
        3: dict(index="ri", modifies=_MOD, allocates=_ALLOC, inv=[("done", _DONE_BEFORE % "ri"), ("rest-untouched", _UNTOUCHED_FROM % "ri")]),
        4: dict(index="si", inv=[]),
        5: dict(index="ti", modifies=_MOD, allocates=_ALLOC,
                inv=[("done", _DONE_BEFORE % "ri"), ("rest-untouched", _UNTOUCHED_FROM % "(ri + 1)"), ("not-written", "not record.frozen"),
                     ("this-record", "forall(j, implies(0 <= j and j < len(record.calls), "
                                     "ite(is_target(j), ite(visited(5, j), state_none(record.calls[j], record) or state_new(record.calls[j], j, pos, record), "
                                     "state_none(record.calls[j], record)), call_untouched(record.calls[j]))))")]),
    },
    extra={"target": "PhasedVcfWriter.write", "loop_slice": 3, "allocates": ["Genotype", "GenotypeChange", "Variant"]},
    props=P)


def canary():
    import copy
    c = copy.copy(R.contracts["PhasedVcfWriter.write#record-pass"])
    c.ensures = [("wrong", "forall(k, j, implies(0 <= k and k < len(records) and 0 <= j and j < len(records[k].calls) and is_target(j), state_none(records[k].calls[j], records[k])))")]
    return c        # "no call is ever phased"


R.canaries.append(("vcf.py:canary#write-never-phases", canary))
