"""./check driver: build /repo's working tree, run the deductive part (vcgen) and the bounded stand-in
(runtime contracts) of one property, apply known findings, write evidence, set the exit code.

Exit codes: 0 held on everything explored; 1 violation (VIOLATION lines); 3 machinery error.
"""
import argparse
import importlib
import json
import os
import subprocess
import sys
import time
import traceback

ROOT = os.path.dirname(os.path.dirname(os.path.abspath(__file__)))
REPO = os.environ.get("VERIF_REPO", "/repo")


def ensure_build():
    p = subprocess.run([sys.executable, os.path.join(ROOT, "tools", "ensure_build.py")], stdout=subprocess.PIPE,
                       stderr=subprocess.PIPE, text=True, env=dict(os.environ, VERIF_REPO=REPO))
    if p.returncode != 0:
        print("MACHINERY-ERROR build of %s failed:\n%s" % (REPO, p.stderr[-3000:]))
        sys.exit(3)
    return p.stdout.strip().split("\n")[-1]


def main():
    ap = argparse.ArgumentParser()
    ap.add_argument("prop")
    ap.add_argument("--tier", default=os.environ.get("VERIF_TIER", "quick"), choices=["quick", "thorough"])
    ap.add_argument("--replay")
    ap.add_argument("--no-d", action="store_true", help="skip the deductive part (debugging)")
    ap.add_argument("--no-b", action="store_true", help="skip the bounded part (debugging)")
    ap.add_argument("--only", help="run only bounded checks whose name contains this")
    args = ap.parse_args()
    seed = int(os.environ.get("VERIF_SEED", "20260929") or 0)
    t0 = time.time()
    build = ensure_build()
    sys.path.insert(0, build)
    os.environ["PYTHONPATH"] = build + os.pathsep + ROOT + os.pathsep + os.environ.get("PYTHONPATH", "")
    os.environ["VERIF_BUILD"] = build
    sys.path.insert(1, ROOT)
    import whatshap
    if not os.path.abspath(whatshap.__file__).startswith(os.path.abspath(build)):
        print("MACHINERY-ERROR imported whatshap from %s, not from the fresh build %s" % (whatshap.__file__, build))
        sys.exit(3)
    from harness import runner
    try:
        mod = importlib.import_module("props." + args.prop)
    except ModuleNotFoundError as e:
        print("MACHINERY-ERROR no check for property %s (%s)" % (args.prop, e))
        sys.exit(3)
    if args.replay:
        _leave(runner.replay(mod, args.prop, args.replay))
    try:
        code = runner.run_property(mod, args.prop, args.tier, seed, build, t0, skip_d=args.no_d, skip_b=args.no_b, only=args.only)
    except SystemExit:
        raise
    except Exception:
        traceback.print_exc()
        print("MACHINERY-ERROR unexpected exception in the check driver")
        code = 3
    # leave without running interpreter teardown: z3's Python objects (contexts, cached ASTs) and the compiled whatshap/pysam modules have been seen to crash
    # during finalisation (exit status -11 after a complete, correct run); everything is flushed and written at this point
    _leave(code)


def _leave(code):
    """flush, stop every worker process this run started (they would keep the caller's pipes open), leave without interpreter teardown"""
    sys.stdout.flush()
    sys.stderr.flush()
    try:
        import multiprocessing
        for p in multiprocessing.active_children():
            p.kill()
        for p in multiprocessing.active_children():
            p.join(2)
    except Exception:
        pass
    os._exit(code)


if __name__ == "__main__":
    main()
