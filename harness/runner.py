"""Runs one property: deductive part (D/L obligations via vcgen), bounded part (B runtime contracts),
known findings, evidence, verdict."""
import hashlib
import importlib
import json
import os
import random
import sys
import time
import traceback
from concurrent.futures import ProcessPoolExecutor

ROOT = os.path.dirname(os.path.dirname(os.path.abspath(__file__)))
OUT = os.environ.get("VERIF_OUT", ROOT)     # where evidence/ and replays/ are written (redirected by tools/seed_matrix.py)
MAX_REPORTED = 3


# ----------------------------------------------------------------------------- known findings
def load_findings(prop):
    p = os.path.join(ROOT, "known_findings.json")
    if not os.path.exists(p):
        return []
    with open(p) as f:
        data = json.load(f)
    return [e for e in data.get("findings", []) if e.get("property") == prop and e.get("status") == "finding"]


def match_finding(findings, check=None, input=None, failure=None, obligation=None):
    for e in findings:
        m = e.get("match", {})
        if obligation is not None:
            if m.get("obligation") == obligation:
                return e
            continue
        if m.get("check") != check:
            continue
        pred = m.get("predicate", "True")
        try:
            ok = eval(pred, {"__builtins__": {"len": len, "any": any, "all": all, "max": max, "min": min, "set": set,
                                              "str": str, "int": int, "isinstance": isinstance, "sorted": sorted, "sum": sum}},
                      {"input": input, "failure": failure})
        except Exception:
            ok = False
        if ok:
            return e
    return None


# ----------------------------------------------------------------------------- bounded part
class BCheck:
    """Base class of a bounded stand-in: a runtime contract on real callables + input enumeration."""
    name = "?"
    contract = "?"          # human-readable contract statement (what is asserted)
    rule = "?"              # how inputs are generated and what counts as non-trivial
    exhaustive_in = ()      # tiers in which the enumeration covers its stated finite space completely
    parallel = True
    chunk = 100
    budget_s = {"quick": 60, "thorough": 900}

    def inputs(self, tier, rng):
        raise NotImplementedError

    def check(self, input):
        """Return None if the contract holds on this input, else a dict(expected=..., observed=...)."""
        raise NotImplementedError

    def nontrivial(self, input):
        return True

    def prepare(self):
        """Called once per process before check() (substitute wrappers etc.)."""


_prepared = {}


def _get_check(modname, cname):
    key = (modname, cname)
    if key not in _prepared:
        mod = importlib.import_module(modname)
        try:
            import pysam
            pysam.set_verbosity(0)   # htslib warnings about generated headers are noise here
        except Exception:
            pass
        for c in mod.B_CHECKS:
            if c.name == cname:
                c.prepare()
                _prepared[key] = c
                break
        else:
            raise KeyError(cname)
    return _prepared[key]


def _run_chunk(args):
    modname, cname, inputs = args
    chk = _get_check(modname, cname)
    out = []
    for inp in inputs:
        try:
            r = chk.check(inp)
        except Exception as e:   # an exception escaping the real code under a satisfied precondition is a contract failure
            r = dict(expected="no exception", observed="%s: %s" % (type(e).__name__, str(e)[:300]),
                     traceback=traceback.format_exc()[-1500:])
        nt = False
        try:
            nt = bool(chk.nontrivial(inp))
        except Exception:
            pass
        out.append((r, nt))
    return out


def _isolated_child(conn, modname, cname, inputs):
    for inp in inputs:
        (r,) = _run_chunk((modname, cname, [inp]))
        conn.send(r)
    conn.close()


def _run_isolated(modname, cname, inputs):
    import multiprocessing as mp
    parent, child = mp.Pipe(duplex=False)
    p = mp.Process(target=_isolated_child, args=(child, modname, cname, inputs))
    p.start()
    child.close()
    results = []
    try:
        while len(results) < len(inputs):
            if parent.poll(120):
                results.append(parent.recv())
            else:
                break
    except (EOFError, OSError):
        pass
    p.join(5)
    if p.is_alive():
        p.kill()
    crashed_at = len(results) if len(results) < len(inputs) else None
    return results, crashed_at


def run_bcheck(modname, chk, tier, seed, deadline):
    rng = random.Random("%s/%s/%d" % (chk.name, tier, seed))
    t0 = time.time()
    evaluations = 0
    distinct = set()
    nontrivial = 0
    failures = []
    samples = []
    truncated = False
    budget = chk.budget_s.get(tier, 60)
    stop_at = min(deadline, t0 + budget)

    rounds = [1]

    def input_stream():
        yield from chk.inputs(tier, rng)
        # thorough tier: further rounds of the seeded generators with fresh seeds while less than half of the check's time budget is used
        # (exhaustively enumerated inputs repeat and are counted once in `distinct`)
        while tier == "thorough" and tier not in chk.exhaustive_in and time.time() < t0 + 0.5 * budget and rounds[0] < 12 and time.time() < stop_at:
            rounds[0] += 1
            yield from chk.inputs(tier, random.Random("%s/%s/%d/round%d" % (chk.name, tier, seed, rounds[0])))

    def batches():
        batch = []
        for inp in input_stream():
            batch.append(inp)
            if len(batch) >= chk.chunk:
                yield batch
                batch = []
        if batch:
            yield batch

    def account(batch, results):
        nonlocal evaluations, nontrivial
        for inp, (r, nt) in zip(batch, results):
            evaluations += 1
            key = hashlib.sha1(json.dumps(inp, sort_keys=True, default=str).encode()).digest()[:10]
            if key not in distinct:
                distinct.add(key)
                if nt:
                    nontrivial += 1
            if len(samples) < 3 and nt:
                samples.append(inp)
            if r is not None:
                failures.append((inp, r))

    if chk.parallel:
        lost = []   # batches whose worker process died (segfault / abort inside the code under check)
        ex = ProcessPoolExecutor(max_workers=min(16, os.cpu_count() or 4))
        try:
            pending = []

            def collect(b, fut):
                try:
                    account(b, fut.result())
                except Exception:
                    lost.append(b)
            for batch in batches():
                try:
                    pending.append((batch, ex.submit(_run_chunk, (modname, chk.name, batch))))
                except Exception:   # pool already broken
                    lost.append(batch)
                    ex.shutdown(wait=False, cancel_futures=True)
                    ex = ProcessPoolExecutor(max_workers=min(16, os.cpu_count() or 4))
                while len(pending) >= 32:
                    collect(*pending.pop(0))
                if time.time() > stop_at or len(lost) > 40:
                    truncated = True
                    break
            for b, fut in pending:
                collect(b, fut)
        finally:
            ex.shutdown(wait=False, cancel_futures=True)
        # isolate the crashing inputs: re-run lost batches one input at a time in a child that reports progress
        crashes = 0
        for b in lost:
            if crashes >= MAX_REPORTED:
                break
            results, crashed_at = _run_isolated(modname, chk.name, b)
            account(b[:len(results)], results)
            if crashed_at is not None:
                crashes += 1
                evaluations += 1
                failures.append((b[crashed_at], dict(expected="no crash", observed="the process running the code under check died "
                                                     "(signal/abort, e.g. segfault or failed C++ assert) on this input")))
    else:
        chk.prepare()
        for batch in batches():
            account(batch, _run_chunk((modname, chk.name, batch)))
            if time.time() > stop_at:
                truncated = True
                break
    return dict(name=chk.name, contract=chk.contract, rule=chk.rule + ("; %d rounds of the generators with different seeds" % rounds[0] if rounds[0] > 1 else ""),
                evaluations=evaluations, distinct=len(distinct),
                distinct_nontrivial=nontrivial, failures=failures, samples=samples, truncated=truncated,
                exhaustive=(tier in chk.exhaustive_in) and not truncated, seconds=round(time.time() - t0, 2))


# ----------------------------------------------------------------------------- deductive part
def run_deductive(mod, prop):
    from vcgen import run as vrun
    out = []
    for spec in getattr(mod, "D_MODULES", []):
        modname, only = (spec, None) if isinstance(spec, str) else spec
        try:
            r = vrun.run_module(modname, only=only)
        except Exception:
            r = dict(module=modname, error=traceback.format_exc()[-3000:], clauses=[], functions=[], problems=[("*", "generator crashed")],
                     canaries=[], n_obligations=0, wall_s=0)
        # keep only clauses that serve this property
        r["clauses"] = [c for c in r["clauses"] if prop in c["props"]]
        out.append(r)
    return out


def load_expected(prop):
    p = os.path.join(ROOT, "expected_obligations.json")
    if not os.path.exists(p):
        return None
    with open(p) as f:
        return json.load(f).get(prop)


# ----------------------------------------------------------------------------- replay files
def write_replay(prop, name, payload):
    d = os.path.join(OUT, "replays", prop)
    os.makedirs(d, exist_ok=True)
    h = hashlib.sha1(json.dumps(payload, sort_keys=True, default=str).encode()).hexdigest()[:10]
    safe = "".join(ch if ch.isalnum() or ch in "._-" else "_" for ch in name)[:80]
    path = os.path.join(d, "%s-%s.json" % (safe, h))
    with open(path, "w") as f:
        json.dump(payload, f, indent=1, default=str)
    return path


def replay(mod, prop, path):
    with open(path) as f:
        rp = json.load(f)
    if rp.get("kind") == "runtime-contract":
        chk = _get_check(mod.__name__, rp["check"])
        (r, _), = _run_chunk((mod.__name__, rp["check"], [rp["input"]]))
        if r is None:
            print("REPLAY property=%s check=%s: contract holds on this input on the current tree" % (prop, rp["check"]))
            return 0
        print("REPLAY property=%s check=%s: contract FAILS on the current tree\n  expected: %s\n  observed: %s" % (
            prop, rp["check"], r.get("expected"), r.get("observed")))
        print("VIOLATION property=%s replay=%s" % (prop, path))
        return 1
    if rp.get("kind") == "obligation":
        from vcgen import run as vrun
        r = vrun.run_module(rp["module"], canaries=False)
        for c in r["clauses"]:
            if c["name"] == rp["name"]:
                print("REPLAY property=%s obligation=%s verdict on the current tree: %s" % (prop, c["name"], c["verdict"]))
                if c["verdict"] in ("refuted", "refuted-finite") or (c["verdict"] == "undecided" and rp.get("verdict") == "not-discharged-after-source-change"):
                    print("VIOLATION property=%s replay=%s no-failing-input-found" % (prop, path))
                    return 1
                return 0
        print("REPLAY obligation %s no longer generated" % rp["name"])
        return 0
    print("MACHINERY-ERROR unknown replay kind")
    return 3


# ----------------------------------------------------------------------------- main entry
def run_property(mod, prop, tier, seed, build, t0, skip_d=False, skip_b=False, only=None):
    findings = load_findings(prop)
    known_printed = set()
    violations = []          # (line, replay path)
    machinery = []
    undecided = []
    total_budget = getattr(mod, "BUDGET_S", {"quick": 240, "thorough": 3600})[tier]
    deadline = t0 + total_budget

    # ---------------- D
    d_results = [] if skip_d else run_deductive(mod, prop)
    n_ob = sum(c["paths"] for r in d_results for c in r["clauses"])
    n_dis = sum(c["discharged"] for r in d_results for c in r["clauses"])
    clauses = [c for r in d_results for c in r["clauses"]]
    by_backend = {}
    for c in clauses:
        for b in c["backends"]:
            by_backend[b] = by_backend.get(b, 0) + 1
    solver_s = round(sum(c["seconds"] for c in clauses), 2)
    expected = load_expected(prop)
    failed_clauses = []
    canary_issues = []
    for r in d_results:
        if r.get("error"):
            machinery.append("vcgen crashed on %s: %s" % (r["module"], r["error"][-400:]))
        for fn, why in r.get("problems", []):
            undecided.append("target=%s (%s)" % (fn, why))
        for x in r.get("crosscheck", []):
            if x["mismatches"]:
                machinery.append("encoder cross-check: vcgen's concrete run of %s disagrees with CPython on the real function: %s" % (x["function"], str(x["mismatches"][0])[:600]))
        for cn in r.get("canaries", []):
            if not cn["ok"]:
                canary_issues.append("canary verified (encoder or contract file unsound?): %s %s" % (cn["name"], cn.get("why", "")))
        for f in r.get("functions", []):
            if f.get("status") == "generated" and not f.get("requires_satisfiable", True):
                machinery.append("vacuous contract: requires of %s unsatisfiable" % f["function"])
    exp_names = set(expected["discharged"]) if expected else None
    exp_hashes = (expected or {}).get("function_hashes", {})
    cur_hashes = {f["function"]: f.get("source_hash") for r in d_results for f in r.get("functions", []) if f.get("source_hash")}
    canary_pending = canary_issues
    seen = set()
    for c in clauses:
        seen.add(c["name"])
        if c["verdict"] == "discharged":
            continue
        if match_finding(findings, obligation=c["name"]) is not None:
            failed_clauses.append(c)      # a recorded finding at obligation level: printed as KNOWN-FINDING below, never as a violation
            continue
        was_expected = exp_names is None or c["name"] in exp_names
        if c["verdict"] == "undecided" and was_expected and exp_names is not None and c["fn"] in exp_hashes and cur_hashes.get(c["fn"]) not in (None, exp_hashes[c["fn"]]):
            # the proof of this clause went through on the reference tree and no back end can rebuild it for the CHANGED source of the function:
            # the code no longer verifies against its contract (reported without a counterexample)
            c = dict(c, verdict="not-discharged-after-source-change")
            failed_clauses.append(c)
            continue
        if c["verdict"] in ("refuted", "refuted-finite") and was_expected:
            if c["verdict"] == "refuted-finite" and expected and c["name"] in expected.get("finite_unusable", []):
                undecided.append("obligation=%s (finite-instance model not trusted for this clause)" % c["name"])
                continue
            failed_clauses.append(c)
        elif (c["verdict"] == "refuted" and c.get("kind") == "frame" and exp_names is not None and c["fn"] in exp_hashes
              and cur_hashes.get(c["fn"]) not in (None, exp_hashes[c["fn"]])):
            # a frame clause that did not exist on the reference tree: the CHANGED function now writes a field its contract's `modifies` excludes, and the
            # solver gives a model in which the written object existed on entry
            failed_clauses.append(c)
        else:
            undecided.append("obligation=%s (%s)" % (c["name"], c["verdict"]))
    if exp_names is not None and not skip_d:
        for n in sorted(exp_names - seen):
            undecided.append("obligation=%s (expected but not generated on this tree)" % n)
    # a deliberately wrong contract variant that verifies means the encoder (or the contract file) proves too much -- unless the real
    # contract of this tree is refuted at the same time (the changed code may simply implement the wrong variant)
    if canary_pending and not failed_clauses:
        machinery += canary_pending
    if getattr(mod, "D_MODULES", []) and not skip_d and n_ob == 0:
        machinery.append("zero obligations generated for %s" % prop)

    # ---------------- B
    b_results = []
    if not skip_b:
        for chk in getattr(mod, "B_CHECKS", []):
            if only and only not in chk.name:
                continue
            try:
                br = run_bcheck(mod.__name__, chk, tier, seed, deadline)
            except Exception:
                machinery.append("bounded check %s crashed: %s" % (chk.name, traceback.format_exc()[-1500:]))
                continue
            b_results.append(br)
            reported = 0
            for inp, fail in br["failures"]:
                e = match_finding(findings, check=chk.name, input=inp, failure=fail)
                if e is not None:
                    if e["id"] not in known_printed:
                        known_printed.add(e["id"])
                        print("KNOWN-FINDING: property=%s %s: %s" % (prop, e["id"], e["what"]))
                    continue
                if reported >= MAX_REPORTED:
                    continue
                reported += 1
                path = write_replay(prop, chk.name, dict(property=prop, kind="runtime-contract", check=chk.name,
                                                         contract=chk.contract, input=inp, expected=fail.get("expected"),
                                                         observed=fail.get("observed"), detail=fail,
                                                         failed_obligations=[c["name"] for c in failed_clauses],
                                                         how_to_replay="./check %s --replay <this file>" % prop))
                violations.append(("VIOLATION property=%s replay=%s" % (prop, path), path, chk.name, fail))

    # ---------------- D failures -> violation lines
    for c in failed_clauses:
        e = match_finding(findings, obligation=c["name"])
        if e is not None:
            if e["id"] not in known_printed:
                known_printed.add(e["id"])
                print("KNOWN-FINDING: property=%s %s: %s" % (prop, e["id"], e["what"]))
            continue
        print("OBLIGATION-FAILED %s verdict=%s backend=%s" % (c["name"], c["verdict"], ",".join(c["backends"])))
        if violations:
            continue   # a real failing input was found by the bounded search; its replay file names this obligation
        modname = [r["module"] for r in d_results if c in r["clauses"]][0]
        path = write_replay(prop, c["name"], dict(property=prop, kind="obligation", name=c["name"], module=modname,
                                                  verdict=c["verdict"], solver=c["models"][:3], function=c["fn"],
                                                  note="obligation discharged on the unchanged tree, fails on this tree; "
                                                       "the bounded search found no failing input for the real code",
                                                  how_to_replay="./check %s --replay <this file>" % prop))
        violations.append(("VIOLATION property=%s replay=%s no-failing-input-found" % (prop, path), path, c["name"], None))

    for u in undecided:
        print("UNDECIDED %s" % u)
    for m in machinery:
        print("MACHINERY-ERROR %s" % m)
    for line, *_ in violations:
        print(line)

    # ---------------- evidence
    wall = round(time.time() - t0, 2)
    evals = sum(b["evaluations"] for b in b_results)
    dn = sum(b["distinct_nontrivial"] for b in b_results)
    full_d = bool(clauses) and n_dis == n_ob and not undecided and not machinery
    claimed = getattr(mod, "LEVEL", "other")
    if claimed == "proof" and not full_d:
        level = "other" if clauses else "exploration"
    else:
        level = claimed
    if level == "exploration" and (evals < 1 or dn < 2):
        level = "other"
    samples = []
    for b in b_results:
        for s in b["samples"][:2]:
            samples.append({"check": b["name"], "input": s})
    for c in clauses[:3]:
        samples.append({"obligation": c["name"], "verdict": c["verdict"], "paths": c["paths"], "backend": c["backends"]})
    assumptions = list(getattr(mod, "ASSUMPTIONS", []))
    for r in d_results:
        for f in r.get("functions", []):
            for a in f.get("assumptions", []):
                if a not in assumptions:
                    assumptions.append(a)
            if f.get("assumed"):
                assumptions.append("assumed contract (body not verified): %s" % f["function"])
            if f.get("status") in ("unsupported", "target-missing"):
                assumptions.append("NOT verified this run (%s): %s -- %s" % (f["status"], f["function"], f.get("reason", "")))
    ev = dict(
        property_id=prop, tier=tier, seed=seed, level=level, wall_s=wall, violations=len(violations),
        assumptions=assumptions,
        coverage=dict(
            explanation=getattr(mod, "EXPLANATION", ""),
            obligations=n_ob, discharged=n_dis,
            clauses=len(clauses), clauses_discharged=sum(1 for c in clauses if c["verdict"] == "discharged"),
            clauses_not_discharged=[dict(name=c["name"], verdict=c["verdict"]) for c in clauses if c["verdict"] != "discharged"],
            obligations_by_backend=by_backend, solver_seconds=solver_s,
            checker_cmd="./check %s --tier %s  (vcgen: python ast/Cython/clang front ends -> z3 %s, cvc5 1.0.3 fallback)" % (prop, tier, _z3v()),
            trusted_base=getattr(mod, "TRUSTED_BASE", []),
            functions_under_contract=[dict((k, f.get(k)) for k in ("function", "status", "obligations", "paths", "source_hash", "reason", "exits_reached") if k in f)
                                      for r in d_results for f in r.get("functions", []) if prop in f.get("props", [prop])],
            canaries=[cn for r in d_results for cn in r.get("canaries", [])],
            encoder_crosscheck=[dict(function=x["function"], concrete_runs_compared_with_cpython=x["runs"], skipped=x["skipped"], mismatches=len(x["mismatches"]))
                                for r in d_results for x in r.get("crosscheck", [])],
            undecided=undecided,
            evaluations=evals, distinct_nontrivial=dn,
            rule="; ".join("%s: %s" % (b["name"], b["rule"]) for b in b_results),
            bounded_checks=[dict(name=b["name"], contract=b["contract"], evaluations=b["evaluations"], distinct=b["distinct"],
                                 distinct_nontrivial=b["distinct_nontrivial"], exhaustive=b["exhaustive"], truncated=b["truncated"],
                                 failures=len(b["failures"]), seconds=b["seconds"]) for b in b_results],
            exhaustive=bool(b_results) and all(b["exhaustive"] for b in b_results),
            samples=samples,
            known_findings_hit=sorted(known_printed),
            whatshap_imported_from=build, repo=os.environ.get("VERIF_REPO", "/repo"),
        ))
    # a partial run (--no-d / --no-b / --only, used while developing) must not overwrite the record of a full run
    ev_dir = os.path.join(OUT, "evidence" if not (skip_d or skip_b or only) else "evidence_partial")
    os.makedirs(ev_dir, exist_ok=True)
    with open(os.path.join(ev_dir, prop + ".json"), "w") as f:
        json.dump(ev, f, indent=1, default=str)
    print("SUMMARY property=%s tier=%s level=%s obligations=%d discharged=%d solver_s=%.1f bounded_evaluations=%d distinct_nontrivial=%d "
          "violations=%d known_findings=%d undecided=%d wall=%.1fs" % (prop, tier, level, n_ob, n_dis, solver_s, evals, dn, len(violations),
                                                                         len(known_printed), len(undecided), wall))
    if violations:
        return 1
    return 3 if machinery else 0


def _z3v():
    try:
        import z3
        return z3.get_version_string()
    except Exception:
        return "?"
