"""C01 - the exact solver returns a minimum-cost (Ped)MEC solution with a matching witness."""
import itertools
import random

from harness.runner import BCheck

LEVEL = "other"
LEVEL_TEXT = ("Deductive (C++ leaves, bit-vector obligations from the clang AST of the real source): GrayCodes (k-th call returns gray(k), changed bit, "
              "termination after 2^length codes, injectivity), PedigreeDPTable::popcount. The DP as a whole (unique_ptr, std::list, iterators, "
              "sqrt(n) checkpointing) is outside the verifier's reach and is decided by a bounded stand-in: the compiled PedigreeDPTable against a "
              "brute-force PedMEC optimum written from the statement - cost, witness (partition + transmission vector re-evaluated), tie clause, "
              "shapes - on exhaustive small matrices and seeded larger ones (single individuals, unrelated pairs, trios, quartets, trusted and "
              "distrusted genotypes, positions given/omitted).")
LEVEL_NOTE = "Nothing about the optimum is claimed as proved. Trusted: the brute-force oracle (runtime/pedmec.py); std::vector model; z3 for the leaf obligations."
TECHNIQUE = "contract-based deductive verification of C++ leaf functions (clang AST -> bit-vector VCs, z3) + bounded runtime contract against a brute-force PedMEC oracle"
D_MODULES = ["contracts.graycodes_cpp", "contracts.pedigreedptable_cpp"]
EXPLANATION = LEVEL_TEXT
TRUSTED_BASE = ["brute-force PedMEC oracle (runtime/pedmec.py)", "whatshap.core Python wrappers used to drive the C++ table"]
ASSUMPTIONS = ["read sets are given sorted (ReadSet.sort()), coverage <= 8 reads per column in the enumerated instances"]

TRIO = [[0, 1, 2]]
QUARTET = [[0, 1, 2], [0, 1, 3]]
SHAPES = {
    "single": (1, []),
    "pair": (2, []),
    "trio": (3, TRIO),
    "quartet": (4, QUARTET),
    "trio+unrelated": (4, TRIO),
}


def consistent_genotypes(rng, n_ind, triples, m):
    """genotypes derived from founder haplotypes + a transmission -> Mendelian consistent"""
    from runtime.pedmec import hap_partitions
    g = [[0] * m for _ in range(n_ind)]
    for c in range(m):
        t = rng.randrange(4 ** len(triples))
        parts, npart = hap_partitions(n_ind, triples, t)
        a = [rng.randint(0, 1) for _ in range(npart)]
        for i in range(n_ind):
            g[i][c] = a[parts[i][0]] + a[parts[i][1]]
    return g


def random_instance(rng, shape, m, n_reads, wmax, distrust, gapped=0.2, extra_cols=False):
    n_ind, triples = SHAPES[shape]
    positions = [10 * (i + 1) for i in range(m)]
    reads = []
    for _ in range(n_reads):
        a = rng.randrange(m)
        b = rng.randrange(a, m)
        cols = [c for c in range(a, b + 1) if c in (a, b) or rng.random() > gapped]
        reads.append(dict(ind=rng.randrange(n_ind), entries=[[c, rng.randint(0, 1), rng.randint(1, wmax)] for c in cols]))
    reads.sort(key=lambda r: r["entries"][0][0])
    inst = dict(n_ind=n_ind, triples=triples, positions=positions, distrust=distrust, recomb=[rng.choice([0, 1, 2, 7]) for _ in range(m)],
                reads=reads, give_positions=True, genotypes=consistent_genotypes(rng, n_ind, triples, m), gls=None)
    if distrust:
        inst["gls"] = [[[rng.choice([0, 3, 10, 30]) for _ in range(3)] for _ in range(m)] for _ in range(n_ind)]
    if not extra_cols:
        covered = sorted({e[0] for r in reads for e in r["entries"]})
        inst["give_positions"] = rng.random() < 0.5
        if not inst["give_positions"] or rng.random() < 0.5:
            # restrict to covered columns (the only ones the table sees when positions are omitted)
            remap = {c: k for k, c in enumerate(covered)}
            for r in reads:
                for e in r["entries"]:
                    e[0] = remap[e[0]]
            inst["positions"] = [positions[c] for c in covered]
            inst["recomb"] = [inst["recomb"][c] for c in covered]
            inst["genotypes"] = [[g[c] for c in covered] for g in inst["genotypes"]]
            if distrust:
                inst["gls"] = [[g[c] for c in covered] for g in inst["gls"]]
    return inst


def forced_crossover(m, cross, r, w=10):
    """Quartet whose parents are pinned by their own reads to haplotypes 0..0 / 1..1; child k's paternal (bit 2k) and maternal (bit 2k+1)
    haplotype switch at column cross[bit] (None = no switch), so several meioses recombine between the same two columns and the
    recombination term counts popcount(t_c xor t_{c-1}) up to 4."""
    n_ind, triples = 4, QUARTET
    reads = []
    for p in (0, 1):
        for a in (0, 1):
            reads.append(dict(ind=p, entries=[[c, a, w] for c in range(m)]))
    genotypes = [[1] * m, [1] * m, [0] * m, [0] * m]
    for k, child in enumerate((2, 3)):
        haps = []
        for bit in (2 * k, 2 * k + 1):
            x = cross.get(str(bit))
            haps.append([0 if (x is None or c < x) else 1 for c in range(m)])
        for h in haps:
            reads.append(dict(ind=child, entries=[[c, h[c], w] for c in range(m)]))
        genotypes[child] = [haps[0][c] + haps[1][c] for c in range(m)]
    reads.sort(key=lambda rd: rd["entries"][0][0])
    return dict(n_ind=n_ind, triples=triples, positions=[10 * (i + 1) for i in range(m)], distrust=False, recomb=[r] * m, reads=reads,
                give_positions=True, genotypes=genotypes, gls=None)


class PedMecOracle(BCheck):
    name = "C01.pedmec-oracle"
    contract = ("PedigreeDPTable: (a) get_optimal_cost() == min over read bipartitions x transmission vectors x admissible allele assignments of the weighted "
                "PedMEC objective; (b) the returned partition and transmission vector, minimised over allele assignments, cost exactly that; (c) every "
                "non-tie super-read allele is shared by all column-optimal assignments; (d) shapes/positions; + identity by descent along the returned transmission")
    rule = ("exhaustive: all single-individual matrices of <= 3 reads x 3 columns over {absent,0,1}, weight 1, all "
            "genotype vectors; seeded: single individuals up to 7 reads x 10 columns (weights 1-5, gapped reads, sqrt(n) checkpoint path exercised), unrelated "
            "pairs, trios, quartets, trio+unrelated, recombination costs {0,1,2,7}, distrusted genotypes with phred triples {0,3,10,30}, explicit position lists "
            "with uncovered columns (also the first); quartets whose parents are pinned by reads and in which every subset of the four meioses "
            "recombines at chosen columns (popcount of the transmission change 0..4); non-trivial = optimum cost > 0 or >= 2 reads overlap")
    budget_s = {"quick": 150, "thorough": 1800}
    chunk = 40

    def inputs(self, tier, rng):
        # exhaustive small single-individual matrices
        patterns = [p for p in itertools.product((None, 0, 1), repeat=3) if any(x is not None for x in p)]
        maxr = 3
        for nr in range(1, maxr + 1):
            for combo in itertools.combinations_with_replacement(range(len(patterns)), nr):
                reads = [dict(ind=0, entries=[[c, a, 1] for c, a in enumerate(patterns[k]) if a is not None]) for k in combo]
                reads.sort(key=lambda r: r["entries"][0][0])
                for gt in itertools.product((0, 1, 2), repeat=3):
                    yield dict(n_ind=1, triples=[], positions=[10, 20, 30], distrust=False, recomb=[1, 1, 1], reads=reads, give_positions=True,
                               genotypes=[list(gt)], gls=None)
        # quartets with 0-4 meioses recombining between the same two columns
        for m in (2, 3, 4):
            for pattern in itertools.product([None] + list(range(1, m)), repeat=4):
                if m == 4 and tier == "quick" and sum(x is not None for x in pattern) < 3:
                    continue
                for r in (1, 3):
                    yield forced_crossover(m, {str(b): x for b, x in enumerate(pattern)}, r)
        scale = 6 if tier == "quick" else 80
        for i in range(700 * scale):
            m = rng.randint(2, 10)
            yield random_instance(rng, "single", m, rng.randint(1, 7), 5, distrust=(i % 4 == 0), extra_cols=(i % 5 == 0))
        for i in range(120 * scale):
            yield random_instance(rng, "pair", rng.randint(2, 5), rng.randint(1, 6), 4, distrust=(i % 4 == 0), extra_cols=(i % 5 == 0))
        for i in range(300 * scale):
            yield random_instance(rng, "trio", rng.randint(2, 5), rng.randint(0, 6), 4, distrust=(i % 4 == 0), extra_cols=(i % 3 == 0))
        for i in range(80 * scale):
            yield random_instance(rng, "quartet", rng.randint(2, 4), rng.randint(0, 5), 3, distrust=(i % 4 == 0), extra_cols=(i % 3 == 0))
        for i in range(40 * scale):
            yield random_instance(rng, "trio+unrelated", rng.randint(2, 4), rng.randint(1, 5), 3, distrust=(i % 4 == 0), extra_cols=(i % 3 == 0))

    def nontrivial(self, inst):
        cols = {}
        for r in inst["reads"]:
            for e in r["entries"]:
                cols[e[0]] = cols.get(e[0], 0) + 1
        return any(v >= 2 for v in cols.values())

    def check(self, inst):
        from runtime.pedmec import check_instance
        return check_instance(inst)


B_CHECKS = [PedMecOracle()]
