"""C02 - read-based phasing of error-free reads reproduces the true haplotypes."""
import os
import random
import shutil
import tempfile

from harness.runner import BCheck
from scenario import bam as BAM, phasing as PH

LEVEL = "exploration"
LEVEL_TEXT = ("Pipeline property (BAM -> allele detection -> read selection -> PedMEC -> components -> VCF writer), no single-call contract can state it: "
              "decided by a bounded stand-in; the pieces are under deductive contract with the properties that own them (allele detection C06, read selection C07, "
              "components C03, solver leaves C01) and the LAST stage is re-run here: the loop-body contract of PhasedVcfWriter.write's record pass (every phased sample's "
              "call ends with the run's own phase or none at all -- a stale input phase on a record the run skips would contradict the truth) (contracts/vcfwrite_py.py). Whole `whatshap phase` runs (default exact algorithm, with reference re-alignment, and --no-reference for SNV-only "
              "inputs) on generated references/variants/true haplotypes with error-free reads (SNV, MNP, insertion, deletion; soft clips; =/X CIGARs; read lengths "
              "40-150; depth up to 30 per haplotype, i.e. above the internal cap of 15; 1-2 samples with read groups; --tag PS/HP, --only-snvs, --sample subsets); "
              "every output phase set must carry the truth up to a whole-set swap. The lemma 'zero MEC cost forces the true bipartition on every read-connected "
              "component' that links C06, C01, C03 and the writer is an assumption, not a discharged obligation.")
LEVEL_NOTE = "Seeded sampling only. Trusted: scenario generator (truth by construction), independent VCF decoder."
TECHNIQUE = "contract-based deductive verification of the VCF writer's record pass (vcgen, z3) + bounded end-to-end runtime contract on run_whatshap over generated BAM/FASTA/VCF scenarios with known true haplotypes"
D_MODULES = ["contracts.vcfwrite_py"]
EXPLANATION = LEVEL_TEXT
TRUSTED_BASE = ["scenario/bam.py (reads are exact copies of one true haplotype with exact CIGARs)"]
ASSUMPTIONS = ["composition lemma (C06 + C01 + C03 + writer => C02) is argued in DESIGN.md, not machine-checked",
               "variants are >= 12 bp apart and indels are left-normalised (the statement's 'well separated', 'normalised position')"]


def check_truth(sc, out_text, samples=None, only_snvs=False, prephased_input=False):
    sams, records, phase = PH.decode_phasing(out_text)
    pos_index = {}
    for c in sc["contigs"]:
        for i, v in enumerate(c["variants"]):
            pos_index[(c["name"], v["pos"] + 1)] = (i, v)
    n_phased = 0
    for s in sams:
        sets = {}
        for ri, (blk, tup, _) in phase[s].items():
            rec = records[ri]
            i, v = pos_index[(rec["chrom"], rec["pos"])]
            h = sc["truth"][s][rec["chrom"]]
            t = (h[0][i], h[1][i])
            if samples and s not in samples:
                if prephased_input:
                    continue         # calls of samples that were not selected are passed through with whatever phasing the input carried (C04)
                return dict(expected="sample %s not selected -> not phased" % s, observed="%s:%d phased" % (rec["chrom"], rec["pos"])), 0
            if only_snvs and v["kind"] != "snv":
                return dict(expected="--only-snvs: %s:%d (%s) not phased" % (rec["chrom"], rec["pos"], v["kind"]), observed=str(tup)), 0
            if t[0] == t[1]:
                return dict(expected="%s:%d is homozygous in %s -> not phased" % (rec["chrom"], rec["pos"], s), observed=str(tup)), 0
            if tuple(tup) == t:
                o = 0
            elif tuple(tup) == (t[1], t[0]):
                o = 1
            else:
                return dict(expected="%s:%d sample %s alleles %r" % (rec["chrom"], rec["pos"], s, t), observed=str(tup)), 0
            sets.setdefault((rec["chrom"], blk), []).append((rec["pos"], o, v["kind"]))
            n_phased += 1
        for key, members in sets.items():
            if len({o for _, o, _ in members}) != 1:
                return dict(expected="phase set %s:%d of %s carries the true haplotypes up to a whole-set swap" % (key[0], key[1], s),
                            observed="orientation per variant (pos, swapped?, kind): %r" % sorted(members)), n_phased
    return None, n_phased


def diagnose_read_ends(sc, d):
    """Attribution of a wrong phase set to known finding F23, by the call site that fails: the real ReadSetReader (with reference) is run once more on the
    scenario; returns the list of wrongly recorded alleles iff there is at least one and EVERY one of them is of this shape: the read carries ALT, REF was
    recorded, and the read's alignment ends inside the variant's REF span without containing the whole ALT allele (an MNP cut short, an insertion's anchor
    base as the last aligned base).  Any other wrong allele -- or none at all -- returns None and the failure stays a violation."""
    from whatshap.core import NumericSampleIds
    from whatshap.variants import ReadSetReader
    from whatshap.vcf import VcfReader
    sub = os.path.join(d, "diag")
    os.makedirs(sub, exist_ok=True)
    paths = BAM.materialize(sc, sub)
    vcf = os.path.join(sub, "v.vcf")
    with open(vcf, "w") as f:
        f.write(BAM.vcf_text(sc))
    tables = {t.chromosome: t for t in VcfReader(vcf)}
    reader = ReadSetReader([paths["bam"]], paths["fasta"], NumericSampleIds())
    by_name = {}
    for rd in sc["reads"]:
        by_name.setdefault(rd["name"], []).append(rd)
    wrong = []
    try:
        for c in sc["contigs"]:
            if c["name"] not in tables:
                continue
            index = {v["pos"]: i for i, v in enumerate(c["variants"])}
            for s in sc["samples"]:
                haps = sc["truth"][s][c["name"]]
                for read in reader.read(c["name"], tables[c["name"]].variants, s, c["seq"]):
                    rds = by_name.get(read.name, [])
                    if len(rds) != 1:
                        return None          # mates / clashing names: not attributable here
                    rd = rds[0]
                    blocks = BAM.aligned_blocks(rd["start"], [tuple(x) for x in rd["cigar"]])
                    for v in read:
                        i = index.get(v.position)
                        if i is None or haps[rd["hap"]][i] == v.allele:
                            continue
                        var = c["variants"][i]
                        vs, ve = var["pos"], var["pos"] + len(var["ref"])
                        be = blocks[-1][1]
                        cut = vs < be <= ve and not (var["kind"] in ("snv", "mnp") and be == ve)
                        if not (haps[rd["hap"]][i] == 1 and v.allele == 0 and cut):
                            return None
                        wrong.append("%s ends at %d inside %s:%d %s>%s, carries ALT, REF recorded" % (read.name, be, c["name"], vs + 1, var["ref"], var["alt"]))
    finally:
        reader.close()
    return wrong or None


def r_pile(i):
    return [0, 0, 4, 0, 8, 0][i % 6] if i % 6 in (2, 4) else 0


class ErrorFree(BCheck):
    name = "C02.error-free-reads"
    contract = ("run_whatshap on error-free reads: every phase set of the output carries, for its sample, exactly the true haplotype alleles at all its phased "
                "variants up to exchanging the two haplotypes of the set as a whole; nothing homozygous / unselected is phased")
    rule = ("seeded scenarios (half of them spell a third of the unphased input genotypes in descending order, 1/0; a fifth carry stale phasing of an earlier run on every heterozygous call): reference 300-500 bp, 3-8 variants >= 12 bp apart (SNV/MNP/ins/del mixes), 1-2 samples, depth 2-30 per haplotype, read length 40-150, soft "
            "clips, =/X CIGARs, with reference; SNV-only scenarios also without reference; --tag PS|HP, --only-snvs, --sample subset; non-trivial = >= 2 variants phased")
    budget_s = {"quick": 150, "thorough": 1800}
    chunk = 4

    def inputs(self, tier, rng):
        for i in range(1200 if tier == "quick" else 20000):
            seed = rng.getrandbits(48)
            yield dict(seed=seed, noref=(i % 5 == 4), depth_hi=(30 if i % 6 == 0 else (3 if i % 6 in (2, 4) else 8)), tag="PS" if i % 2 else "HP", only_snvs=(i % 7 == 3),
                       subset=(i % 4 == 1), max_coverage=15 if i % 3 else 6,
                       snap=(0.3 if i % 2 == 0 else 1.0), two_files=(i % 8 == 5),
                       pile=(r_pile(i)), ins_end=(4 if i % 12 == 7 else 0))

    def scenario(self, inp):
        r = random.Random(inp["seed"])
        kinds = ("snv",) if inp["noref"] else ("ins", "snv") if inp.get("ins_end") else r.choice([("snv", "snv", "ins", "del", "mnp"), ("ins", "del"), ("snv", "mnp"), ("del", "snv"), ("ins", "snv")])
        sc = BAM.generate(r, n_samples=(1, 2), kinds=kinds, depth=(2, inp["depth_hi"]), read_len=(40, 150), snap_prob=inp.get("snap", 1.0))
        if inp.get("ins_end"):
            # reads of the haplotype that CARRIES an insertion, ending exactly at the insertion's anchor base (an error-free copy of that haplotype that stops
            # before the inserted bases): placements the statement quantifies over ("any read lengths"); see known finding F23
            serial = 2 * 10 ** 6
            for smp in sc["samples"]:
                for c in sc["contigs"]:
                    haps = sc["truth"][smp][c["name"]]
                    for i, v in enumerate(c["variants"]):
                        if v["kind"] != "ins":
                            continue
                        for h in (0, 1):
                            if haps[h][i] != 1 or haps[1 - h][i] != 0:
                                continue
                            for _ in range(inp["ins_end"]):
                                b = v["pos"] + 1
                                a = BAM.snap(c["variants"], max(0, b - r.randint(30, 120)), True)
                                al = list(haps[h])
                                al[i] = 0          # the read stops at the anchor base: it contains none of the inserted bases
                                try:
                                    seq, cigar, start = BAM.haplotype_read(c["seq"], c["variants"], al, a, b)
                                except ValueError:
                                    continue
                                sc["reads"].append(dict(name="%s.h%d.%d" % (smp, h, serial), sample=smp, hap=h, contig=c["name"], start=start,
                                                        cigar=[list(x) for x in cigar], seq=seq, flag=0, mapq=60))
                                serial += 1
        if inp.get("pile"):
            # many reads of the REF-carrying haplotype that end inside a variant's REF span, at low regular depth
            BAM.add_reads_ending_in_variants(r, sc, per_variant=inp["pile"])
        return sc

    def check(self, inp):
        from runtime.phase_driver import run_phase
        sc = self.scenario(inp)
        d = tempfile.mkdtemp(prefix="c02_")
        try:
            bams = []
            if inp.get("two_files"):
                # the same reads spread over two BAM files whose read names restart from r0 in each file
                half = [[], []]
                shuffled = list(sc["reads"])
                random.Random(inp["seed"] + 1).shuffle(shuffled)
                for k, rd in enumerate(shuffled):
                    half[k % 2].append(dict(rd, name="r%d" % (k // 2)))
                for j in (0, 1):
                    paths = BAM.materialize(dict(sc, reads=half[j]), d, bam_name="reads%d.bam" % j)
                    bams.append(paths["bam"])
            else:
                paths = BAM.materialize(sc, d)
                bams.append(paths["bam"])
            samples = [sc["samples"][0]] if (inp["subset"] and len(sc["samples"]) > 1) else None
            res = run_phase(BAM.vcf_text(sc, rev_rng=random.Random(inp["seed"] ^ 0x5EED), rev_frac=0.35 if inp["seed"] % 2 else 0.0,
                                          stale_rng=random.Random(inp["seed"] ^ 0xA11CE) if inp["seed"] % 5 == 0 else None), bams=bams, reference=False if inp["noref"] else paths["fasta"], tag=inp["tag"],
                            only_snvs=inp["only_snvs"], samples=samples, max_coverage=inp["max_coverage"])
            if res["error"]:
                return dict(expected="run succeeds", observed=res["error"], traceback=res.get("traceback"))
            fail, n = check_truth(sc, res["out"], samples=samples, only_snvs=inp["only_snvs"], prephased_input=(inp["seed"] % 5 == 0))
            if fail and not inp["noref"] and "whole-set swap" in str(fail.get("expected")):
                cause = diagnose_read_ends(sc, d)
                if cause:
                    fail = dict(fail, cause="read-ends-inside-ALT-allele", reads=cause[:5])
            return fail
        finally:
            shutil.rmtree(d, ignore_errors=True)


B_CHECKS = [ErrorFree()]
