"""C03 - phase sets are exactly the read-connected components, named by the leftmost variant."""
import itertools
import random

from harness.runner import BCheck
from scenario import phasing as PH, vcf as V

LEVEL = "other"
LEVEL_TEXT = ("Deductive: ComponentFinder (graph.py) is verified for all inputs - find(v) is the minimum of v's class in the least equivalence generated "
              "by the merges (representation invariant + whole-view postcondition + lemma over the contracts). Bounded stand-in for the callers: "
              "find_components on all read/variant incidence structures up to 5 positions x 3 reads (+ master block, + heterozygous maps) against an "
              "independent graph search, and whole `whatshap phase` runs whose PS/HP values are compared with components recomputed from the reads "
              "actually handed to the solver (wrappers substituted for PedigreeDPTable/select_reads), with and without pedigree merging.")
LEVEL_NOTE = ("Proved: graph.py only. find_components / compute_overall_components / _set_PS/_set_HP are bounded (runtime contracts). Trusted: z3/cvc5, "
              "vcgen semantics, integer model of positions.")
TECHNIQUE = "contract-based deductive verification of the union-find (vcgen, z3) + runtime contracts on find_components and run_whatshap with independent component search"
D_MODULES = ["contracts.graph_py"]
EXPLANATION = LEVEL_TEXT
TRUSTED_BASE = ["z3/cvc5", "vcgen Python semantics", "integer model of ComponentFinder values"]
ASSUMPTIONS = ["find_components/compute_overall_components are covered by the bounded check only (not yet under deductive contract)"]


def components_by_search(positions, reads, master_block=None):
    """independent: connected components of the graph on `positions` with an edge between any two positions of one read"""
    pos = sorted(set(positions))
    adj = {p: set() for p in pos}
    for r in reads:
        rp = [p for p in r if p in adj]
        for a in rp:
            for b in rp:
                if a != b:
                    adj[a].add(b)
    if master_block:
        mb = [p for p in master_block if p in adj]
        for a in mb:
            for b in mb:
                if a != b:
                    adj[a].add(b)
    comp = {}
    for p in pos:
        if p in comp:
            continue
        seen, stack = {p}, [p]
        while stack:
            u = stack.pop()
            for w in adj[u]:
                if w not in seen:
                    seen.add(w)
                    stack.append(w)
        m = min(seen)
        for q in seen:
            comp[q] = m
    return comp


class FindComponents(BCheck):
    name = "C03.find_components"
    contract = ("find_components(phased_positions, reads, master_block, heterozygous_positions)[p] = minimum of p's connected component, where two "
                "positions are adjacent iff one read covers both (restricted to phased positions and, if given, to positions heterozygous for that "
                "read's sample) or both are in the master block")
    rule = ("exhaustive: all multisets of <= 3 reads, each a subset of >= 2 of 5 positions (interleaved, nested, gapped), each with master block "
            "in {none, two fixed subsets} and heterozygous map in {none, two maps}; plus seeded larger structures; non-trivial = >= 2 reads")
    exhaustive_in = ("quick", "thorough")
    chunk = 500
    budget_s = {"quick": 60, "thorough": 600}

    def inputs(self, tier, rng):
        positions = [10, 20, 30, 40, 50]
        subsets = [list(c) for k in range(2, 6) for c in itertools.combinations(positions, k)]
        masters = [None, [20, 40], [10, 50, 30]]
        hets = [None, {"0": [10, 20, 30], "1": [30, 40, 50]}, {"0": [10, 30, 50], "1": [20, 40]}]
        for n in range(1, 4):
            for combo in itertools.combinations_with_replacement(range(len(subsets)), n):
                reads = [dict(sample=i % 2, positions=subsets[c]) for i, c in enumerate(combo)]
                for m in masters:
                    for h in hets:
                        phased = positions if (len(combo) + (0 if m is None else 1)) % 2 else [10, 20, 40, 50]
                        # precondition established by the caller: the master block consists of accessible (= phased) positions
                        mm = None if m is None else [p for p in m if p in phased]
                        yield dict(phased=phased, reads=reads, master=mm, het=h)
        for _ in range(2000 if tier == "quick" else 40000):
            k = rng.randint(4, 12)
            positions = sorted(rng.sample(range(1, 200), k))
            reads = [dict(sample=rng.randint(0, 1), positions=sorted(rng.sample(positions, rng.randint(1, min(k, 5))))) for _ in range(rng.randint(1, 8))]
            phased = sorted(rng.sample(positions, rng.randint(2, k)))
            m = None if rng.random() < 0.5 else sorted(rng.sample(phased, rng.randint(1, len(phased))))
            h = None if rng.random() < 0.5 else {str(s): sorted(rng.sample(positions, rng.randint(1, k))) for s in (0, 1)}
            yield dict(phased=phased, reads=reads, master=m, het=h)

    def nontrivial(self, inp):
        return len(inp["reads"]) >= 2

    def check(self, inp):
        from whatshap.core import Read, ReadSet
        from whatshap.cli.phase import find_components
        rs = ReadSet()
        for i, r in enumerate(inp["reads"]):
            read = Read("r%d" % i, 50, 0, r["sample"])
            for p in r["positions"]:
                read.add_variant(p, 0, 10)
            rs.add(read)
        het = None if inp["het"] is None else {int(k): set(v) for k, v in inp["het"].items()}
        got = find_components(list(inp["phased"]), rs, inp["master"], het)
        phased = set(inp["phased"])
        eff_reads = []
        for r in inp["reads"]:
            ps = [p for p in r["positions"] if p in phased and (het is None or p in het[r["sample"]])]
            eff_reads.append(ps)
        exp = components_by_search(inp["phased"], eff_reads, inp["master"])
        if dict(got) != exp:
            return dict(expected=str(exp), observed=str(dict(got)))
        return None


class PhaseSetsAreComponents(BCheck):
    name = "C03.run-phase-sets"
    contract = ("single-sample `whatshap phase`: every phased call's phase-set id (PS value, or HP block) equals 1 + the minimum position of its "
                "connected component computed independently from the reads the solver received; two phased variants share a set iff connected")
    rule = ("seeded scenarios with 1-3 phase-input VCFs whose blocks act as reads (interleaved/nested/gapped), 1-2 samples, 1-2 contigs, tags PS and HP, "
            "internal downsampling 2..15 so that read selection cuts components; non-trivial = some solver call received >= 2 reads")
    budget_s = {"quick": 90, "thorough": 900}
    chunk = 10

    def inputs(self, tier, rng):
        for i in range(1500 if tier == "quick" else 25000):
            r = random.Random(rng.getrandbits(64))
            g = PH.generate(r, k_files=(1, 4), main_kwargs=dict(n_samples=(1, 2), n_records=(5, 12), kinds=("snv", "snv", "snv", "ins", "del", "mnp", "multi"),
                                                                gt_kinds=("het", "het", "het", "het", "het_rev", "homref", "homalt", "missing")),
                            reads_kwargs=dict(reads_per_file=(1, 4), cover=0.7, contiguous=0.3), error_rate=0.1 if i % 3 == 0 else 0.0)
            yield dict(main_vcf=g["main_vcf"], phase_vcfs=g["phase_vcfs"], tag="PS" if i % 2 == 0 else "HP",
                       max_coverage=r.choice([15, 15, 4, 2, 3]))

    def nontrivial(self, inp):
        return len(inp["phase_vcfs"]) >= 2

    def check(self, inp):
        from runtime.phase_driver import run_phase
        res = run_phase(inp["main_vcf"], inp["phase_vcfs"], tag=inp["tag"], max_coverage=inp["max_coverage"])
        if res["error"]:
            return dict(expected="run_whatshap succeeds", observed=res["error"], traceback=res.get("traceback"))
        samples, records, phase = PH.decode_phasing(res["out"])
        # expected components per (chromosome, sample)
        exp = {}
        for call in res["solver_calls"]:
            if call["n_individuals"] != 1:
                continue
            fam = call["family"]
            if len(fam) != 1:
                return dict(expected="one sample per single-individual solver call", observed=str(fam))
            reads = [[v[0] for v in rd["variants"]] for rd in call["reads"]]
            positions = sorted({p for rd in reads for p in rd})
            exp[(call["chromosome"], fam[0])] = components_by_search(positions, reads)
        seen = set()
        for ri, rec in enumerate(records):
            first = (rec["chrom"], rec["pos"]) not in seen
            seen.add((rec["chrom"], rec["pos"]))
            for s in samples:
                if ri not in phase[s]:
                    continue
                blk = phase[s][ri][0]
                comp = exp.get((rec["chrom"], s), {})
                p0 = rec["pos"] - 1
                if p0 not in comp:
                    return dict(expected="%s:%d sample %s phased only if covered by a read given to the solver" % (rec["chrom"], rec["pos"], s),
                                observed="phase set %d" % blk)
                if blk != comp[p0] + 1:
                    return dict(expected="%s:%d sample %s phase set %d (leftmost variant of its read-connected component)" % (
                        rec["chrom"], rec["pos"], s, comp[p0] + 1), observed=blk)
        return None


class PedPhaseSets(BCheck):
    name = "C03.ped-phase-sets"
    contract = ("`whatshap phase --ped`: every phased call's phase-set id equals 1 + the minimum position of its component, where components are the "
                "read-connected components over the reads handed to the solver, with all components touching a variant that is homozygous in some family "
                "member (after phasing, when genotypes are distrusted) merged into one -- unless --no-genetic-haplotyping is given")
    rule = ("seeded trios/quartets (shuffled sample columns, optional unrelated sample), 0-3 phased VCFs as reads, x {trusted, --distrust-genotypes} x "
            "{genetic haplotyping on, off}; non-trivial = the family's solver call has >= 2 columns")
    budget_s = {"quick": 90, "thorough": 900}
    chunk = 10

    def inputs(self, tier, rng):
        from scenario import pedigree as PED
        for i in range(700 if tier == "quick" else 12000):
            r = random.Random(rng.getrandbits(64))
            fam = r.choice([("trio",), ("quartet",)])
            g = PED.generate(r, families=fam, unrelated=r.choice([0, 1]), k_files=(0, 3), cover=0.6, reads_per_file=(1, 3))
            yield dict(main_vcf=g["main_vcf"], phase_vcfs=g["phase_vcfs"], ped=g["ped"], distrust=(i % 2 == 1), genetic=(i % 4 != 3),
                       tag="PS" if i % 3 else "HP")

    def check(self, inp):
        from runtime.phase_driver import run_phase
        res = run_phase(inp["main_vcf"], inp["phase_vcfs"], ped=inp["ped"], tag=inp["tag"], distrust_genotypes=inp["distrust"],
                        genetic_haplotyping=inp["genetic"])
        if res["error"]:
            return dict(expected="run succeeds", observed=res["error"], traceback=res.get("traceback"))
        samples, records, phase = PH.decode_phasing(res["out"])
        _, _, inrecs = V.parse(inp["main_vcf"])
        exp = {}
        for call in res["solver_calls"]:
            fam = call["family"]
            reads = [[v[0] for v in rd["variants"]] for rd in call["reads"]]
            positions = list(call["positions"]) if call["positions"] is not None else sorted({p for rd in reads for p in rd})
            master = None
            if len(fam) > 1 and inp["genetic"]:
                hom = set()
                if inp["distrust"]:
                    for sr in call.get("superreads", []):
                        for v0, v1 in zip(sr[0]["variants"], sr[1]["variants"]):
                            if (v0[1], v1[1]) in ((0, 0), (1, 1)):
                                hom.add(v0[0])
                    het = {}
                    # under distrust, component building is restricted per read to positions heterozygous (after phasing) in that read's sample
                    for s, sr in zip(fam, call.get("superreads", [])):
                        het[s] = {v0[0] for v0, v1 in zip(sr[0]["variants"], sr[1]["variants"]) if (v0[1], v1[1]) in ((0, 1), (1, 0))}
                else:
                    for ri, rec in enumerate(inrecs):
                        if rec["chrom"] != call["chromosome"]:
                            continue
                        for s in fam:
                            al = V.gt_alleles(rec["calls"][samples.index(s)]["GT"])[0]
                            if None not in al and al[0] == al[1]:
                                hom.add(rec["pos"] - 1)
                master = sorted(hom & set(positions))
            eff = reads
            if inp["distrust"]:
                het = {}
                for s, sr in zip(fam, call.get("superreads", [])):
                    het[s] = {v0[0] for v0, v1 in zip(sr[0]["variants"], sr[1]["variants"]) if (v0[1], v1[1]) in ((0, 1), (1, 0))}
                eff = []
                for rd in call["reads"]:
                    s = rd["name"].rsplit("_phase_", 1)[0]
                    eff.append([v[0] for v in rd["variants"] if v[0] in het.get(s, set())])
            comp = components_by_search(positions, eff, master)
            for s in fam:
                exp[(call["chromosome"], s)] = comp
        for ri, rec in enumerate(records):
            for s in samples:
                if ri not in phase[s]:
                    continue
                comp = exp.get((rec["chrom"], s), {})
                p0 = rec["pos"] - 1
                blk = phase[s][ri][0]
                if p0 not in comp:
                    return dict(expected="%s:%d sample %s phased only if accessible" % (rec["chrom"], rec["pos"], s), observed=blk)
                if blk != comp[p0] + 1:
                    return dict(expected="%s:%d sample %s phase set %d (distrust=%s, genetic=%s)" % (rec["chrom"], rec["pos"], s, comp[p0] + 1, inp["distrust"], inp["genetic"]),
                                observed=blk)
        return None


B_CHECKS = [FindComponents(), PhaseSetsAreComponents(), PedPhaseSets()]
