"""C04 - the phased VCF is the input VCF plus phase information and nothing else."""
import random

from harness.runner import BCheck
from scenario import pedigree as PED, phasing as PH, vcf as V

LEVEL = "exploration"
LEVEL_TEXT = ("Deductive part (vcgen/z3, all inputs, over the axiomatised pysam model): PhasedVcfWriter._remove_existing_phasing clears HP and PS and every phase bit of the target samples' calls, sorts fully known genotypes (same allele multiset), leaves partially missing / absent genotypes, the calls of non-target samples and the FORMAT keys exactly as they were; VcfAugmenter._iterrecords (a generator over the reader's iterator object) yields the pending record and then exactly the next records of the requested chromosome in file order, stopping at - and keeping - the first record of another chromosome, and write_unchanged appends exactly that stream to the output, every record untouched (contracts/vcf_py.py). "
              ""
              "A LOOP-BODY contract for the record pass of PhasedVcfWriter.write (the loop verified as a unit over arbitrary per-sample result dictionaries; the code before it and the record modifier's write-after-yield are not): whichever `continue` a record takes, a call of a sample that is not being phased is untouched, and a call of a sample that is being phased ends either with NO phase statement (no phase bit, HP and PS empty wherever the record has those keys, whatever the input said) or with the NEW one in the run's encoding and nothing of the other encoding - with --tag=PS: genotype = the haplotype alleles in order, phase bits set, PS = component + 1, HP empty; with --tag=HP: HP set, no phase bit, PS empty (contracts/vcfwrite_py.py; _remove_existing_phasing enters through its proved contract, _set_phasing_tags through _set_PS's / _set_HP's proved postconditions, assuming only that __init__ bound the method that belongs to the tag). "
              "Bounded stand-in: whole `whatshap phase` runs (VCF-only phase inputs, no BAM needed) on generated multi-sample, multi-chromosome VCFs "
              "with arbitrary INFO/FORMAT fields, missing/partial genotypes, multi-ALT, symbolic and duplicate records and pre-existing phasing, over "
              "--sample/--chromosome selections, both tags and --only-snvs; the output is compared with the input record by record by an independent "
              "text differ that allows exactly the changes the statement allows. The main loop of PhasedVcfWriter.write is not under deductive contract "
              "(only the functions named above are).")
LEVEL_NOTE = "Trusted: htslib's text round trip of untouched fields (exercised by the differ itself); generator covers the stated shapes by seeded sampling, not exhaustively."
TECHNIQUE = "contract-based deductive verification of _remove_existing_phasing, _iterrecords, write_unchanged over a pysam model (vcgen, z3) + runtime contract on run_whatshap (frame + allowed-change differ) over generated VCFs"
D_MODULES = ["contracts.vcf_py", "contracts.vcfwrite_py"]
EXPLANATION = LEVEL_TEXT
TRUSTED_BASE = ["independent VCF text parser in scenario/vcf.py", "pysam/htslib serialisation"]
ASSUMPTIONS = ["phase information is supplied through phased VCFs (pseudo reads); BAM allele detection is covered by C02/C06"]


class PassThrough(BCheck):
    name = "C04.phase-passthrough"
    contract = ("run_whatshap output has the input's records in order with identical CHROM..INFO, samples, every FORMAT value other than GT/phase tag; "
                "non-selected samples/chromosomes untouched; GT allele multisets preserved (genotypes trusted); only heterozygous calls of biallelic, "
                "non-duplicate (and SNV under --only-snvs) records are marked phased; every input header definition still defined")
    rule = ("seeded scenarios: 1-2 contigs x 1-3 samples x 4-10 records (SNV/MNP/indel/multi-ALT/symbolic/duplicate positions; hom/het/missing/partial GTs; "
            "extra INFO/FORMAT fields), 1-3 phased VCFs as phase inputs with interleaved blocks, options drawn from tag PS|HP, --sample subset, "
            "--chromosome subset, --only-snvs, pre-existing PS phasing in the input; non-trivial = the output phases at least one call")
    budget_s = {"quick": 120, "thorough": 1200}
    chunk = 10

    def inputs(self, tier, rng):
        n = 3000 if tier == "quick" else 50000
        for i in range(n):
            r = random.Random(rng.getrandbits(64))
            if i % 6 == 5:
                # pedigree mode: family members are homozygous at sites where others are heterozygous (genetic phasing phases without reads)
                g = PED.generate(r, families=r.choice([("trio",), ("quartet",)]), unrelated=r.choice([0, 1]), k_files=(0, 2), crossover=0.1)
                yield dict(main_vcf=g["main_vcf"], phase_vcfs=g["phase_vcfs"], tag="PS" if i % 4 else "HP", samples=[], chromosomes=[], only_snvs=False, ped=g["ped"])
                continue
            pre = "PS" if i % 4 == 3 else None
            g = PH.generate(r, main_kwargs=dict(n_samples=(1, 3), phasing=pre, n_records=(4, 10), duplicates=0.3 if i % 3 == 0 else 0.1))
            sc = g["scenario"]
            tag = "PS" if (pre or i % 2 == 0) else "HP"
            samples = []
            if len(sc["samples"]) > 1 and r.random() < 0.5:
                samples = r.sample(sc["samples"], r.randint(1, len(sc["samples"]) - 1))
            chroms = []
            names = [c[0] for c in sc["contigs"]]
            if len(names) > 1 and r.random() < 0.4:
                chroms = [r.choice(names)]
            yield dict(main_vcf=g["main_vcf"], phase_vcfs=g["phase_vcfs"], tag=tag, samples=samples, chromosomes=chroms,
                       only_snvs=(r.random() < 0.4))

    def nontrivial(self, inp):
        return (len(inp["phase_vcfs"]) > 0 or inp.get("ped") is not None) and inp["main_vcf"].count("\n") > 8

    def check(self, inp):
        from runtime.phase_driver import run_phase
        from runtime.vcfdiff import compare_phase_output
        res = run_phase(inp["main_vcf"], inp["phase_vcfs"], tag=inp["tag"], samples=inp["samples"] or None,
                        chromosomes=inp["chromosomes"] or None, only_snvs=inp["only_snvs"], ped=inp.get("ped"))
        if res["error"]:
            return dict(expected="run_whatshap succeeds", observed=res["error"], traceback=res.get("traceback"))
        return compare_phase_output(inp["main_vcf"], res["out"], inp["tag"], inp["samples"], inp["chromosomes"], only_snvs=inp["only_snvs"])


class DistrustReadable(BCheck):
    name = "C04.distrust-output-well-formed"
    contract = ("with --distrust-genotypes (and --include-homozygous) the output is still a well-formed VCF that htslib reads back record by record, holds the input's "
                "records in order, and differs from the input only in the sample columns and the FORMAT key list (genotypes may change there: that is what the option is for)")
    rule = ("seeded scenarios whose phase inputs claim het at homozygous sites (so that genotypes change and homozygous positions are part of the phasing), tag PS|HP, "
            "--include-homozygous on/off; non-trivial = the run phases at least one call")
    budget_s = {"quick": 60, "thorough": 600}
    chunk = 10

    def inputs(self, tier, rng):
        for i in range(600 if tier == "quick" else 10000):
            r = random.Random(rng.getrandbits(64))
            g = PH.generate(r, k_files=(2, 4), error_rate=0.05, hom_as_het=0.5, main_kwargs=dict(n_samples=(1, 2), n_records=(4, 8), duplicates=0, extra_format=False,
                            kinds=("snv", "snv", "ins", "del"), gt_kinds=("het", "het", "het", "het_rev", "homref", "homalt")))
            yield dict(main_vcf=g["main_vcf"], phase_vcfs=g["phase_vcfs"], tag="HP" if i % 2 else "PS", include_homozygous=(i % 3 != 0))

    def check(self, inp):
        import os
        import tempfile
        import pysam
        from runtime.phase_driver import run_phase
        res = run_phase(inp["main_vcf"], inp["phase_vcfs"], tag=inp["tag"], distrust_genotypes=True, include_homozygous=inp["include_homozygous"])
        if res["error"]:
            return dict(expected="run_whatshap succeeds", observed=res["error"], traceback=res.get("traceback"))
        fd, path = tempfile.mkstemp(suffix=".vcf")
        try:
            with os.fdopen(fd, "w") as f:
                f.write(res["out"])
            try:
                with pysam.VariantFile(path) as vf:
                    n_read = sum(1 for _ in vf)
            except Exception as e:
                return dict(expected="htslib reads the output VCF", observed="%s: %s" % (type(e).__name__, e), clause="well-formed", tag=inp["tag"])
        finally:
            os.unlink(path)
        fixed = lambda text: [l.split("\t")[:8] for l in text.split("\n") if l and not l.startswith("#")]
        a, b = fixed(inp["main_vcf"]), fixed(res["out"])
        if n_read != len(a) or a != b:
            return dict(expected="the %d input records in order with identical CHROM..INFO columns" % len(a), observed="%d records read; first difference %r" % (
                n_read, next(((x, y) for x, y in zip(a, b) if x != y), None)), clause="records")
        return None


B_CHECKS = [PassThrough(), DistrustReadable()]
