"""C05 - pedigree phasing is Mendelian-consistent and ordered paternal|maternal."""
import random

from harness.runner import BCheck
from scenario import pedigree as PED, phasing as PH, vcf as V

LEVEL = "other"
LEVEL_TEXT = ("Deductive: mendelian_conflict (pedigree.py) verified for all diploid genotype triples; find_mendelian_conflicts (cli/phase.py) returns exactly the variant "
              "indices at which some trio with both parents known has three called genotypes in conflict, for any number of trios and variants (it uses "
              "mendelian_conflict through its contract); find_phaseable_variants phases a COPY of the table from which exactly those rows are removed where some family member's "
              "genotype is missing, or some trio is in conflict, or (without --include-homozygous) no family member is heterozygous - the rows written unphased for the whole "
              "family (contracts/phaseped_py.py); popcount (recombination term) verified for all 64-bit "
              "arguments. Bounded stand-in for the rest: the compiled PedigreeDPTable against the brute-force PedMEC oracle incl. identity by descent "
              "along the returned transmission (shared with C01), and whole `whatshap phase --ped` runs on generated trios/quartets (all genotype "
              "combinations incl. injected Mendelian conflicts and missing genotypes, with reads, without any read, uniform recombination costs): "
              "child a|b has a from the father's and b from the mother's genotype, conflict/missing variants unphased in all members, child-het "
              "variants with a homozygous parent phased without reads, output alleles equal the solver's super-reads.")
LEVEL_NOTE = "Proved: two leaf functions only. Trusted: PedMEC oracle, independent VCF decoder, z3."
TECHNIQUE = "contract-based deductive verification of mendelian_conflict and popcount (vcgen, z3) + bounded runtime contracts on PedigreeDPTable and run_whatshap --ped"
D_MODULES = ["contracts.pedigree_py", "contracts.phaseped_py", "contracts.pedigreedptable_cpp"]
EXPLANATION = LEVEL_TEXT
TRUSTED_BASE = ["z3/cvc5", "vcgen semantics", "Genotype modelled by its allele vector (as_vector assumed)"]
ASSUMPTIONS = ["find_mendelian_conflicts / find_phaseable_variants / create_pedigree are covered by the bounded run-level check only"]


def gt_of(rec, samples, s):
    call = rec["calls"][samples.index(s)]
    al, _ = V.gt_alleles(call["GT"]) if isinstance(call, dict) else V.gt_alleles(call[0])
    return al


class PedRuns(BCheck):
    name = "C05.ped-runs"
    contract = ("run_whatshap --ped, genotypes trusted: (1) every phased child genotype a|b has a among the father's alleles and b among the mother's; "
                "(2) variants with a Mendelian conflict or a missing genotype in the family are unphased in all members; (3) without --no-genetic-haplotyping "
                "a child-heterozygous variant with a homozygous parent is phased (paternal|maternal order forced by the homozygous parent) even with no read at all; "
                "(4) the run never aborts on such inputs; (5) written alleles equal the solver's non-tie super-read alleles")
    rule = ("seeded trios and two-child quartets (+ optional unrelated sample, shuffled sample columns), 4-9 variants per contig with genotypes from founder haplotypes "
            "and crossovers, injected conflicts (15%) and missing genotypes (10%), 0-2 phased VCFs as reads; non-trivial = some child call is phased")
    budget_s = {"quick": 100, "thorough": 1200}
    chunk = 10

    def inputs(self, tier, rng):
        for i in range(900 if tier == "quick" else 15000):
            r = random.Random(rng.getrandbits(64))
            fam = r.choice([("trio",), ("trio",), ("quartet",)])
            g = PED.generate(r, families=fam, unrelated=r.choice([0, 0, 1]), conflict=0.15 if i % 2 else 0.0, missing=0.1 if i % 3 == 0 else 0.0,
                             k_files=(0, 0) if i % 4 == 0 else (1, 2), crossover=0.1)
            main = g["main_vcf"]
            if i % 3 == 1:
                # a multi-allelic record (never phased) directly before a biallelic record at the same position: the biallelic one is still "the" variant there
                lines = main.rstrip("\n").split("\n")
                body = [k for k, l in enumerate(lines) if not l.startswith("#")]
                for k in sorted(r.sample(body, min(len(body), r.randint(1, 2))), reverse=True):
                    c = lines[k].split("\t")
                    others = [b for b in "ACGT" if b != c[3] and b != c[4]]
                    dup = c[:4] + [",".join(others)] + c[5:9] + ["0/0"] * (len(c) - 9)
                    lines.insert(k, "\t".join(dup))
                main = "\n".join(lines) + "\n"
            yield dict(main_vcf=main, phase_vcfs=g["phase_vcfs"], ped=g["ped"], trios=g["trios"], tag="PS" if i % 5 else "HP",
                       recombrate=r.choice([1.26, 1.26, 50.0, 1e5]), via_cli=(i % 4 == 2))

    def check(self, inp):
        from runtime.phase_driver import run_phase
        res = run_phase(inp["main_vcf"], inp["phase_vcfs"], ped=inp["ped"], tag=inp["tag"], recombrate=inp["recombrate"], lists=["recomb_list"],
                        via_cli=inp.get("via_cli", False))    # a quarter of the runs go through the command-line parser: its defaults are the "by default" of the statement
        if res["error"]:
            return dict(expected="run_whatshap --ped succeeds (conflicting/missing variants are skipped, not fatal)", observed=res["error"],
                        traceback=res.get("traceback"), clause="abort")
        samples, records, phase = PH.decode_phasing(res["out"])
        _, _, inrecs = V.parse(inp["main_vcf"])
        family = {x for t in inp["trios"] for x in t}
        for ri, rec in enumerate(records):
            gts = {s: V.gt_alleles(inrecs[ri]["calls"][samples.index(s)]["GT"])[0] for s in samples}
            fam_missing = any(None in gts[s] for s in family)
            conflict = False
            for f, m, c in inp["trios"]:
                if None in gts[f] + gts[m] + gts[c]:
                    continue
                a, b = gts[c]
                if not ((a in gts[f] and b in gts[m]) or (b in gts[f] and a in gts[m])):
                    conflict = True
            where = "%s:%d" % (rec["chrom"], rec["pos"])
            if fam_missing or conflict:
                for s in family:
                    if ri in phase[s]:
                        return dict(expected="%s: %s in the family -> unphased in all members" % (where, "missing genotype" if fam_missing else "Mendelian conflict"),
                                    observed="%s phased %r" % (s, phase[s][ri]), clause="conflict-unphased")
                continue
            for f, m, c in inp["trios"]:
                if ri in phase[c]:
                    a, b = phase[c][ri][1]
                    if a not in gts[f] or b not in gts[m]:
                        return dict(expected="%s: child %s a|b with a in father's %r and b in mother's %r" % (where, c, gts[f], gts[m]), observed="%d|%d" % (a, b),
                                    clause="paternal|maternal")
                het_c = gts[c][0] != gts[c][1]
                hom_f, hom_m = gts[f][0] == gts[f][1], gts[m][0] == gts[m][1]
                if het_c and (hom_f or hom_m):
                    if ri not in phase[c]:
                        return dict(expected="%s: child %s heterozygous with a homozygous parent is phased (genetic haplotyping)" % (where, c), observed="unphased",
                                    clause="genetic-phasing")
                    a, b = phase[c][ri][1]
                    if hom_f and a != gts[f][0]:
                        return dict(expected="%s: child %s paternal allele %d (father homozygous)" % (where, c, gts[f][0]), observed="%d|%d" % (a, b), clause="paternal|maternal")
                    if hom_m and b != gts[m][0]:
                        return dict(expected="%s: child %s maternal allele %d (mother homozygous)" % (where, c, gts[m][0]), observed="%d|%d" % (a, b), clause="paternal|maternal")
        # the reported transmission (recombination list) selects the parental haplotype whose allele the child carries, on both sides of every event
        index_of = {(rec["chrom"], rec["pos"]): ri for ri, rec in enumerate(records)}
        parents = {c: (f, m) for f, m, c in inp["trios"]}
        for line in (res.get("recomb_list") or "").split("\n"):
            if not line or line.startswith("#"):
                continue
            x = line.split()
            child, chrom, p1, p2 = x[0], x[1], int(x[2]), int(x[3])
            tf, tm = (int(x[4]), int(x[5])), (int(x[6]), int(x[7]))
            if child not in parents or (chrom, p1) not in index_of or (chrom, p2) not in index_of:
                return dict(expected="recombination list rows name a child of the pedigree and two variant positions of the VCF", observed=line, clause="recombination-list")
            if tf[0] == tf[1] and tm[0] == tm[1]:
                return dict(expected="a listed recombination changes the transmitted haplotype of at least one parent", observed=line, clause="recombination-list")
            for pos, t_f, t_m in ((p1, tf[0], tm[0]), (p2, tf[1], tm[1])):
                ri = index_of[(chrom, pos)]
                gts = {s: V.gt_alleles(inrecs[ri]["calls"][samples.index(s)]["GT"])[0] for s in samples}
                if ri in phase[child]:
                    cps, (c_pat, c_mat) = phase[child][ri][0], phase[child][ri][1]
                elif None not in gts[child] and gts[child][0] == gts[child][1]:
                    cps, (c_pat, c_mat) = None, gts[child]
                else:
                    continue
                for parent, t, c_allele, what in ((parents[child][0], t_f, c_pat, "paternal"), (parents[child][1], t_m, c_mat, "maternal")):
                    if ri not in phase[parent]:
                        continue
                    pps, haps = phase[parent][ri][0], phase[parent][ri][1]
                    if haps[0] == haps[1] or (cps is not None and pps != cps):
                        continue
                    if haps[1 - t] != c_allele:
                        return dict(expected="%s:%d child %s: reported %s transmission %d selects allele %d of %s (%d|%d)" % (chrom, pos, child, what, t, haps[1 - t], parent, haps[0], haps[1]),
                                    observed="child's %s allele is %d; list row: %s" % (what, c_allele, line), clause="recombination-list")
        # written alleles == solver's super-read alleles
        for call in res["solver_calls"]:
            for s, sr in zip(call["family"], call.get("superreads", [])):
                col = {v0[0]: (v0[1], v1[1]) for v0, v1 in zip(sr[0]["variants"], sr[1]["variants"])}
                for ri, rec in enumerate(records):
                    if rec["chrom"] != call["chromosome"] or ri not in phase[s]:
                        continue
                    want = col.get(rec["pos"] - 1)
                    if want is None or tuple(want) != tuple(phase[s][ri][1]):
                        return dict(expected="%s:%d %s written alleles == super-read alleles %r" % (rec["chrom"], rec["pos"], s, want), observed=str(phase[s][ri][1]),
                                    clause="writer")
        return None


class PedMecIbd(BCheck):
    """The solver-level part (identity by descent along the returned transmission vector) is the `ibd` clause of the C01 oracle;
    it is run here on pedigree instances only."""
    name = "C05.solver-ibd"
    contract = ("PedigreeDPTable in pedigree mode: for every triple, column and returned transmission value the child's non-tie alleles equal the non-tie alleles "
                "of the parental haplotypes selected by that value (father: 1-bit 2i, mother: 1-bit 2i+1), and the cost/witness clauses of C01")
    rule = "seeded trios, quartets, trio+unrelated from the C01 instance generator, trusted and distrusted genotypes; non-trivial = at least one read per family"
    budget_s = {"quick": 60, "thorough": 900}
    chunk = 40

    def inputs(self, tier, rng):
        from props.C01 import random_instance, forced_crossover
        scale = 4 if tier == "quick" else 60
        for i in range(400 * scale):
            yield random_instance(rng, "trio", rng.randint(2, 5), rng.randint(0, 6), 4, distrust=(i % 4 == 0), extra_cols=(i % 3 == 0))
        for i in range(100 * scale):
            yield random_instance(rng, "quartet", rng.randint(2, 4), rng.randint(0, 5), 3, distrust=(i % 4 == 0), extra_cols=(i % 3 == 0))

    def nontrivial(self, inst):
        return len(inst["reads"]) > 0

    def check(self, inst):
        from runtime.pedmec import check_instance
        return check_instance(inst)


B_CHECKS = [PedRuns(), PedMecIbd()]
