"""C06 - allele detection never assigns the wrong allele to an error-free read."""
import os
import random
import shutil
import tempfile

from harness.runner import BCheck
from scenario import bam as BAM

LEVEL = "exploration"
LEVEL_TEXT = ("Deductive part (vcgen/z3, all inputs): _iterate_cigar (_variants.pyx, read through Cython's parser): every tuple the lock-step walk yields is sound - the variant lies inside (M,=,X,D, at the reported offset) or at the insertion point of (I) the named CIGAR element, never inside a reference skip, clip or padding, and the reported query position is the read offset of that reference position; variant indices increase strictly. cigar_prefix_length: prefix sums, stops at N with the consumed length. "
              "Bounded stand-in: the real ReadSetReader is run on generated "
              "BAMs whose reads are exact copies of one true haplotype (exact CIGARs with S/H clips, =/X, unrelated private indels (>= 15 bp from any variant with a reference; without one >= 3 bp, or an insertion 1..L-1 bases left of an insertion variant), "
              "reference skips next to and across variants, mate pairs); for every read and every variant its aligned blocks fully cover, the recorded allele "
              "must be the haplotype's allele (always found with a reference; never the other one without a reference for SNVs and unshiftable indels), and "
              "nothing may be recorded for variants outside the aligned blocks.")
LEVEL_NOTE = "Seeded sampling. Trusted: scenario generator. 'Unshiftable' as defined in DESIGN.md (C06)."
TECHNIQUE = "bounded runtime contract on ReadSetReader.read (re-alignment and CIGAR paths) over generated BAMs with known haplotype of origin per read"
D_MODULES = ["contracts.variants_py", "contracts.variants_pyx"]
EXPLANATION = LEVEL_TEXT
TRUSTED_BASE = ["scenario/bam.py"]
ASSUMPTIONS = ["variants >= 12 bp apart, indels left-normalised; reads whose end falls inside a variant's REF span are not judged at that variant"]


def unshiftable(ref, v):
    """no equivalent placement of the indel exists (needed only for the no-reference clause)"""
    if v["kind"] == "ins":
        ins = v["alt"][1:]
        a = v["ref"]
        nxt = ref[v["pos"] + 1] if v["pos"] + 1 < len(ref) else "N"
        return ins[-1] != a and ins[0] != nxt
    if v["kind"] == "del":
        d = v["ref"][1:]
        a = v["ref"][0]
        e = v["pos"] + len(v["ref"])
        nxt = ref[e] if e < len(ref) else "N"
        return d[-1] != a and d[0] != nxt
    return True


def private_indel(rng, c, rd, noref):
    """The read's haplotype additionally carries an indel that is not in the VCF (an 'unrelated' indel): the read stays an exact copy of that
    haplotype and its CIGAR shows the indel where it is.  Two placements:
      far  - >= 15 reference bases (re-alignment window and margin) from every variant span with a reference, >= 3 without one;
      near - (no-reference path only) an insertion of 2-6 bases whose reference position r lies 1..L-1 bases left of the normalised position of an
             insertion variant, i.e. the variant's position is within r+1 .. r+L-1; its bases are chosen (half of the time) so that the bases at
             that offset spell the variant's inserted sequence.
    Returns the rewritten read or None."""
    cig = [tuple(x) for x in rd["cigar"]]
    if not all(op in ("M", "=", "X", "I", "D") for op, _ in cig):
        return None
    spans = [(v["pos"], v["pos"] + len(v["ref"])) for v in c["variants"]]
    # candidate elements: M/= runs
    elems = []
    ref_pos, q = rd["start"], 0
    for idx, (op, n) in enumerate(cig):
        if op in ("M", "="):
            elems.append((idx, ref_pos, q, n, op))
        if op in ("M", "=", "X", "D"):
            ref_pos += n
        if op in ("M", "=", "X", "I"):
            q += n
    if not elems:
        return None
    near = []
    if noref:
        for v in c["variants"]:
            if v["kind"] == "ins":
                p = v["pos"] + 1
                for idx, a, qa, n, op in elems:
                    if a + 1 < p <= a + n - 1:      # p strictly inside the run, at least two bases after its start
                        near.append((v, idx, a, qa, n, op))
    if near and rng.random() < 0.5:
        v, idx, a, qa, n, op = rng.choice(near)
        p = v["pos"] + 1
        L = rng.randint(2, 6)
        r = rng.randint(max(a + 1, p - L + 1), p - 1)
        bases = BAM.rand_seq(rng, L)
        ins = v["alt"][1:]
        if rng.random() < 0.5:
            off = p - r
            bases = (bases[:off] + ins + bases[off + len(ins):])[:L]
        k = r - a
        new = cig[:idx] + [(op, k), ("I", L), (op, n - k)] + cig[idx + 1:]
        seq = rd["seq"][:qa + k] + bases + rd["seq"][qa + k:]
        return dict(rd, cigar=[list(t) for t in new], seq=seq, private="near")
    margin = 3 if noref else 15
    for _ in range(8):
        idx, a, qa, n, op = rng.choice(elems)
        if n < 8:
            continue
        L = rng.randint(1, 5)
        dele = rng.random() < 0.5
        r = rng.randint(a + 2, a + n - 2 - (L if dele else 0)) if a + 2 <= a + n - 2 - (L if dele else 0) else None
        if r is None:
            continue
        lo, hi = (r, r + L) if dele else (r, r)
        if any(lo - margin < ve and vs < hi + margin for vs, ve in spans):
            continue
        k = r - a
        if dele:
            new = cig[:idx] + [(op, k), ("D", L), (op, n - k - L)] + cig[idx + 1:]
            seq = rd["seq"][:qa + k] + rd["seq"][qa + k + L:]
        else:
            new = cig[:idx] + [(op, k), ("I", L), (op, n - k)] + cig[idx + 1:]
            seq = rd["seq"][:qa + k] + BAM.rand_seq(rng, L) + rd["seq"][qa + k:]
        return dict(rd, cigar=[list(t) for t in new], seq=seq, private="far")
    return None


def decorate(rng, sc, hardclip=0.15, splice=0.25, private=0.0, noref=False):
    """Rewrite some reads with harder CIGAR shapes (still exact copies of their haplotype)."""
    out = []
    for rd in sc["reads"]:
        c = [x for x in sc["contigs"] if x["name"] == rd["contig"]][0]
        haps = sc["truth"][rd["sample"]][c["name"]]
        blocks = BAM.aligned_blocks(rd["start"], [tuple(x) for x in rd["cigar"]])
        a, b = blocks[0][0], blocks[-1][1]
        plain = all(op in ("M", "=", "X", "I", "D") for op, _ in rd["cigar"])
        r = rng.random()
        if plain and r < splice and b - a > 40:
            # reference skip: choose a gap that starts/ends outside variant spans; it may lie right next to a variant or swallow variants
            x = BAM.snap(c["variants"], rng.randint(a + 8, b - 20), True)
            y = BAM.snap(c["variants"], min(b - 8, x + rng.randint(1, 40)), False)
            if a + 5 < x < y < b - 5:
                try:
                    seq, cigar, start = BAM.spliced_read(c["seq"], c["variants"], haps[rd["hap"]], a, x, y, b)
                    rd = dict(rd, seq=seq, cigar=[list(t) for t in cigar], start=start)
                except ValueError:
                    pass
        if private and rng.random() < private:
            rd = private_indel(rng, c, rd, noref) or rd
        if rng.random() < hardclip:
            k = rng.randint(1, 30)
            if rng.random() < 0.6:
                rd = dict(rd, cigar=[["H", k]] + rd["cigar"])
            else:
                rd = dict(rd, cigar=rd["cigar"] + [["H", k]])
        out.append(rd)
    sc["reads"] = out
    return sc


class AlleleDetection(BCheck):
    name = "C06.allele-detection"
    contract = ("ReadSetReader.read on error-free reads: for every variant fully inside an aligned block of the read the recorded allele is the allele of the read's "
                "haplotype or (only without a reference) absent - never the other allele; with a reference it is always present; no allele for variants outside the "
                "aligned blocks (before/after the read, inside a reference skip)")
    rule = ("seeded BAM scenarios: reference 300-500 bp, 3-8 variants (SNV/MNP/ins/del) >= 12 bp apart, reads 40-150 bp at every offset, soft/hard clips, =/X CIGARs, reference "
            "skips of 1-40 bp adjacent to or across variants, with and without reference; non-trivial = a read covers >= 1 variant")
    budget_s = {"quick": 120, "thorough": 1500}
    chunk = 4

    def inputs(self, tier, rng):
        for i in range(3000 if tier == "quick" else 40000):
            yield dict(seed=rng.getrandbits(48), noref=(i % 3 == 2), splice=(0.5 if i % 2 else 0.0), hard=(0.2 if i % 4 == 0 else 0.0),
                       private=(0.4 if i % 5 in (2, 3) else 0.0))

    def scenario(self, inp):
        r = random.Random(inp["seed"])
        kinds = r.choice([("snv", "snv", "ins", "del", "mnp"), ("ins", "del"), ("snv", "mnp"), ("snv",), ("del",), ("ins",)])
        sc = BAM.generate(r, n_samples=(1, 1), kinds=kinds, depth=(2, 5), read_len=(40, 150), softclip=0.3, eqx=0.3)
        return decorate(r, sc, hardclip=inp["hard"], splice=inp["splice"], private=inp.get("private", 0.0), noref=inp["noref"])

    def check(self, inp):
        from whatshap.core import NumericSampleIds
        from whatshap.variants import ReadSetReader
        from whatshap.vcf import VcfReader
        sc = self.scenario(inp)
        d = tempfile.mkdtemp(prefix="c06_")
        try:
            paths = BAM.materialize(sc, d)
            vcf = os.path.join(d, "v.vcf")
            with open(vcf, "w") as f:
                f.write(BAM.vcf_text(sc))
            tables = {t.chromosome: t for t in VcfReader(vcf)}
            ids = NumericSampleIds()
            reader = ReadSetReader([paths["bam"]], None if inp["noref"] else paths["fasta"], ids)
            by_name = {rd["name"]: rd for rd in sc["reads"]}
            for c in sc["contigs"]:
                table = tables.get(c["name"])
                if table is None:
                    continue
                for s in sc["samples"]:
                    rs = reader.read(c["name"], table.variants, s, None if inp["noref"] else c["seq"])
                    seen = set()
                    for read in rs:
                        rd = by_name[read.name]
                        seen.add(read.name)
                        r = self.judge(sc, c, rd, {v.position: v.allele for v in read}, inp["noref"])
                        if r:
                            return r
                    # reads that do not appear in the read set recorded nothing: with a reference every fully covered variant must be found
                    if not inp["noref"]:
                        for rd in sc["reads"]:
                            if rd["contig"] == c["name"] and rd["sample"] == s and rd["name"] not in seen:
                                r = self.judge(sc, c, rd, {}, False)
                                if r:
                                    return r
            return None
        finally:
            shutil.rmtree(d, ignore_errors=True)

    def judge(self, sc, c, rd, got, noref):
        haps = sc["truth"][rd["sample"]][c["name"]]
        blocks = BAM.aligned_blocks(rd["start"], [tuple(x) for x in rd["cigar"]])
        for i, v in enumerate(c["variants"]):
            vs, ve = v["pos"], v["pos"] + len(v["ref"])
            inside = any(bs <= vs and ve <= be for bs, be in blocks)
            # a variant whose REF span merely abuts an aligned block (e.g. an insertion whose anchor base is the base before the read's first
            # aligned base) is a boundary case the statement does not decide; 'not overlapped' is asserted only beyond that
            touches = any(vs <= be and bs <= ve for bs, be in blocks)
            truth = haps[rd["hap"]][i]
            desc = "%s read %s (start %d, cigar %s), variant %s:%d %s>%s" % ("no-ref" if noref else "ref", rd["name"], rd["start"],
                                                                         "".join("%d%s" % (n, op) for op, n in rd["cigar"]), c["name"], v["pos"] + 1, v["ref"], v["alt"])
            if v["pos"] in got:
                if not touches:
                    return dict(expected="%s: not overlapped -> no allele" % desc, observed=got[v["pos"]], clause="not-overlapped")
                if inside and got[v["pos"]] != truth:
                    if noref and v["kind"] in ("ins", "del") and not unshiftable(c["seq"], v):
                        continue
                    if noref and v["kind"] == "mnp":
                        continue
                    return dict(expected="%s: allele %d (haplotype of origin)" % (desc, truth), observed=got[v["pos"]], clause="wrong-allele")
            elif inside and not noref:
                return dict(expected="%s: allele %d found by re-alignment" % (desc, truth), observed="no allele", clause="missing-allele")
            elif inside and noref and v["kind"] == "snv":
                return dict(expected="%s: allele %d (SNVs are always found without a reference)" % (desc, truth), observed="no allele", clause="missing-allele")
        return None


B_CHECKS = [AlleleDetection()]
