"""C07 - read selection never exceeds the coverage cap and leaves no admissible read out."""
import itertools
import random

from harness.runner import BCheck
from scenario import pedigree as PED, phasing as PH

LEVEL = "other"
LEVEL_TEXT = ("Deductive, all inputs, on the real sources: CovMonitor (coverage.py: add_read adds one exactly on [begin,end), max_coverage_in_range is the maximum "
              "over the range); the priority queue (priorityqueue.pyx, all operations); and readselect.pyx read through Cython's parser: _slice_read_selection, "
              "_construct_indexes, _construct_priorityqueue, _compute_score_for_read, _update_score_for_reads, readselection_helper and readselection. Proved for readselection: every selected index is an input read; for every variant "
              "index the number of selected reads spanning it (ghost SPANCOUNT, tied to the coverage monitor by 'coverage[k] == count' through every add_read) is <= "
              "max_cov; every read left out spans a variant that is already covered max_cov times (maximality) - with and without preferred sources and bridging; no "
              "KeyError/IndexError/out-of-range C++ access on the way. The family budget f*max(1, k//f) <= k is a lemma over the expression read from phase.py. "
              "The two scoring functions are verified for what the selection relies on (a fresh three-component vector, no existing score written, every accessor in range, "
              "no index into an empty list; which read the queue returns is irrelevant for these properties: pops go through an order-free contract). "
              "_construct_indexes is verified too: every variant position of every read has an index below len(positions), positions[index] is that position, the "
              "variant -> reads map has an entry for it, and the index of a read's first variant does not exceed that of its last (dict comprehension, defaultdict(list), "
              "two loops); SPAN_B/SPAN_E are ghost NAMES of those indices, defined at that call. The C++ read set enters through stated input invariants (READSET_OK: "
              "positions within a read strictly increase, get_positions() is the strictly increasing list covering them). "
              "Assumed (listed in the evidence): PriorityQueue.pop = c_pop, those C++ read-set invariants, SPANCOUNT's two counting axioms (its definition), termination; additivity over disjoint unions is discharged as a lemma group (base + step; the induction over the finite set is meta-level). Bounded stand-in for those and for the phase.py caller: the compiled readselection on all read sets over "
              "<= 5 variants x <= 4 reads (plus seeded larger ones) x caps 1-3 x bridging x preferred sources against an independent recount (subset, span coverage <= "
              "k, maximality), and whole --ped runs in which the reads handed to the solver are recounted per family.")
LEVEL_NOTE = ("Proved: coverage.py, priorityqueue.pyx, readselect.pyx (7 functions) and the budget lemma. Trusted: z3/cvc5, vcgen semantics incl. the Cython lowering, the C++ "
              "ReadSet/Read accessor model. Not proved: the values of the scores, the C++ ReadSet invariants, select_reads in phase.py (bounded).")
TECHNIQUE = "contract-based deductive verification of CovMonitor, PriorityQueue and readselect.pyx (vcgen over Cython's parse tree, z3) + bounded runtime contract on the compiled readselection and on run_whatshap"
D_MODULES = ["contracts.coverage_py", "contracts.priorityqueue_pyx", "contracts.readselect_pyx"]
EXPLANATION = LEVEL_TEXT
TRUSTED_BASE = ["z3/cvc5", "vcgen Python semantics (lists as arrays + length)"]
ASSUMPTIONS = ["select_reads in cli/phase.py (per-sample cap, family merge) is covered by the bounded check only", "termination of the read selection loops is not proved"]


def span_coverage(positions, reads, selected):
    """cov[v] = number of selected reads whose span (first..last covered variant, by index) contains v"""
    idx = {p: i for i, p in enumerate(positions)}
    cov = [0] * len(positions)
    for r in selected:
        a, b = idx[reads[r][0]], idx[reads[r][-1]]
        for v in range(a, b + 1):
            cov[v] += 1
    return cov, idx


class ReadSelection(BCheck):
    name = "C07.readselection"
    contract = ("readselection(readset, k, preferred, bridging) returns a subset S of the read indices such that no variant is spanned by more than k "
                "reads of S, and every read not in S spans a variant that S already spans k times (maximality)")
    rule = ("exhaustive: all multisets of <= 4 reads, each a subset of >= 2 of 5 variant positions (gapped/nested/paired shapes), x k in {1,2,3} x bridging "
            "on/off x preferred source {none, odd-numbered reads}; plus seeded sets of up to 14 reads over up to 10 variants; non-trivial = some read is left out")
    exhaustive_in = ("thorough",)
    chunk = 400
    budget_s = {"quick": 100, "thorough": 1500}

    def inputs(self, tier, rng):
        positions = [100, 200, 300, 400, 500]
        subsets = [list(c) for n in range(2, 6) for c in itertools.combinations(positions, n)]
        maxn = 3 if tier == "quick" else 4
        for n in range(1, maxn + 1):
            for combo in itertools.combinations_with_replacement(range(len(subsets)), n):
                for k in (1, 2, 3):
                    if k > n:
                        continue
                    for bridging in (True, False):
                        for pref in (False, True):
                            yield dict(reads=[subsets[c] for c in combo], k=k, bridging=bridging, preferred=pref)
        for _ in range(4000 if tier == "quick" else 60000):
            nv = rng.randint(3, 10)
            positions = sorted(rng.sample(range(10, 500), nv))
            reads = []
            for _ in range(rng.randint(2, 14)):
                a = rng.randrange(nv - 1)
                b = rng.randrange(a + 1, nv)
                inner = [p for p in positions[a + 1:b] if rng.random() < 0.6]
                reads.append([positions[a]] + inner + [positions[b]])
            yield dict(reads=reads, k=rng.randint(1, 4), bridging=rng.random() < 0.6, preferred=rng.random() < 0.4)

    def nontrivial(self, inp):
        return len(inp["reads"]) > inp["k"]

    def check(self, inp):
        from whatshap.core import Read, ReadSet
        from whatshap.readselect import readselection
        rs = ReadSet()
        reads = sorted(inp["reads"], key=lambda r: r[0])
        for i, r in enumerate(reads):
            rd = Read("r%d" % i, 50, (i % 2) if inp["preferred"] else 0, 0)
            for p in r:
                rd.add_variant(p, (i + p // 100) % 2, 10 + (i * 7) % 20)
            rs.add(rd)
        rs.sort()
        ordered = [[v.position for v in rd] for rd in rs]
        sel = readselection(rs, inp["k"], {1} if inp["preferred"] else None, inp["bridging"])
        sel = set(sel)
        if not sel <= set(range(len(ordered))):
            return dict(expected="subset of read indices", observed=sorted(sel))
        positions = sorted({p for r in ordered for p in r})
        cov, idx = span_coverage(positions, ordered, sel)
        if max(cov) > inp["k"]:
            return dict(expected="span coverage <= %d at every variant" % inp["k"], observed=cov, selected=sorted(sel), clause="cap")
        for r in range(len(ordered)):
            if r in sel:
                continue
            a, b = idx[ordered[r][0]], idx[ordered[r][-1]]
            if max(cov[a:b + 1]) < inp["k"]:
                return dict(expected="read %d %r left out only if some variant in its span is already spanned %d times" % (r, ordered[r], inp["k"]),
                            observed="coverage over its span %r, selected %r" % (cov[a:b + 1], sorted(sel)), clause="maximality",
                            preferred=inp["preferred"])
        return None


class FamilyCap(BCheck):
    name = "C07.family-cap"
    contract = ("with the default exact algorithm, the reads handed to the solver for one family never span a variant (column of the solver) more than "
                "--internal-downsampling = k times in total over all members, and single-sample runs never more than k")
    rule = ("seeded --ped scenarios (trio, quartet, trio + unrelated sample; 1-2 contigs) with 2-5 phased VCFs as read sources so that raw depth exceeds k, "
            "k in {3,4,6,8,15}; and single-sample scenarios; non-trivial = more reads offered than selected")
    budget_s = {"quick": 100, "thorough": 1200}
    chunk = 8

    def inputs(self, tier, rng):
        for i in range(500 if tier == "quick" else 8000):
            r = random.Random(rng.getrandbits(64))
            if i % 3 == 0:
                g = PH.generate(r, k_files=(3, 6), main_kwargs=dict(n_samples=(1, 2), n_records=(5, 10), duplicates=0, kinds=("snv",),
                                                                    gt_kinds=("het", "het", "het", "het_rev", "homref")),
                                reads_kwargs=dict(reads_per_file=(1, 3), cover=0.9, contiguous=0.5))
                yield dict(main_vcf=g["main_vcf"], phase_vcfs=g["phase_vcfs"], ped=None, k=r.choice([2, 3, 4, 15]))
            else:
                fam = r.choice([("trio",), ("quartet",), ("trio",)])
                g = PED.generate(r, families=fam, unrelated=r.choice([0, 0, 1]), k_files=(3, 6), reads_per_file=(1, 3), cover=0.9)
                # the statement's precondition: the family has at most k members
                fsize = 3 if fam == ("trio",) else 4
                yield dict(main_vcf=g["main_vcf"], phase_vcfs=g["phase_vcfs"], ped=g["ped"], k=r.choice([x for x in (3, 4, 5, 6, 8, 15) if x >= fsize]))

    def check(self, inp):
        from runtime.phase_driver import run_phase
        res = run_phase(inp["main_vcf"], inp["phase_vcfs"], ped=inp["ped"], max_coverage=inp["k"], coverage_guard=inp["k"])
        if res.get("coverage_violation"):
            v = res["coverage_violation"]
            return dict(expected="at most %d reads span any solver column (family %r on %s)" % (inp["k"], v["family"], v["chromosome"]), observed=v["coverage"])
        if res["error"]:
            return dict(expected="run succeeds", observed=res["error"], traceback=res.get("traceback"))
        for call in res["solver_calls"]:
            reads = [[v[0] for v in rd["variants"]] for rd in call["reads"]]
            if not reads:
                continue
            positions = call["positions"] or sorted({p for r in reads for p in r})
            cov = [0] * len(positions)
            for r in reads:
                for j, p in enumerate(positions):
                    if r[0] <= p <= r[-1]:
                        cov[j] += 1
            if max(cov) > inp["k"]:
                return dict(expected="at most %d reads span any solver column (family %r on %s)" % (inp["k"], call["family"], call["chromosome"]),
                            observed=cov)
        return None


B_CHECKS = [ReadSelection(), FamilyCap()]
