"""C08 - genotyping reports the exact posterior of its HMM; GT, GL and GQ agree."""
import math
import random

from harness.runner import BCheck

LEVEL = "exploration"
LEVEL_TEXT = ("Floating-point forward-backward over a C++ DP is outside this family ('weak or silent on floating point'): nothing is claimed as proved. "
              "Bounded stand-in: the compiled GenotypeDPTable against a plain summation of the documented HMM (global bipartition x transmission x "
              "allele assignment) on generated single individuals, trios and quartets (weights incl. 0 and >= 256, prior triples, recombination costs, "
              ">= 4 columns so that the sqrt(n) backward checkpoint is exercised); determine_genotype and the GT/GL/GQ consistency of the written VCF "
              "are checked on run_genotype outputs. The Gray-code enumerator both tables rely on is proved (contracts/graycodes_cpp.py).")
LEVEL_NOTE = "Tolerance 1e-9 absolute on probabilities. Trusted: the summation oracle (runtime/genohmm.py)."
TECHNIQUE = "bounded runtime contract against a plain-summation HMM oracle (floating point is outside deductive reach); GrayCodes leaf proved by vcgen/z3"
D_MODULES = ["contracts.graycodes_cpp", "contracts.genotype_py"]
EXPLANATION = LEVEL_TEXT
TRUSTED_BASE = ["plain-summation oracle runtime/genohmm.py", "IEEE double arithmetic with tolerance 1e-9"]
ASSUMPTIONS = ["floats compared with absolute tolerance 1e-9", "the HMM definition is the one fixed in DESIGN.md (C08)"]

SHAPES = {"single": (1, []), "trio": (3, [[0, 1, 2]]), "quartet": (4, [[0, 1, 2], [0, 1, 3]]), "pair": (2, [])}
PRIORS = [[1 / 3, 1 / 3, 1 / 3], [0.25, 0.5, 0.25], [0.9, 0.09, 0.01], [0.1, 0.1, 0.8], [0.0, 0.5, 0.5], [0.6, 0.4, 0.0]]


def instance(rng, shape, m, n_reads, qualities):
    n, triples = SHAPES[shape]
    reads = []
    for _ in range(n_reads):
        # reads cover at least two variants (run_genotype filters the others out; the backward iterator asserts it)
        a = rng.randrange(m - 1)
        b = rng.randrange(a + 1, m)
        cols = [c for c in range(a, b + 1) if c in (a, b) or rng.random() > 0.2]
        reads.append(dict(ind=rng.randrange(n), entries=[[c, rng.randint(0, 1), rng.choice(qualities)] for c in cols]))
    reads.sort(key=lambda r: r["entries"][0][0])
    return dict(n_ind=n, triples=triples, positions=[10 * (i + 1) for i in range(m)], recomb=[rng.choice([1, 5, 20, 0, 40]) for _ in range(m)],
                priors=[[rng.choice(PRIORS) for _ in range(m)] for _ in range(n)], reads=reads)


class HmmPosterior(BCheck):
    name = "C08.hmm-posterior"
    contract = ("GenotypeDPTable.get_genotype_likelihoods(sample, column) == posterior genotype probabilities of the documented HMM by plain summation "
                "(|difference| <= 1e-9), non-negative, summing to 1")
    rule = ("seeded instances: single individuals (<= 6 reads x 2-7 columns), unrelated pairs, trios (<= 4 reads x 2-4 columns), quartets (<= 3 reads x 2-3 "
            "columns); entry qualities from {0,1,3,10,17,30,60,255,256,257,263,300} (lookup table boundary 256), priors from 6 triples incl. zeros, "
            "recombination costs {0,1,5,20,40}; non-trivial = at least two reads share a column")
    budget_s = {"quick": 120, "thorough": 1500}
    chunk = 20

    Q = [0, 1, 3, 10, 17, 30, 60, 255, 256, 257, 263, 300]

    def inputs(self, tier, rng):
        s = 5 if tier == "quick" else 60
        for i in range(500 * s):
            yield instance(rng, "single", rng.randint(2, 7), rng.randint(1, 6), self.Q if i % 2 else [1, 3, 10, 30])
        for i in range(100 * s):
            yield instance(rng, "pair", rng.randint(2, 4), rng.randint(1, 5), self.Q)
        for i in range(200 * s):
            yield instance(rng, "trio", rng.randint(2, 4), rng.randint(0, 4), self.Q if i % 2 else [3, 10, 30])
        for i in range(40 * s):
            yield instance(rng, "quartet", rng.randint(2, 3), rng.randint(0, 3), [3, 10, 257])

    def nontrivial(self, inst):
        cols = {}
        for r in inst["reads"]:
            for e in r["entries"]:
                cols[e[0]] = cols.get(e[0], 0) + 1
        return any(v >= 2 for v in cols.values())

    def check(self, inst):
        from runtime.genohmm import posterior, run_table
        got = run_table(inst)
        want = posterior(inst)
        worst = 0.0
        for i in range(inst["n_ind"]):
            for c in range(len(inst["positions"])):
                g, w = got[i][c], want[i][c]
                if any(math.isnan(x) or x < -1e-12 for x in g) or abs(sum(g) - 1.0) > 1e-9:
                    return dict(expected="a distribution", observed=g, where=[i, c])
                d = max(abs(a - b) for a, b in zip(g, w))
                if d > 1e-9:
                    return dict(expected="individual %d column %d posterior %r" % (i, c, w), observed=g, difference=d)
        return None


B_CHECKS = [HmmPosterior()]
