"""C08 - genotyping reports the exact posterior of its HMM; GT, GL and GQ agree."""
import math
import random

from harness.runner import BCheck

LEVEL = "exploration"
LEVEL_TEXT = ("Deductive (vcgen/z3, all inputs, likelihoods as exact reals): determine_genotype returns the genotype whose likelihood is the unique maximum if that maximum exceeds "
              "the threshold probability and 'unknown' otherwise - the GT-vs-GL clause at the decision function (contracts/genotype_py.py; the list sort with a key is "
              "modelled as a stable ordered permutation; cross-checked against the compiled function on 200 exact binary fractions); GrayCodes (the enumerator the DP shares with C01). "
              "The floating-point forward-backward over the C++ DP is outside this family ('weak or silent on floating point'): the posterior itself is not claimed as proved. "
              "Bounded stand-in: the compiled GenotypeDPTable against a plain summation of the documented HMM (global bipartition x transmission x "
              "allele assignment) on generated single individuals, trios and quartets (weights incl. 0 and >= 256, prior triples, recombination costs, "
              ">= 4 columns so that the sqrt(n) backward checkpoint is exercised); determine_genotype and the GT/GL/GQ consistency of the written VCF "
              "are checked on run_genotype outputs. The Gray-code enumerator both tables rely on is proved (contracts/graycodes_cpp.py).")
LEVEL_NOTE = "Tolerance 1e-9 absolute on probabilities. Trusted: the summation oracle (runtime/genohmm.py)."
TECHNIQUE = "contract-based deductive verification of determine_genotype (reals) and the GrayCodes leaf (vcgen/z3) + bounded runtime contract against a plain-summation HMM oracle (the floating-point DP is outside deductive reach)"
D_MODULES = ["contracts.graycodes_cpp", "contracts.genotype_py"]
EXPLANATION = LEVEL_TEXT
TRUSTED_BASE = ["plain-summation oracle runtime/genohmm.py", "IEEE double arithmetic with tolerance 1e-9"]
ASSUMPTIONS = ["determine_genotype: floating-point comparisons treated as comparisons of exact reals; int_to_diploid_biallelic_gt taken as the identity on the genotype index", "floats compared with absolute tolerance 1e-9", "the HMM definition is the one fixed in DESIGN.md (C08)"]

SHAPES = {"single": (1, []), "trio": (3, [[0, 1, 2]]), "quartet": (4, [[0, 1, 2], [0, 1, 3]]), "pair": (2, [])}
PRIORS = [[1 / 3, 1 / 3, 1 / 3], [0.25, 0.5, 0.25], [0.9, 0.09, 0.01], [0.1, 0.1, 0.8], [0.0, 0.5, 0.5], [0.6, 0.4, 0.0]]


def instance(rng, shape, m, n_reads, qualities):
    n, triples = SHAPES[shape]
    reads = []
    for _ in range(n_reads):
        # reads cover at least two variants (run_genotype filters the others out; the backward iterator asserts it)
        a = rng.randrange(m - 1)
        b = rng.randrange(a + 1, m)
        cols = [c for c in range(a, b + 1) if c in (a, b) or rng.random() > 0.2]
        reads.append(dict(ind=rng.randrange(n), entries=[[c, rng.randint(0, 1), rng.choice(qualities)] for c in cols]))
    reads.sort(key=lambda r: r["entries"][0][0])
    return dict(n_ind=n, triples=triples, positions=[10 * (i + 1) for i in range(m)], recomb=[rng.choice([1, 5, 20, 0, 40]) for _ in range(m)],
                priors=[[rng.choice(PRIORS) for _ in range(m)] for _ in range(n)], reads=reads)


class HmmPosterior(BCheck):
    name = "C08.hmm-posterior"
    contract = ("GenotypeDPTable.get_genotype_likelihoods(sample, column) == posterior genotype probabilities of the documented HMM by plain summation "
                "(|difference| <= 1e-9), non-negative, summing to 1")
    rule = ("seeded instances: single individuals (<= 6 reads x 2-7 columns), unrelated pairs, trios (<= 4 reads x 2-4 columns), quartets (<= 3 reads x 2-3 "
            "columns); entry qualities from {0,1,3,10,17,30,60,255,256,257,263,300} (lookup table boundary 256), priors from 6 triples incl. zeros, "
            "recombination costs {0,1,5,20,40}; non-trivial = at least two reads share a column")
    budget_s = {"quick": 120, "thorough": 1500}
    chunk = 20

    Q = [0, 1, 3, 10, 17, 30, 60, 255, 256, 257, 263, 300]

    def inputs(self, tier, rng):
        s = 5 if tier == "quick" else 60
        for i in range(500 * s):
            yield instance(rng, "single", rng.randint(2, 7), rng.randint(1, 6), self.Q if i % 2 else [1, 3, 10, 30])
        for i in range(100 * s):
            yield instance(rng, "pair", rng.randint(2, 4), rng.randint(1, 5), self.Q)
        for i in range(200 * s):
            yield instance(rng, "trio", rng.randint(2, 4), rng.randint(0, 4), self.Q if i % 2 else [3, 10, 30])
        for i in range(40 * s):
            yield instance(rng, "quartet", rng.randint(2, 3), rng.randint(0, 3), [3, 10, 257])

    def nontrivial(self, inst):
        cols = {}
        for r in inst["reads"]:
            for e in r["entries"]:
                cols[e[0]] = cols.get(e[0], 0) + 1
        return any(v >= 2 for v in cols.values())

    def check(self, inst):
        from runtime.genohmm import posterior, run_table
        got = run_table(inst)
        want = posterior(inst)
        worst = 0.0
        for i in range(inst["n_ind"]):
            for c in range(len(inst["positions"])):
                g, w = got[i][c], want[i][c]
                if any(math.isnan(x) or x < -1e-12 for x in g) or abs(sum(g) - 1.0) > 1e-9:
                    return dict(expected="a distribution", observed=g, where=[i, c])
                d = max(abs(a - b) for a, b in zip(g, w))
                if d > 1e-9:
                    return dict(expected="individual %d column %d posterior %r" % (i, c, w), observed=g, difference=d)
        return None


class DetermineGenotype(BCheck):
    name = "C08.determine_genotype"
    contract = "determine_genotype(L, t) is the genotype g with L[g] > L[h] for both other h and L[g] > t, and the empty genotype when no such g exists"
    rule = "exhaustive grid: likelihood triples over {0, 0.1, 0.2, 1/3, 0.4, 0.5, 0.6, 0.8, 1} (all triples, not only normalised ones) x thresholds {0, 0.3, 0.5, 0.9, 0.999}"
    exhaustive_in = ("quick", "thorough")
    parallel = False
    chunk = 5000

    def inputs(self, tier, rng):
        vals = [0.0, 0.1, 0.2, 1 / 3, 0.4, 0.5, 0.6, 0.8, 1.0]
        for a in vals:
            for b in vals:
                for c in vals:
                    for t in (0.0, 0.3, 0.5, 0.9, 0.999):
                        yield dict(L=[a, b, c], t=t)

    def nontrivial(self, inp):
        return len(set(inp["L"])) > 1

    def check(self, inp):
        from whatshap.cli.genotype import determine_genotype
        from whatshap.core import PhredGenotypeLikelihoods, Genotype
        L = inp["L"]
        got = determine_genotype(PhredGenotypeLikelihoods(L), inp["t"])
        want = None
        for g in range(3):
            if all(L[g] > L[h] for h in range(3) if h != g) and L[g] > inp["t"]:
                want = g
        gv = sorted(got.as_vector())
        exp = [] if want is None else [[0, 0], [0, 1], [1, 1]][want]
        if gv != exp:
            return dict(expected="genotype %r" % exp, observed=str(gv))
        return None


class GenotypeVcf(BCheck):
    name = "C08.run_genotype-output"
    contract = ("every genotyped call of `whatshap genotype` (output VCF and --prioroutput VCF): 10^GL sums to one; GT is the unique maximum of GL if that exceeds the threshold "
                "1 - 10^(-T/10) and ./. otherwise; GQ == round(-10 log10(sum of the other genotypes' likelihoods)) (+-1 for the 6-digit GL text)")
    rule = ("seeded diploid BAM scenarios (1 sample, or 2-3 unrelated samples genotyped in one run, a quarter of the multi-sample runs with --sample = the first sample only; SNVs, depth 1-6, read length 30-100 so that some variants are covered only by reads seeing no second variant), thresholds T in "
            "{0, 3, 10, 20, 50}, --constant in {0, 0.01, 0.05, 0.3}, priors on/off, with --prioroutput; calls within 1e-4 of a tie or of the threshold are skipped; "
            "non-trivial = the file has a call that is not ./.")
    budget_s = {"quick": 150, "thorough": 1500}
    chunk = 2

    def inputs(self, tier, rng):
        for i in range(300 if tier == "quick" else 5000):
            yield dict(seed=rng.getrandbits(48), T=[0, 3, 10, 20, 50][i % 5], constant=[0.0, 0.05, 0.01, 0.3][i % 4], nopriors=(i % 6 == 5), subset=(i % 4 == 1))

    def check(self, inp):
        import logging
        import os
        import shutil
        import tempfile
        from scenario import bam as BAM, vcf as V
        from whatshap.cli.genotype import run_genotype
        logging.disable(logging.CRITICAL)
        r = random.Random(inp["seed"])
        # a third of the scenarios are deep (very confident calls: the other genotypes' mass is far below double-precision epsilon of 1)
        sc = BAM.generate(r, n_samples=(1, 1) if inp["seed"] % 2 == 0 else (2, 3), kinds=("snv",), depth=(8, 14) if inp["seed"] % 3 == 0 else (1, 6), read_len=(30, 100), n_variants=(3, 8), hom_frac=0.3, softclip=0.0, eqx=0.0)
        d = tempfile.mkdtemp(prefix="c08_")
        try:
            paths = BAM.materialize(sc, d)
            vcf = os.path.join(d, "in.vcf")
            with open(vcf, "w") as f:
                f.write(BAM.vcf_text(sc))
            out, prior = os.path.join(d, "out.vcf"), os.path.join(d, "prior.vcf")
            # --sample: only the FIRST sample is genotyped; the others are not (their calls must come out as "not genotyped", whatever the genotyped one got)
            selected = [sc["samples"][0]] if (inp.get("subset") and len(sc["samples"]) > 1) else None
            try:
                run_genotype([paths["bam"]], vcf, reference=paths["fasta"], output=out, gt_qual_threshold=inp["T"], constant=inp["constant"], nopriors=inp["nopriors"],
                             prioroutput=None if inp["nopriors"] else prior, write_command_line_header=False, samples=selected)
            except Exception as e:
                import traceback
                return dict(expected="run_genotype succeeds", observed="%s: %s" % (type(e).__name__, e), traceback=traceback.format_exc()[-1500:])
            thr = 1.0 - 10 ** (-inp["T"] / 10.0)
            for which, p in (("output", out), ("prioroutput", prior)):
                if not os.path.exists(p):
                    continue
                with open(p) as f:
                    _, samples, recs = V.parse(f.read())
                for rec, (si, call) in ((rec, sc_) for rec in recs for sc_ in enumerate(rec["calls"])):
                    if selected is not None and samples[si] not in selected:
                        gt = call.get("GT", ".")
                        if gt.replace("|", "/") not in ("./.", "."):
                            return dict(expected="%s %s:%d sample %s was not genotyped (--sample %s): GT ./." % (which, rec["chrom"], rec["pos"], samples[si], selected[0]),
                                        observed=gt, clause="not-genotyped")
                        continue
                    if "GL" not in call or call["GL"] in (".", None):
                        continue
                    L = [10 ** float(x) for x in call["GL"].split(",")]
                    where = "%s %s:%d sample %s" % (which, rec["chrom"], rec["pos"], samples[si])
                    if abs(sum(L) - 1.0) > 2e-3:
                        return dict(expected="%s: 10^GL sums to 1" % where, observed="%r (GL %s)" % (sum(L), call["GL"]), clause="distribution")
                    srt = sorted(L)
                    if abs(srt[2] - srt[1]) < 1e-4 or abs(srt[2] - thr) < 1e-4:
                        continue
                    gt = call["GT"]
                    if srt[2] > thr:
                        want = ["0/0", "0/1", "1/1"][L.index(srt[2])]
                    else:
                        want = "./."
                    norm = "/".join(sorted(gt.replace("|", "/").split("/")))      # an unphased genotype is an allele multiset: 1/0 == 0/1
                    if norm not in (want, "." if want == "./." else want):
                        return dict(expected="%s: GT %s (GL %s, threshold probability %.6f)" % (where, want, call["GL"], thr), observed=gt, clause="gt-vs-gl",
                                    constant=inp["constant"], T=inp["T"])
                    if want != "./.":
                        other = srt[0] + srt[1]        # the mass of the other genotypes, summed from their own GL values (accurate for tiny masses too)
                        gq = call.get("GQ", ".")
                        if gq in (".", None):
                            return dict(expected="%s: GQ present" % where, observed=gq, clause="gq")
                        exp = 10000 if other <= 0 else min(round(-10.0 * __import__("math").log10(other)), 10000)
                        if abs(int(gq) - exp) > 1 and other > 1e-300:
                            return dict(expected="%s: GQ %d" % (where, exp), observed=gq, clause="gq")
            return None
        finally:
            logging.disable(logging.NOTSET)
            shutil.rmtree(d, ignore_errors=True)


B_CHECKS = [HmmPosterior(), DetermineGenotype(), GenotypeVcf()]
