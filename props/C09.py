"""C09 - PS and HP encodings are equivalent, round-trip, and never mix old and new phase."""
import os
import random
import tempfile

from harness.runner import BCheck
from scenario import phasing as PH, vcf as V

LEVEL = "exploration"
LEVEL_TEXT = ("Deductive part (vcgen/z3, all inputs, over the axiomatised pysam model): PhasedVcfWriter._remove_existing_phasing clears HP and PS and every phase bit of the target samples' calls, sorts fully known genotypes (same allele multiset), leaves partially missing / absent genotypes, the calls of non-target samples and the FORMAT keys exactly as they were; _set_PS writes GT = the phase in order, marks every allele after the first phased and PS = component + 1; _set_HP sets HP (and HS as given) and leaves the genotype and its phase bits alone; VcfReader._extract_GT_PS_phase reports a phase exactly for phased heterozygous calls, namely the genotype in order with the PS value as block; and the ROUND TRIP _set_PS -> _extract_GT_PS_phase returns (component + 1, phase) for every heterozygous phase, as a client lemma over those two contracts (contracts/vcf_py.py). "
              ""
              "A LOOP-BODY contract for the record pass of PhasedVcfWriter.write (the loop verified as a unit over arbitrary per-sample result dictionaries; the code before it and the record modifier's write-after-yield are not): whichever `continue` a record takes, a call of a sample that is not being phased is untouched, and a call of a sample that is being phased ends either with NO phase statement (no phase bit, HP and PS empty wherever the record has those keys, whatever the input said) or with the NEW one in the run's encoding and nothing of the other encoding - with --tag=PS: genotype = the haplotype alleles in order, phase bits set, PS = component + 1, HP empty; with --tag=HP: HP set, no phase bit, PS empty (contracts/vcfwrite_py.py; _remove_existing_phasing enters through its proved contract, _set_phasing_tags through _set_PS's / _set_HP's proved postconditions, assuming only that __init__ bound the method that belongs to the tag). "
              "Bounded stand-in: runtime contracts on whole `whatshap phase` runs over generated multi-sample VCFs - (a) the PS and the HP output of the same "
              "run decode (with WhatsHap's own reader and with an independent decoder) to the same block and haplotype alleles, which are the ones "
              "the solver returned; (b) a phased VCF used as the only phase input is reproduced set by set; (c) re-phasing a file that already "
              "carries PS or HP phase gives exactly the phase statements obtained from the unphased file (all four tag histories), also after "
              "unphase. The TEXT of the HP value and its decoder (_extract_HP_phase: split, int()) are not under deductive contract (string reasoning stays undecided in z3/cvc5).")
LEVEL_NOTE = "Seeded sampling of block structures and histories, not exhaustive. Trusted: independent decoder in scenario/phasing.py."
TECHNIQUE = "contract-based deductive verification of the PS encoder/decoder pair and of _remove_existing_phasing over an axiomatised pysam model (vcgen, z3) + runtime contracts (decode(encode)=id, PS/HP equivalence, history independence) on run_whatshap + VcfReader over generated VCFs; bounded"
D_MODULES = ["contracts.vcf_py", "contracts.vcfwrite_py"]
EXPLANATION = LEVEL_TEXT
TRUSTED_BASE = ["independent PS/HP decoder (scenario/phasing.py)"]
ASSUMPTIONS = ["phase inputs are phased VCFs (pseudo reads), no BAM"]


def whatshap_decode(text):
    """decode with WhatsHap's own VcfReader(phases=True): {sample: {(chrom, pos0): (block_id, phase tuple)}}"""
    from whatshap.vcf import VcfReader
    d = tempfile.mkdtemp(prefix="c09_")
    p = os.path.join(d, "x.vcf")
    try:
        with open(p, "w") as f:
            f.write(text)
        out = {}
        with VcfReader(p, phases=True) as reader:
            for table in reader:
                for s in reader.samples:
                    m = out.setdefault(s, {})
                    for variant, ph in zip(table.variants, table.phases_of(s)):
                        if ph is not None:
                            m[(table.chromosome, variant.position)] = (ph.block_id, tuple(ph.phase))
        return out
    finally:
        os.unlink(p)
        os.rmdir(d)


def independent_decode(text):
    samples, records, phase = PH.decode_phasing(text)
    out = {s: {} for s in samples}
    for s in samples:
        for ri, (blk, tup, _) in phase[s].items():
            out[s][(records[ri]["chrom"], records[ri]["pos"] - 1)] = (blk, tup)
    return out


def solver_phase(res):
    """what the run decided, from the wrappers: {sample: {(chrom,pos0): (component+1, (a0,a1))}} for heterozygous 0/1 super-read columns"""
    out = {}
    for call in res["solver_calls"]:
        fam = call["family"]
        for s, sr in zip(fam, call.get("superreads", [])):
            m = out.setdefault(s, {})
            if len(sr) != 2:
                continue
            for v0, v1 in zip(sr[0]["variants"], sr[1]["variants"]):
                if v0[1] in (0, 1) and v1[1] in (0, 1) and v0[1] != v1[1]:
                    m[(call["chromosome"], v0[0])] = (v0[1], v1[1])
    return out


def strip_phase(text):
    """independent unphasing of VCF text: GT separators -> '/', alleles ascending, PS/HP values removed"""
    out = []
    for line in text.split("\n"):
        if not line or line.startswith("#"):
            out.append(line)
            continue
        c = line.split("\t")
        if len(c) > 9:
            keys = c[8].split(":")
            keep = [i for i, k in enumerate(keys) if k not in ("PS", "HP", "PQ")]
            for j in range(9, len(c)):
                vals = c[j].split(":")
                vals += ["."] * (len(keys) - len(vals))
                if "GT" in keys:
                    gi = keys.index("GT")
                    al, _ = V.gt_alleles(vals[gi])
                    if None not in al:
                        al = sorted(al)
                    vals[gi] = "/".join("." if a is None else str(a) for a in al)
                c[j] = ":".join(vals[i] for i in keep)
            c[8] = ":".join(keys[i] for i in keep)
        out.append("\t".join(c))
    return "\n".join(out)


class TagEquivalence(BCheck):
    name = "C09.ps-hp-equivalence"
    contract = ("for the same inputs, the --tag=PS and the --tag=HP outputs decode to the same (phase set, haplotype alleles) per call, with WhatsHap's "
                "reader and with an independent decoder, and the alleles are those of the solver's super-reads; WhatsHap can read its own output")
    rule = ("seeded scenarios (1-3 samples, 1-2 contigs, 1-3 phase-input VCFs with interleaved blocks, het genotypes written in either order "
            "0/1 or 1/0, hom/missing calls in between); every fourth run with --distrust-genotypes --include-homozygous on inputs whose reads claim het at homozygous "
            "sites, so that genotypes change; non-trivial = at least one call phased")
    budget_s = {"quick": 90, "thorough": 900}
    chunk = 10

    def inputs(self, tier, rng):
        for i in range(1500 if tier == "quick" else 25000):
            r = random.Random(rng.getrandbits(64))
            if i % 4 == 3:
                # --distrust-genotypes with reads that claim het at homozygous sites: genotypes change, and the changed calls must decode alike under PS and HP
                g = PH.generate(r, k_files=(2, 4), error_rate=0.05, hom_as_het=0.5, main_kwargs=dict(n_samples=(1, 2), n_records=(4, 8), duplicates=0, extra_format=False,
                                kinds=("snv", "snv", "ins", "del"), gt_kinds=("het", "het", "het", "het_rev", "homref", "homalt")))
                yield dict(main_vcf=g["main_vcf"], phase_vcfs=g["phase_vcfs"], distrust=True)
                continue
            g = PH.generate(r, k_files=(1, 3), main_kwargs=dict(n_samples=(1, 3), n_records=(4, 9), duplicates=0), input_tag="mixed" if i % 2 else "PS")
            yield dict(main_vcf=g["main_vcf"], phase_vcfs=g["phase_vcfs"])

    def check(self, inp):
        from runtime.phase_driver import run_phase
        dec = {}
        sol = {}
        for tag in ("PS", "HP"):
            kw = dict(distrust_genotypes=True, include_homozygous=True) if inp.get("distrust") else {}
            res = run_phase(inp["main_vcf"], inp["phase_vcfs"], tag=tag, **kw)
            if res["error"]:
                return dict(expected="run_whatshap --tag=%s succeeds" % tag, observed=res["error"], traceback=res.get("traceback"))
            try:
                dec[tag] = whatshap_decode(res["out"])
            except Exception as e:
                return dict(expected="WhatsHap's VcfReader(phases=True) decodes the --tag=%s output" % tag, observed="%s: %s" % (type(e).__name__, e),
                            tag=tag, kind="reader-crash")
            ind = independent_decode(res["out"])
            if {s: m for s, m in ind.items() if m} != {s: m for s, m in dec[tag].items() if m}:
                return dict(expected="independent decoder and VcfReader agree on the --tag=%s output" % tag,
                            observed="reader %r vs independent %r" % (_diff(dec[tag], ind), _diff(ind, dec[tag])), tag=tag, kind="decoder-disagree")
            sol[tag] = solver_phase(res)
            for s, m in dec[tag].items():
                for key, (blk, tup) in m.items():
                    want = sol[tag].get(s, {}).get(key)
                    if want is None or tuple(want) != tuple(tup):
                        return dict(expected="decoded phase of %s %r == solver super-read alleles %r" % (s, key, want), observed=str(tup), tag=tag, kind="not-what-was-written")
        if dec["PS"] != dec["HP"]:
            return dict(expected="PS and HP outputs decode identically", observed="PS-only %r / HP-only %r" % (_diff(dec["PS"], dec["HP"]), _diff(dec["HP"], dec["PS"])),
                        kind="ps-hp-differ")
        return None


def _diff(a, b):
    out = []
    for s in a:
        for k, v in a[s].items():
            if b.get(s, {}).get(k) != v:
                out.append((s, k, v))
    return out[:4]


class Reproduce(BCheck):
    name = "C09.reproduce-phased-vcf"
    contract = ("a phased VCF used as the only phase input is reproduced: every input phase set with >= 2 heterozygous variants of the sample comes out "
                "as one phase set with the same alleles up to swapping the whole set, named by its leftmost variant")
    rule = "seeded scenarios with exactly one phase-input VCF (PS or HP encoded), 1-2 samples (every fifth run: 5-8 unrelated samples), interleaved blocks; non-trivial = some block has >= 2 variants"
    budget_s = {"quick": 60, "thorough": 600}
    chunk = 10

    def inputs(self, tier, rng):
        for i in range(1000 if tier == "quick" else 20000):
            r = random.Random(rng.getrandbits(64))
            # every fifth run phases 5-8 unrelated samples at once: the documented coverage cap (15) is per sample, however many samples a run has
            if i % 7 == 6:
                # --only-snvs with records at duplicate positions (an indel and an SNV at one position): the SNV is the record that is read from the phase input
                # and phased in the output
                g = PH.generate(r, k_files=(1, 1), main_kwargs=dict(n_samples=(1, 2), n_records=(5, 10), duplicates=0.5, kinds=("snv", "snv", "ins", "del")), input_tag="PS")
                yield dict(main_vcf=g["main_vcf"], phase_vcfs=g["phase_vcfs"], tag="PS" if i % 2 else "HP", only_snvs=True)
                continue
            g = PH.generate(r, k_files=(1, 1), main_kwargs=dict(n_samples=(5, 8) if i % 5 == 4 else (1, 2), n_records=(4, 10), duplicates=0), input_tag="HP" if i % 3 == 0 else "PS")
            yield dict(main_vcf=g["main_vcf"], phase_vcfs=g["phase_vcfs"], tag="PS" if i % 2 else "HP")

    def check(self, inp):
        from runtime.phase_driver import run_phase
        res = run_phase(inp["main_vcf"], inp["phase_vcfs"], tag=inp["tag"], only_snvs=bool(inp.get("only_snvs")))
        if res["error"]:
            return dict(expected="run succeeds", observed=res["error"], traceback=res.get("traceback"))
        want = independent_decode(inp["phase_vcfs"][0])
        if inp.get("only_snvs"):
            # only SNV records take part; at a position that several records share, the first SNV record is the one that counts
            samples_, recs_, phase_ = PH.decode_phasing(inp["phase_vcfs"][0])
            want = {s_: {} for s_ in samples_}
            seen_pos = set()
            for ri, rec in enumerate(recs_):
                if not (len(rec["ref"]) == 1 and len(rec["alts"]) == 1 and len(rec["alts"][0]) == 1 and not rec["alts"][0].startswith("<")):
                    continue
                if (rec["chrom"], rec["pos"]) in seen_pos:
                    continue
                seen_pos.add((rec["chrom"], rec["pos"]))
                for s_ in samples_:
                    if ri in phase_[s_]:
                        want[s_][(rec["chrom"], rec["pos"] - 1)] = phase_[s_][ri][:2]
        got = independent_decode(res["out"])
        for s, m in want.items():
            blocks = {}
            for key, (blk, tup) in m.items():
                blocks.setdefault((key[0], blk), []).append((key, tup))
            for (chrom, blk), members in blocks.items():
                if len(members) < 2:
                    continue
                outs = [got.get(s, {}).get(k) for k, _ in members]
                if any(o is None for o in outs):
                    return dict(expected="input set %s:%d of %s reproduced (all %d variants phased)" % (chrom, blk, s, len(members)),
                                observed="unphased in output: %r" % [k for (k, _), o in zip(members, outs) if o is None])
                if len({o[0] for o in outs}) != 1:
                    return dict(expected="input set %s:%d of %s stays one set" % (chrom, blk, s), observed=str(outs))
                same = all(tuple(o[1]) == tuple(t) for (_, t), o in zip(members, outs))
                swapped = all(tuple(o[1]) == tuple(reversed(t)) for (_, t), o in zip(members, outs))
                if not (same or swapped):
                    return dict(expected="alleles of set %s:%d of %s equal the input up to a whole-set swap" % (chrom, blk, s),
                                observed=str(list(zip([t for _, t in members], [o[1] for o in outs]))))
                first = min(k[1] for k, _ in members) + 1
                if outs[0][0] != first:
                    return dict(expected="set named %d (leftmost variant)" % first, observed=outs[0][0])
        return None


class Rephase(BCheck):
    name = "C09.rephase-history"
    contract = ("re-phasing a file that already carries phase information (written by WhatsHap with either tag) yields, for every target sample, exactly "
                "the phase statements obtained by phasing the unphased version of that file with the same inputs; WhatsHap can read the result")
    rule = ("histories: phase(inputs A, tag t1) -> phase(inputs B, tag t2) for all four (t1, t2), compared with phase(strip(.), B, t2); B may cover "
            "fewer variants than A so that old statements would have to survive to be seen; also phase -> unphase -> phase; non-trivial = first run phased something")
    budget_s = {"quick": 90, "thorough": 900}
    chunk = 8

    def inputs(self, tier, rng):
        for i in range(800 if tier == "quick" else 12000):
            r = random.Random(rng.getrandbits(64))
            g = PH.generate(r, k_files=(2, 3), main_kwargs=dict(n_samples=(1, 2), n_records=(4, 9), duplicates=0))
            t1, t2 = [("PS", "PS"), ("PS", "HP"), ("HP", "PS"), ("HP", "HP")][i % 4]
            yield dict(main_vcf=g["main_vcf"], first_inputs=g["phase_vcfs"][:-1], second_inputs=g["phase_vcfs"][-1:], t1=t1, t2=t2,
                       via_unphase=(i % 7 == 0))

    def check(self, inp):
        from runtime.phase_driver import run_phase
        r1 = run_phase(inp["main_vcf"], inp["first_inputs"], tag=inp["t1"])
        if r1["error"]:
            return dict(expected="first run succeeds", observed=r1["error"], traceback=r1.get("traceback"))
        mid = r1["out"]
        if inp["via_unphase"]:
            from props.C13 import run_unphase_text
            mid = run_unphase_text(mid)
        r2 = run_phase(mid, inp["second_inputs"], tag=inp["t2"])
        if r2["error"]:
            return dict(expected="re-phasing run (%s -> %s) succeeds" % (inp["t1"], inp["t2"]), observed=r2["error"], traceback=r2.get("traceback"),
                        t1=inp["t1"], t2=inp["t2"], kind="rephase-error")
        ref = run_phase(strip_phase(r1["out"]), inp["second_inputs"], tag=inp["t2"])
        if ref["error"]:
            return dict(expected="reference run succeeds", observed=ref["error"], traceback=ref.get("traceback"))
        got, want = independent_decode(r2["out"]), independent_decode(ref["out"])
        if got != want:
            return dict(expected="phase statements after re-phasing (%s -> %s) == those from the unphased file" % (inp["t1"], inp["t2"]),
                        observed="stale/extra %r ; missing %r" % (_diff(got, want), _diff(want, got)), t1=inp["t1"], t2=inp["t2"], kind="stale-phase")
        try:
            whatshap_decode(r2["out"])
        except Exception as e:
            return dict(expected="WhatsHap reads the re-phased file", observed="%s: %s" % (type(e).__name__, e), t1=inp["t1"], t2=inp["t2"], kind="reader-crash")
        return None


class RephaseForeign(BCheck):
    name = "C09.rephase-foreign-phasing"
    contract = ("phasing a file that already carries arbitrary PS or HP phasing (also on multi-ALT, indel and duplicate-position records that the run "
                "itself never phases) yields, for target samples, exactly the phase statements obtained from the unphased version of the file")
    rule = ("seeded VCFs pre-phased by the scenario generator (PS or HP, interleaved blocks, multi-ALT het calls such as 1|2, duplicates), re-phased with "
            "tag PS|HP, with/without --only-snvs and --sample subsets; compared with the run on the independently stripped file; non-trivial = input has a phased call")
    budget_s = {"quick": 90, "thorough": 900}
    chunk = 10

    def inputs(self, tier, rng):
        for i in range(1200 if tier == "quick" else 20000):
            r = random.Random(rng.getrandbits(64))
            pre = "PS" if i % 2 == 0 else "HP"
            g = PH.generate(r, k_files=(1, 2), main_kwargs=dict(n_samples=(1, 2), n_records=(5, 10), phasing=pre, duplicates=0.15,
                                                                kinds=("snv", "snv", "mnp", "ins", "del", "multi", "multi")))
            sc = g["scenario"]
            samples = []
            if len(sc["samples"]) > 1 and r.random() < 0.4:
                samples = [r.choice(sc["samples"])]
            yield dict(main_vcf=g["main_vcf"], phase_vcfs=g["phase_vcfs"], tag=r.choice(["PS", "HP"]), only_snvs=r.random() < 0.4, samples=samples, pre=pre)

    def nontrivial(self, inp):
        return "|" in inp["main_vcf"] or "HP" in inp["main_vcf"]

    def check(self, inp):
        from runtime.phase_driver import run_phase
        kw = dict(tag=inp["tag"], only_snvs=inp["only_snvs"], samples=inp["samples"] or None)
        r2 = run_phase(inp["main_vcf"], inp["phase_vcfs"], **kw)
        if r2["error"]:
            if "MixedPhasingError" in r2["error"] or "Mixed phasing" in r2["error"]:
                return None   # the main VCF is never read with phases=True; only phase inputs are
            return dict(expected="re-phasing run succeeds", observed=r2["error"], traceback=r2.get("traceback"), kind="rephase-error")
        ref = run_phase(strip_phase(inp["main_vcf"]), inp["phase_vcfs"], **kw)
        if ref["error"]:
            return dict(expected="reference run succeeds", observed=ref["error"], traceback=ref.get("traceback"))
        samples, recs2, ph2 = PH.decode_phasing(r2["out"])
        _, recs1, ph1 = PH.decode_phasing(ref["out"])
        targets = inp["samples"] or samples
        for s in targets:
            a = {k: v[:2] for k, v in ph2[s].items()}
            b = {k: v[:2] for k, v in ph1[s].items()}
            if a != b:
                extra = [(recs2[k]["chrom"], recs2[k]["pos"], v) for k, v in a.items() if b.get(k) != v][:4]
                missing = [(recs1[k]["chrom"], recs1[k]["pos"], v) for k, v in b.items() if a.get(k) != v][:4]
                return dict(expected="sample %s: phase statements == those of the run on the unphased file (pre-existing %s, output tag %s)" % (s, inp["pre"], inp["tag"]),
                            observed="stale/extra %r ; missing %r" % (extra, missing), kind="stale-phase")
        return None


B_CHECKS = [TagEquivalence(), Reproduce(), Rephase(), RephaseForeign()]
