"""C10 - haplotag conserves every alignment and tags it with the best-agreeing haplotype."""
import os
import random
import shutil
import tempfile

from harness.runner import BCheck
from scenario import bam as BAM

LEVEL = "exploration"
LEVEL_TEXT = ("Deductive part (vcgen/z3, all inputs): ignore_read skips exactly the unmapped and secondary alignments, and supplementary ones iff --tag-supplementary is off; a LOOP-BODY contract for run_haplotag's pass over one fetched region (the loop verified as a unit; what surrounds it is not): every fetched alignment is written exactly once, in fetch order, not modified after it was written, only HP/PC/PS tags ever change, and ignored or unassignable alignments end up without HP/PC/PS; attempt_add_phase_information (try/except KeyError executed as the branch on whether the lookup succeeds) is verified too: the flag it returns is exactly 'the alignment has its own assignment or a read cloud of its barcode starts within the linked-read cutoff', an alignment with its own assignment carries exactly (haplotype + 1, quality, phase set), one tagged through its barcode carries HP and PS of a cloud within the cutoff and no PC, nothing but HP/PC/PS ever changes and an untagged alignment is untouched (contracts/haplotag_py.py). "
              "Bounded stand-in: the real run_haplotag on generated BAMs (paired, supplementary, secondary, duplicate, placed and unplaced unmapped records, two read "
              "groups, a contig holding only unmapped-placed records, ploidy 2-4) and phased VCFs with several phase sets whose haplotype order is random: (a) the "
              "output BAM is the input, record for record and in order, except for HP/PS/PC; (b) every tag equals an independent scorer written from the statement "
              "(sum of allele qualities per haplotype within a phase set, unique maximum, PC = best - second, ties/untouched reads untagged); (c) exchanging the "
              "haplotypes of one phase set exchanges HP for exactly the reads of that set. The deductive frame contract of the main loop is not discharged yet.")
LEVEL_NOTE = "Seeded sampling. Trusted: scenario generator, pysam for reading both BAMs back."
TECHNIQUE = "bounded runtime contract on run_haplotag (BAM differ + independent scorer + swap symmetry) over generated BAM/VCF scenarios"
D_MODULES = ["contracts.haplotag_py"]
EXPLANATION = LEVEL_TEXT
TRUSTED_BASE = ["scenario/bam.py", "pysam BAM reading"]
ASSUMPTIONS = ["allele qualities are constant (base quality 30) in the scored scenarios (SNVs, --no-reference), so that the scorer needs no re-alignment model"]


def extra_records(rng, sc, paired=0.2, suppl=0.15, secondary=0.1, dup=0.1, unmapped=3, lonely_contig=True):
    """add non-primary / unmapped records derived from existing reads; returns list of extra read dicts"""
    extra = []
    for rd in sc["reads"]:
        if rng.random() < secondary:
            extra.append(dict(rd, flag=rd["flag"] | 256, tags=[("XS", 1)]))
        if rng.random() < suppl and len(rd["cigar"]) == 1 and rd["cigar"][0][1] > 30:
            n = rd["cigar"][0][1]
            k = n // 2
            # supplementary piece: second half of the read, first half hard-clipped
            extra.append(dict(rd, flag=rd["flag"] | 2048, start=rd["start"] + k, cigar=[["H", k], [rd["cigar"][0][0], n - k]], seq=rd["seq"][k:]))
        if rng.random() < dup:
            rd["flag"] |= 1024
    for i in range(unmapped):
        c = rng.choice(sc["contigs"])
        if i % 2 == 0:
            extra.append(dict(name="unmapped_placed_%d" % i, sample=sc["samples"][0], contig=c["name"], start=rng.randint(0, len(c["seq"]) - 1),
                              cigar=[], seq=BAM.rand_seq(rng, 30), flag=4, mapq=0))
        else:
            extra.append(dict(name="unmapped_unplaced_%d" % i, sample=sc["samples"][0], contig=None, start=-1, cigar=[], seq=BAM.rand_seq(rng, 30), flag=4))
    return extra


def records_of(path):
    import pysam
    out = []
    with pysam.AlignmentFile(path, check_sq=False) as f:
        for a in f.fetch(until_eof=True):
            tags = sorted((k, str(v)) for k, v in a.get_tags() if k not in ("HP", "PS", "PC"))
            hp = {k: a.get_tag(k) for k in ("HP", "PS", "PC") if a.has_tag(k)}
            out.append(((a.query_name, a.flag, a.reference_id, a.reference_start, a.mapping_quality, a.cigarstring, a.next_reference_id,
                         a.next_reference_start, a.template_length, a.query_sequence, str(a.query_qualities), tuple(tags)), hp))
    return out


def expected_tag(sc, phasing, rd, ploidy):
    """independent scorer (constant allele quality q=30): -> None (untagged) | (HP, PS, PC) | 'ambiguous' (several sets tie for the best score)"""
    c = [x for x in sc["contigs"] if x["name"] == rd["contig"]][0]
    haps = sc["truth"][rd["sample"]][c["name"]]
    blocks = BAM.aligned_blocks(rd["start"], [tuple(x) for x in rd["cigar"]])
    scores = {}
    order = []
    for i, v in enumerate(c["variants"]):
        ph = phasing[rd["sample"]][c["name"]][i]
        if ph is None:
            continue
        vs, ve = v["pos"], v["pos"] + len(v["ref"])
        if not any(bs <= vs and ve <= be for bs, be in blocks):
            continue
        allele = haps[rd["hap"]][i]
        ps, tup = ph
        if ps not in scores:
            scores[ps] = [0] * ploidy
            order.append(ps)
        for j, a in enumerate(tup):
            if a == allele:
                scores[ps][j] += rd.get("qual", 30)
    if not scores:
        return None
    best = max(max(s) for s in scores.values())
    cands = [ps for ps in order if max(scores[ps]) == best]
    if len(cands) > 1:
        return "ambiguous"
    ps = cands[0]
    sl = sorted(scores[ps], reverse=True)
    q = sl[0] - sl[1]
    if q == 0:
        return None
    return (scores[ps].index(sl[0]) + 1, ps, q)


class Haplotag(BCheck):
    name = "C10.run_haplotag"
    contract = ("run_haplotag: output alignments == input alignments, once each, in input order, identical except HP/PS/PC; a primary (or, with --tag-supplementary, "
                "supplementary) mapped alignment is tagged (HP, PS, PC) = (unique best-agreeing haplotype, its phase set, best minus second-best summed allele quality) "
                "and untagged on ties or without phased heterozygous variants; secondary/unmapped alignments are never tagged")
    rule = ("seeded SNV scenarios (1-2 samples/read groups, ploidy 2-4, 1-2 contigs + one contig with only placed-unmapped records, several phase sets with random "
            "haplotype order, secondary/supplementary/duplicate/unmapped records; a third of the inputs already carry HP/PS/PC tags from an earlier run on alignments of every kind; half of the inputs list their contigs in non-lexicographic header order), --no-reference, options --tag-supplementary, --ignore-read-groups (single sample), "
            "whole-contig --regions, two regions on one contig (known finding F9), and linked-read barcodes shared with variant-free reads, and between variant-covering reads, beyond the distance cutoff on either side; non-trivial = some read is tagged")
    budget_s = {"quick": 150, "thorough": 1500}
    chunk = 4

    def inputs(self, tier, rng):
        for i in range(2000 if tier == "quick" else 30000):
            yield dict(seed=rng.getrandbits(48), ploidy=[2, 2, 3, 4][i % 4], tag_supp=(i % 3 == 0), regions=["none", "none", "whole", "two"][i % 4] if i % 5 == 0 else "none",
                       ignore_rg=(i % 7 == 0), bx=(i % 4 == 1), stale=(i % 3 == 2), rename=(i % 2 == 1))

    def check(self, inp):
        from whatshap.cli.haplotag import run_haplotag
        import logging
        logging.disable(logging.CRITICAL)
        r = random.Random(inp["seed"])
        ploidy = inp["ploidy"]
        sc = BAM.generate(r, n_samples=(1, 1) if inp["ignore_rg"] else (1, 2), n_contigs=(1, 2), kinds=("snv",), depth=(1, 3) if ploidy > 2 else (2, 4),
                          read_len=(40, 150), softclip=0.2, eqx=0.0, ploidy=ploidy, hom_frac=0.1)
        sc["contigs"].append(dict(name="chrU", seq=BAM.rand_seq(r, 120), variants=[]))
        for s in sc["samples"]:
            sc["truth"][s]["chrU"] = [[] for _ in range(ploidy)]
        if inp.get("rename"):
            # contigs in a header order that is not the lexicographic one (chrZ, [chr2,] chrU): output follows the INPUT order
            old = sc["contigs"][0]["name"]
            sc["contigs"][0]["name"] = "chrZ"
            for rd in sc["reads"]:
                if rd["contig"] == old:
                    rd["contig"] = "chrZ"
            for s in sc["samples"]:
                sc["truth"][s]["chrZ"] = sc["truth"][s].pop(old)
        extra = extra_records(r, sc)
        if inp.get("stale"):
            # the input was haplotagged before: alignments of every kind carry HP/PS/PC from that earlier run
            for rd in sc["reads"] + extra:
                if r.random() < 0.6:
                    rd["tags"] = list(rd.get("tags", [])) + [("HP", r.randint(1, 2)), ("PS", 999), ("PC", r.randint(1, 90))]
        extra.append(dict(name="only_unmapped_on_chrU", sample=sc["samples"][0], contig="chrU", start=10, cigar=[], seq=BAM.rand_seq(r, 25), flag=4, mapq=0))
        vcf_text, phasing = BAM.phased_vcf(sc, r)
        cutoff = 50000
        if inp.get("bx"):
            # linked reads: a barcode shared by a normal read A and a short variant-free read B lying MORE than the linked-read cutoff away from A, on
            # either side; B has no assignment of its own and no barcode partner within the cutoff, so it must stay untagged
            cutoff = 5
            k = 0
            for c in sc["contigs"]:
                if not c["variants"]:
                    continue
                gaps = []
                prev = 0
                for v in c["variants"] + [dict(pos=len(c["seq"]), ref="")]:
                    if v["pos"] - prev >= 10:
                        gaps.append((prev + 1, v["pos"] - 1))
                    prev = v["pos"] + len(v["ref"])
                for rd in [x for x in sc["reads"] if x["contig"] == c["name"] and x["flag"] == 0][:6]:
                    far = [(a, b) for a, b in gaps if (b - 8 < rd["start"] - cutoff - 1) or (a > rd["start"] + cutoff + 1)]
                    if not far or any(t[0] == "BX" for t in rd.get("tags", [])):
                        continue
                    a, b = r.choice(far)
                    start = r.randint(a, b - 8) if b - 8 < rd["start"] - cutoff - 1 else r.randint(max(a, rd["start"] + cutoff + 1), b - 8) if b - 8 >= max(a, rd["start"] + cutoff + 1) else None
                    if start is None or abs(start - rd["start"]) <= cutoff:
                        continue
                    bx = "BX%d" % k
                    k += 1
                    rd["tags"] = list(rd.get("tags", [])) + [("BX", bx)]
                    extra.append(dict(name="bxfar_%d" % k, sample=rd["sample"], contig=c["name"], start=start, cigar=[["M", 8]], seq=c["seq"][start:start + 8], flag=0, mapq=60,
                                      tags=[("BX", bx)]))
                # ... and pairs of ordinary (variant-covering) reads that share a barcode but start more than the cutoff apart, in either order: two read
                # clouds, each read is assigned on its own evidence
                plain = [x for x in sc["reads"] if x["contig"] == c["name"] and x["flag"] == 0 and not any(t[0] == "BX" for t in x.get("tags", []))]
                r.shuffle(plain)
                while len(plain) >= 2 and k < 12:
                    a_ = plain.pop()
                    partner = [x for x in plain if x["sample"] == a_["sample"] and abs(x["start"] - a_["start"]) > cutoff + 1]
                    if not partner:
                        continue
                    b_ = partner[0]
                    plain.remove(b_)
                    bx = "BXP%d" % k
                    k += 1
                    for x in (a_, b_):
                        x["tags"] = list(x.get("tags", [])) + [("BX", bx)]
        d = tempfile.mkdtemp(prefix="c10_")
        try:
            paths = BAM.materialize(sc, d, extra_reads=extra)
            vcf = BAM.write_indexed_vcf(vcf_text, os.path.join(d, "phased.vcf.gz"))
            out = os.path.join(d, "tagged.bam")
            regions = None
            if inp["regions"] == "whole":
                regions = [c["name"] for c in sc["contigs"]]
            elif inp["regions"] == "two":
                c0 = sc["contigs"][0]
                mid = len(c0["seq"]) // 2
                regions = ["%s:1-%d" % (c0["name"], mid), "%s:%d-%d" % (c0["name"], mid + 1, len(c0["seq"]))] + [c["name"] for c in sc["contigs"][1:]]
            try:
                run_haplotag(vcf, paths["bam"], output=out, reference=False, regions=regions, tag_supplementary=inp["tag_supp"],
                             ignore_read_groups=inp["ignore_rg"], ploidy=ploidy, linked_read_distance_cutoff=cutoff)
            except Exception as e:
                import traceback
                return dict(expected="run_haplotag succeeds", observed="%s: %s" % (type(e).__name__, e), traceback=traceback.format_exc()[-1500:])
            a = records_of(paths["bam"])
            b = records_of(out)
            if regions is not None:
                # with --regions the unplaced unmapped tail is not requested
                a = [x for x in a if x[0][2] >= 0]
            if [x[0] for x in a] != [x[0] for x in b]:
                names_a, names_b = [x[0][0] for x in a], [x[0][0] for x in b]
                missing = [n for n in names_a if names_a.count(n) > names_b.count(n)][:5]
                extra_n = [n for n in names_b if names_b.count(n) > names_a.count(n)][:5]
                return dict(expected="output alignments == input alignments (%d records, same order, fields other than HP/PS/PC identical)" % len(a),
                            observed="%d records; missing %r; duplicated/extra %r" % (len(b), missing, extra_n), clause="conservation",
                            regions_per_contig=2 if inp["regions"] == "two" else 1)
            by_name = {rd["name"]: rd for rd in sc["reads"]}
            n_names = {}
            for rec, _ in b:
                n_names[rec[0]] = n_names.get(rec[0], 0) + 1
            for (rec, tags) in b:
                name, flag = rec[0], rec[1]
                rd = by_name.get(name)
                if name.startswith("bxfar_") and tags:
                    return dict(expected="read %s (no variant of its own, barcode partner farther than the linked-read cutoff %d) stays untagged" % (name, cutoff), observed=str(tags),
                                clause="linked-read-cutoff")
                if flag & 4 or flag & 256 or rd is None or (flag & 2048 and not inp["tag_supp"]):
                    if tags:
                        return dict(expected="alignment %s (flag %d) is never tagged" % (name, flag), observed=str(tags), clause="ignored-reads")
                    continue
                if rd["contig"] == "chrU":
                    continue
                exp = expected_tag(sc, phasing, rd, ploidy)
                if exp == "ambiguous":
                    continue
                if inp["regions"] == "two" and rd["contig"] == sc["contigs"][0]["name"]:
                    continue    # region-restricted variant tables change what a read sees at the boundary; conservation is what is checked there
                got = (tags.get("HP"), tags.get("PS"), tags.get("PC")) if tags else None
                if exp is None and got is not None:
                    return dict(expected="read %s stays untagged (tie or no phased heterozygous variant covered)" % name, observed=str(got), clause="tie-untagged", ploidy=ploidy)
                if exp is not None and got != exp:
                    return dict(expected="read %s tagged (HP, PS, PC) = %r" % (name, exp), observed=str(got), clause="best-haplotype", ploidy=ploidy)
            return None
        finally:
            logging.disable(logging.NOTSET)
            shutil.rmtree(d, ignore_errors=True)


class SwapSymmetry(BCheck):
    name = "C10.swap-symmetry"
    contract = "exchanging the two haplotypes of one phase set in the VCF exchanges HP 1 and 2 for exactly the reads tagged with that set; all other tags are unchanged"
    rule = "seeded diploid scenarios with 2-3 phase sets; one set chosen at random is swapped in the VCF text; non-trivial = that set tags at least one read"
    budget_s = {"quick": 90, "thorough": 900}
    chunk = 4

    def inputs(self, tier, rng):
        for i in range(600 if tier == "quick" else 10000):
            yield dict(seed=rng.getrandbits(48), noref=(i % 2 == 0))

    def check(self, inp):
        from whatshap.cli.haplotag import run_haplotag
        import logging
        logging.disable(logging.CRITICAL)
        r = random.Random(inp["seed"])
        sc = BAM.generate(r, n_samples=(1, 1), kinds=("snv",) if inp["noref"] else ("snv", "ins", "del", "mnp"), depth=(2, 4), read_len=(40, 150), hom_frac=0.1)
        vcf_text, phasing = BAM.phased_vcf(sc, r, max_sets=3)
        sets = sorted({ph[0] for c in phasing[sc["samples"][0]].values() for ph in c if ph})
        if not sets:
            return None
        target = r.choice(sets)
        lines = []
        for line in vcf_text.split("\n"):
            if line and not line.startswith("#"):
                c = line.split("\t")
                gt, ps = c[9].split(":")
                if ps == str(target) and "|" in gt:
                    a, b = gt.split("|")
                    c[9] = "%s|%s:%s" % (b, a, ps)
                line = "\t".join(c)
            lines.append(line)
        swapped = "\n".join(lines)
        d = tempfile.mkdtemp(prefix="c10s_")
        try:
            paths = BAM.materialize(sc, d)
            outs = []
            for k, text in enumerate((vcf_text, swapped)):
                vcf = BAM.write_indexed_vcf(text, os.path.join(d, "p%d.vcf.gz" % k))
                out = os.path.join(d, "t%d.bam" % k)
                run_haplotag(vcf, paths["bam"], output=out, reference=False if inp["noref"] else paths["fasta"])
                outs.append(records_of(out))
            for (ra, ta), (rb, tb) in zip(*outs):
                if ra != rb:
                    return dict(expected="same records", observed="order differs")
                if ta.get("PS") == target or tb.get("PS") == target:
                    want = dict(ta)
                    if "HP" in want:
                        want["HP"] = 3 - want["HP"]
                    if tb != want:
                        return dict(expected="read %s in swapped set %d: tags %r" % (ra[0], target, want), observed=str(tb))
                elif ta != tb:
                    return dict(expected="read %s not in set %d keeps tags %r" % (ra[0], target, ta), observed=str(tb))
            return None
        finally:
            logging.disable(logging.NOTSET)
            shutil.rmtree(d, ignore_errors=True)


B_CHECKS = [Haplotag(), SwapSymmetry()]
