"""C11 - compare reports the defined error counts, independent of haplotype labelling."""
import io
import contextlib
import itertools
import os
import random
import shutil
import tempfile

from harness.runner import BCheck
from scenario import phasing as PH, vcf as V

LEVEL = "other"
LEVEL_TEXT = ("Deductive (Python, vcgen): hamming, switch_encoding, complement and compute_switch_flips are verified against their definitions for all strings "
              "(loop invariant 2*flips + switches + run == mismatches of the switch encodings so far), with the labelling-invariance lemma se(complement(s)) == se(s); BedCreator.records yields exactly one BED record per adjacent pair of variants on which the two switch "
              "encodings differ, in order, with the 1-based positions of the two variants (so the number of records is the diploid switch error count). "
              "Bounded stand-in: compare_block on all diploid pairs of strings up to length 7 and on ploidy-3/4 blocks up to 5 positions against the definition by "
              "minimisation over haplotype correspondences (brute force), every haplotype relabelling; run_compare on generated pairs of phased VCFs against an "
              "independent recount (TSV, BED, longest-block agreement).")
LEVEL_NOTE = ("Proved: the four string functions. The C++ SwitchFlipCalculator and compare_block/compare_pair are bounded. Known finding F12: for ploidy >= 3 the reported "
              "switch/flip pair is one of several equal-cost optima (not relabelling-invariant) and switches = sw + 2*fl is a diploid identity.")
TECHNIQUE = "contract-based deductive verification of the string functions (vcgen, z3) + bounded runtime contracts on compare_block and run_compare against brute-force definitions"
D_MODULES = ["contracts.compare_py"]
EXPLANATION = LEVEL_TEXT
TRUSTED_BASE = ["z3/cvc5", "vcgen semantics (strings as arrays of code points)"]
ASSUMPTIONS = ["biallelic haplotype strings over {0,1}"]


def se(s):
    return "".join("0" if s[i - 1] == s[i] else "1" for i in range(1, len(s)))


def ham(a, b):
    return sum(1 for x, y in zip(a, b) if x != y)


def comp(s):
    return "".join("1" if c == "0" else "0" for c in s)


def runlength_switch_flips(a, b):
    """definition: each maximal run of l mismatching switch positions contributes l // 2 flips and l % 2 switches"""
    x, y = se(a), se(b)
    sw = fl = run = 0
    for p, q in zip(x, y):
        if p != q:
            run += 1
        else:
            fl += run // 2
            sw += run % 2
            run = 0
    fl += run // 2
    sw += run % 2
    return sw, fl


class DiploidFunctions(BCheck):
    name = "C11.diploid-functions"
    contract = ("hamming/switch_encoding/complement/compute_switch_flips equal their definitions; compare_block([a, ~a], [b, ~b]): switches == hamming(se a, se b) == "
                "sw + 2*fl, (sw, fl) = run-length decomposition, hamming == min(h(a,b), h(a,~b)), zero for identical inputs, all fields unchanged when the haplotypes of "
                "either phasing are listed in the other order")
    rule = "exhaustive: all ordered pairs of 0/1 strings of equal length 2..7; non-trivial = the strings differ"
    exhaustive_in = ("quick", "thorough")
    chunk = 2000
    budget_s = {"quick": 60, "thorough": 600}

    def inputs(self, tier, rng):
        for n in range(2, 8 if tier == "quick" else 10):
            for a in itertools.product("01", repeat=n):
                for b in itertools.product("01", repeat=n):
                    if a[0] == "0":     # the other half is covered by the relabelling check
                        yield dict(a="".join(a), b="".join(b))

    def nontrivial(self, inp):
        return inp["a"] != inp["b"]

    def check(self, inp):
        from whatshap.cli import compare as C
        a, b = inp["a"], inp["b"]
        if C.hamming(a, b) != ham(a, b) or C.switch_encoding(a) != se(a) or C.complement(a) != comp(a):
            return dict(expected="hamming/switch_encoding/complement definitions", observed=[C.hamming(a, b), C.switch_encoding(a), C.complement(a)])
        sf = C.compute_switch_flips(a, b)
        want = runlength_switch_flips(a, b)
        if (sf.switches, sf.flips) != want or sf.switches + 2 * sf.flips != ham(se(a), se(b)):
            return dict(expected="switch/flip decomposition %r with sw + 2 fl == %d" % (want, ham(se(a), se(b))), observed=[sf.switches, sf.flips])
        e = C.compare_block([a, comp(a)], [b, comp(b)])
        exp = dict(switches=ham(se(a), se(b)), hamming=min(ham(a, b), ham(a, comp(b))), sf=want, diff=0)
        got = dict(switches=e.switches, hamming=e.hamming, sf=(e.switch_flips.switches, e.switch_flips.flips), diff=e.diff_genotypes)
        if got != exp:
            return dict(expected=str(exp), observed=str(got))
        for p0 in ([a, comp(a)], [comp(a), a]):
            for p1 in ([b, comp(b)], [comp(b), b]):
                e2 = C.compare_block(p0, p1)
                g2 = dict(switches=e2.switches, hamming=e2.hamming, sf=(e2.switch_flips.switches, e2.switch_flips.flips), diff=e2.diff_genotypes)
                if g2 != exp:
                    return dict(expected="invariant under haplotype order: %r" % exp, observed=str(g2), order=[p0, p1])
        if a == b and (e.switches or e.hamming or e.switch_flips.switches or e.switch_flips.flips):
            return dict(expected="zero for identical inputs", observed=str(got))
        return None


def poly_bruteforce(p0, p1, switch_cost=1, flip_cost=1, positions=None):
    """min over sequences of haplotype correspondences (permutations per position) of flips + switches; returns total cost"""
    k = len(p0)
    n = len(p0[0])
    pos = list(range(n)) if positions is None else positions
    perms = list(itertools.permutations(range(k)))
    INF = float("inf")
    prev = None
    for idx, i in enumerate(pos):
        cur = {}
        for pi in perms:
            fl = sum(1 for h in range(k) if p0[pi[h]][i] != p1[h][i]) * flip_cost
            if prev is None:
                cur[pi] = fl
            else:
                cur[pi] = fl + min(prev[q] + switch_cost * sum(1 for h in range(k) if pi[h] != q[h]) for q in perms)
        prev = cur
    return min(prev.values()) if prev else 0


class Polyploid(BCheck):
    name = "C11.polyploid-block"
    contract = ("compare_block for ploidy 3-4: (switch + flip total) * ploidy == minimum over per-position haplotype correspondences of flips + switches; `switches` * ploidy == that "
                "minimum with flips forbidden on positions with equal genotypes; hamming == min over correspondences / ploidy; diff_genotypes == #positions with different "
                "allele multisets; totals/hamming/switches/diff_genotypes invariant under every relabelling of the haplotypes of either phasing; zero for identical inputs; "
                "[known finding F12: the (switches, flips) pair itself and switches == sw + 2 fl]")
    rule = "seeded blocks: ploidy 3-4, 2-5 positions, random 0/1 haplotypes (heterozygous columns), second phasing = first with random switches/flips or independent; all relabellings for ploidy 3, 6 random ones for ploidy 4"
    budget_s = {"quick": 100, "thorough": 1200}
    chunk = 50

    def inputs(self, tier, rng):
        for i in range(6000 if tier == "quick" else 60000):
            k = 3 if i % 3 else 4
            n = rng.randint(2, 5)
            alphabet = "012" if i % 5 == 0 else "01"     # multi-allelic sites every fifth block
            p0 = ["".join(rng.choice(alphabet) for _ in range(n)) for _ in range(k)]
            if i % 2:
                p1 = list(p0)
                for _ in range(rng.randint(0, 3)):
                    if rng.random() < 0.5 and n > 1:
                        c = rng.randrange(1, n)
                        x, y = rng.sample(range(k), 2)
                        p1[x], p1[y] = p1[x][:c] + p1[y][c:], p1[y][:c] + p1[x][c:]
                    else:
                        h, c = rng.randrange(k), rng.randrange(n)
                        p1[h] = p1[h][:c] + rng.choice([x for x in alphabet if x != p1[h][c]]) + p1[h][c + 1:]
            else:
                p1 = ["".join(rng.choice(alphabet) for _ in range(n)) for _ in range(k)]
            yield dict(p0=p0, p1=p1, seed=rng.getrandbits(32))

    def check(self, inp):
        from whatshap.cli import compare as C
        p0, p1 = inp["p0"], inp["p1"]
        k, n = len(p0), len(p0[0])
        e = C.compare_block(list(p0), list(p1))
        total = (e.switch_flips.switches + e.switch_flips.flips) * k
        want_total = poly_bruteforce(p0, p1)
        if abs(total - want_total) > 1e-9:
            return dict(expected="switch+flip total %r (brute-force minimum)" % (want_total / k), observed=[e.switch_flips.switches, e.switch_flips.flips], clause="optimal-total")
        match = [i for i in range(n) if sorted(h[i] for h in p0) == sorted(h[i] for h in p1)]
        want_sw = poly_bruteforce(p0, p1, switch_cost=1, flip_cost=10 ** 6, positions=match)
        if want_sw < 10 ** 6 and abs(e.switches * k - want_sw) > 1e-9:
            return dict(expected="switches %r (minimum number of switches on genotype-matching positions)" % (want_sw / k), observed=e.switches, clause="switches")
        want_h = min(sum(ham(p1[i], perm[i]) for i in range(k)) for perm in itertools.permutations(p0)) / float(k)
        if abs(e.hamming - want_h) > 1e-9:
            return dict(expected="hamming %r" % want_h, observed=e.hamming, clause="hamming")
        if e.diff_genotypes != n - len(match):
            return dict(expected="diff_genotypes %d" % (n - len(match)), observed=e.diff_genotypes, clause="diff-genotypes")
        r = random.Random(inp["seed"])
        perms = list(itertools.permutations(range(k)))
        if k > 3:
            perms = r.sample(perms, 6)
        for pi in perms:
            for which in (0, 1):
                q0 = [p0[j] for j in pi] if which == 0 else list(p0)
                q1 = [p1[j] for j in pi] if which == 1 else list(p1)
                e2 = C.compare_block(q0, q1)
                t2 = (e2.switch_flips.switches + e2.switch_flips.flips) * k
                if abs(t2 - total) > 1e-9 or abs(e2.switches - e.switches) > 1e-9 or abs(e2.hamming - e.hamming) > 1e-9 or e2.diff_genotypes != e.diff_genotypes:
                    return dict(expected="relabelling-invariant totals: total %r switches %r hamming %r" % (total / k, e.switches, e.hamming),
                                observed=[t2 / k, e2.switches, e2.hamming], clause="relabelling", perm=list(pi))
                if abs(e2.switch_flips.switches - e.switch_flips.switches) > 1e-9:
                    return dict(expected="relabelling-invariant (switches, flips) pair %r" % [e.switch_flips.switches, e.switch_flips.flips],
                                observed=[e2.switch_flips.switches, e2.switch_flips.flips], clause="pair-relabelling", ploidy=k)
        if abs(e.switches - (e.switch_flips.switches + 2 * e.switch_flips.flips)) > 1e-9:
            return dict(expected="switches == sw + 2*fl", observed=[e.switches, e.switch_flips.switches, e.switch_flips.flips], clause="sum-identity", ploidy=k)
        if p0 == p1 and (total or e.switches or e.hamming):
            return dict(expected="zero for identical inputs", observed=[total, e.switches, e.hamming], clause="identical")
        return None


def strip_to_sample(sc, si):
    pass


class CompareFiles(BCheck):
    name = "C11.run_compare"
    contract = ("run_compare on two phasings of the same sample: per chromosome the TSV's all_switches / all_switchflips / blockwise_hamming / blockwise_diff_genotypes / "
                "all_assessed_pairs equal an independent recount over the intersection blocks; all_switches == sw + 2 fl; identical files give zeros; BED records == "
                "switches; the longest block's agreement column has exactly largestblock_hamming zeros; swapping the haplotype order of any phase set in either file "
                "leaves every count unchanged")
    rule = ("seeded: one set of records (1-2 contigs, 5-14 SNV/indel records, het/hom/missing calls), two independent PS/HP phasings with 1-3 (interleaved) sets each, or the second "
            "derived from the first by switches/flips; non-trivial = an intersection block with >= 2 variants exists")
    budget_s = {"quick": 120, "thorough": 1200}
    chunk = 10

    def inputs(self, tier, rng):
        for i in range(1200 if tier == "quick" else 20000):
            yield dict(seed=rng.getrandbits(48), derived=(i % 2 == 0), identical=(i % 11 == 0), tags=[("PS", "PS"), ("PS", "HP"), ("HP", "PS"), ("HP", "HP")][i % 4])

    def make(self, inp):
        r = random.Random(inp["seed"])
        base = V.generate(r, n_contigs=(1, 2), n_samples=(1, 1), n_records=(5, 14), phasing=None, kinds=("snv", "snv", "snv", "ins", "del"),
                          gt_kinds=("het", "het", "het", "het", "het_rev", "homref", "missing"), duplicates=0, extra_format=False, extra_info=False)
        s = base["samples"][0]
        texts = []
        first_phase = None
        for k in (0, 1):
            sc = {key: (val if key != "records" else [dict(rec, calls=[list(c) for c in rec["calls"]], format=list(rec["format"])) for rec in val]) for key, val in base.items()}
            tag = inp["tags"][k]
            sc["defs"] = dict(sc["defs"], FORMAT=dict(sc["defs"]["FORMAT"], **{tag: V.STD_FORMAT[tag]}))
            cand = PH.candidates(sc, 0)
            by_chrom = {}
            for i in cand:
                by_chrom.setdefault(sc["records"][i]["chrom"], []).append(i)
            phase = {}
            for chrom, idxs in by_chrom.items():
                nsets = r.randint(1, 3)
                inter = r.random() < 0.4
                for j, i in enumerate(idxs):
                    if r.random() < 0.15:
                        continue
                    b = r.randrange(nsets) if inter else min(nsets - 1, j * nsets // len(idxs))
                    phase[i] = [b, r.randint(0, 1)]
            if k == 1 and (inp["derived"] or inp["identical"]):
                phase = {i: list(v) for i, v in first_phase.items()}
                if not inp["identical"]:
                    idxs = sorted(phase)
                    for _ in range(r.randint(0, 4)):
                        if r.random() < 0.5 and idxs:
                            c = r.choice(idxs)
                            for i in idxs:
                                if i >= c and sc["records"][i]["chrom"] == sc["records"][c]["chrom"]:
                                    phase[i][1] ^= 1
                        elif idxs:
                            phase[r.choice(idxs)][1] ^= 1
                    for i in list(phase):
                        if r.random() < 0.1:
                            del phase[i]
            if k == 0:
                first_phase = phase
            first_pos = {}
            for i in sorted(phase):
                key = (sc["records"][i]["chrom"], phase[i][0])
                first_pos.setdefault(key, sc["records"][i]["pos"])
            for i, (b, o) in phase.items():
                rec = sc["records"][i]
                ps = first_pos[(rec["chrom"], b)]
                order = (0, 1) if o == 0 else (1, 0)
                rec["format"] = ["GT", tag]
                if tag == "PS":
                    rec["calls"] = [["%d|%d" % order, str(ps)]]
                else:
                    rec["calls"] = [["0/1", "%d-%d,%d-%d" % (ps, order.index(0) + 1, ps, order.index(1) + 1)]]
            for i, rec in enumerate(sc["records"]):
                if i not in phase:
                    gt = rec["calls"][0][rec["format"].index("GT")]
                    rec["format"] = ["GT", tag]
                    rec["calls"] = [[gt, "."]]
            texts.append(V.render(sc))
        return texts

    def recount(self, t0, t1):
        s0, r0, ph0 = PH.decode_phasing(t0)
        s1, r1, ph1 = PH.decode_phasing(t1)
        sample = s0[0]
        out = {}
        for chrom in dict.fromkeys(r["chrom"] for r in r0):
            blocks = {}
            for ri, rec in enumerate(r0):
                if rec["chrom"] != chrom:
                    continue
                g0 = V.gt_alleles(rec["calls"][0]["GT"])[0]
                g1 = V.gt_alleles(r1[ri]["calls"][0]["GT"])[0]
                if None in g0 or None in g1 or len(set(g0)) < 2 or len(set(g1)) < 2 or len(rec["alts"]) != 1:
                    continue
                if ri in ph0[sample] and ri in ph1[sample]:
                    blocks.setdefault((ph0[sample][ri][0], ph1[sample][ri][0]), []).append(ri)
            tot = dict(pairs=0, switches=0, sw=0, fl=0, hamming=0, longest=0, longest_hamming=None)
            for key, members in blocks.items():
                if len(members) < 2:
                    continue
                a = "".join(str(ph0[sample][ri][1][0]) for ri in members)
                b = "".join(str(ph1[sample][ri][1][0]) for ri in members)
                sw, fl = runlength_switch_flips(a, b)
                tot["pairs"] += len(members) - 1
                tot["switches"] += ham(se(a), se(b))
                tot["sw"] += sw
                tot["fl"] += fl
                h = min(ham(a, b), ham(a, comp(b)))
                tot["hamming"] += h
                if len(members) > tot["longest"]:
                    tot["longest"] = len(members)
                    tot["longest_hamming"] = h
            out[chrom] = tot
        return out

    def run(self, t0, t1, d, tagname):
        from whatshap.cli.compare import run_compare
        p0, p1 = os.path.join(d, "a%s.vcf" % tagname), os.path.join(d, "b%s.vcf" % tagname)
        for p, t in ((p0, t0), (p1, t1)):
            with open(p, "w") as f:
                f.write(t)
        tsv, lb, bed = os.path.join(d, "p.tsv"), os.path.join(d, "l.tsv"), os.path.join(d, "s.bed")
        buf = io.StringIO()
        with contextlib.redirect_stdout(buf):
            run_compare([p0, p1], ploidy=2, tsv_pairwise=tsv, longest_block_tsv=lb, switch_error_bed=bed)
        # the printed report: per chromosome, the "text: value" lines of the ALL / LARGEST INTERSECTION BLOCK sections
        self.report = {}
        chrom = section = None
        for line in buf.getvalue().split("\n"):
            if line.startswith("----") and "Chromosome" in line:
                chrom, section = line.strip("- ").split()[1], None
                continue
            if ":" not in line or chrom is None:
                continue
            key, val = [x.strip() for x in line.rsplit(":", 1)]
            if key in ("ALL INTERSECTION BLOCKS", "LARGEST INTERSECTION BLOCK"):
                section = "all" if key.startswith("ALL") else "largest"
            elif section:
                self.report.setdefault(chrom, {}).setdefault(section + ":" + key, val)
        rows = {}
        with open(tsv) as f:
            header = f.readline().rstrip("\n").lstrip("#").split("\t")
            for line in f:
                c = line.rstrip("\n").split("\t")
                rows[c[1]] = dict(zip(header, c))
        agree = {}
        with open(lb) as f:
            f.readline()
            for line in f:
                c = line.rstrip("\n").split("\t")
                agree.setdefault(c[3], []).append(int(c[5]))
        beds = {}
        with open(bed) as f:
            for line in f:
                c = line.split("\t")
                beds[c[0]] = beds.get(c[0], 0) + 1
        return rows, agree, beds

    def check(self, inp):
        import logging
        logging.disable(logging.CRITICAL)
        t0, t1 = self.make(inp)
        d = tempfile.mkdtemp(prefix="c11_")
        try:
            rows, agree, beds = self.run(t0, t1, d, "")
            want = self.recount(t0, t1)
            for chrom, w in want.items():
                row = rows.get(chrom)
                if row is None:
                    if w["pairs"] == 0:
                        continue
                    return dict(expected="a TSV row for %s" % chrom, observed=sorted(rows), clause="rows")
                sw, fl = row["all_switchflips"].split("/")
                got = dict(pairs=int(row["all_assessed_pairs"]), switches=int(float(row["all_switches"])), sw=int(float(sw)), fl=int(float(fl)),
                           hamming=int(float(row["blockwise_hamming"])))
                exp = {k: w[k] for k in got}
                if got != exp:
                    return dict(expected="%s: %r" % (chrom, exp), observed=str(got), clause="recount")
                if got["switches"] != got["sw"] + 2 * got["fl"]:
                    return dict(expected="switches == sw + 2 fl", observed=str(got), clause="identity")
                if int(float(row["blockwise_diff_genotypes"])) != 0:
                    return dict(expected="no genotype differences (same genotypes in both files)", observed=row["blockwise_diff_genotypes"], clause="diff-genotypes")
                if beds.get(chrom, 0) != got["switches"]:
                    return dict(expected="%d BED records on %s" % (got["switches"], chrom), observed=beds.get(chrom, 0), clause="bed")
                if w["longest"] >= 2:
                    zeros = agree.get(chrom, []).count(0)
                    if int(float(row["largestblock_hamming"])) != w["longest_hamming"]:
                        return dict(expected="largestblock_hamming %d" % w["longest_hamming"], observed=row["largestblock_hamming"], clause="largest-hamming")
                    if zeros != w["longest_hamming"] or len(agree.get(chrom, [])) != w["longest"]:
                        return dict(expected="longest-block agreement marks exactly %d disagreements over %d positions" % (w["longest_hamming"], w["longest"]),
                                    observed="%d zeros in %r" % (zeros, agree.get(chrom)), clause="agreement")
                # the printed report states the same counts as the TSV row
                rep = self.report.get(chrom, {})
                for key, col in (("all:phased pairs of variants assessed", "all_assessed_pairs"), ("all:switch errors", "all_switches"),
                                 ("all:switch/flip decomposition", "all_switchflips"), ("all:Block-wise Hamming distance", "blockwise_hamming"),
                                 ("largest:switch errors", "largestblock_switches"), ("largest:switch/flip decomposition", "largestblock_switchflips"),
                                 ("largest:Hamming distance", "largestblock_hamming")):
                    if key not in rep:
                        return dict(expected="report line %r for %s" % (key, chrom), observed=sorted(rep), clause="report")
                    a_, b_ = rep[key], row[col]
                    if "/" not in a_:
                        a_, b_ = str(int(float(a_))), str(int(float(b_)))
                    if a_ != b_:
                        return dict(expected="%s: printed %r equals TSV %s = %s" % (chrom, key, col, row[col]), observed=rep[key], clause="report")
                if inp["identical"] and (got["switches"] or got["hamming"] or got["sw"] or got["fl"]):
                    return dict(expected="zeros for identical inputs", observed=str(got), clause="identical")
            # relabelling: swap the haplotype order of one phase set in the second file
            r = random.Random(inp["seed"] + 7)
            lines = t1.split("\n")
            sets = sorted({l.split("\t")[9].split(":")[1] for l in lines if l and not l.startswith("#") and "|" in l.split("\t")[9]})
            if sets:
                target = r.choice(sets)
                out = []
                for l in lines:
                    if l and not l.startswith("#"):
                        c = l.split("\t")
                        gt, ps = c[9].split(":")
                        if ps == target and "|" in gt:
                            x, y = gt.split("|")
                            c[9] = "%s|%s:%s" % (y, x, ps)
                        l = "\t".join(c)
                    out.append(l)
                rows2, agree2, beds2 = self.run(t0, "\n".join(out), d, "s")
                for chrom in rows:
                    for k in ("all_assessed_pairs", "all_switches", "all_switchflips", "blockwise_hamming", "largestblock_hamming", "largestblock_switches"):
                        if rows[chrom][k] != rows2.get(chrom, {}).get(k):
                            return dict(expected="%s %s unchanged (%s) after listing set %s in the other order" % (chrom, k, rows[chrom][k], target),
                                        observed=rows2.get(chrom, {}).get(k), clause="file-relabelling")
            return None
        finally:
            logging.disable(logging.NOTSET)
            for n in os.listdir(d):
                os.unlink(os.path.join(d, n))
            os.rmdir(d)


class RunComparePolyploid(BCheck):
    name = "C11.run_compare-polyploid"
    contract = ("run_compare with ploidy 3-4 on two phasings of the same variants whose genotypes may differ: blockwise_diff_genotypes == number of jointly phased "
                "positions (in intersection blocks of >= 2 variants) with different allele multisets, largestblock_diff_genotypes == that number for a largest "
                "intersection block, all_assessed_pairs / covered_variants / intersection_blocks == recount; identical files give zero errors")
    rule = ("seeded pairs of PS-phased polyploid VCFs (6-14 biallelic SNVs, 1-3 phase sets per file, some calls unphased or homozygous, genotypes of the second file "
            "re-drawn at some positions); non-trivial = at least two intersection blocks")
    budget_s = {"quick": 60, "thorough": 600}
    chunk = 10

    def inputs(self, tier, rng):
        for i in range(500 if tier == "quick" else 8000):
            yield dict(seed=rng.getrandbits(48), ploidy=3 if i % 3 else 4, identical=(i % 10 == 0))

    def make(self, inp):
        r = random.Random(inp["seed"])
        p = inp["ploidy"]
        n = r.randint(6, 14)
        files = []
        calls0 = None
        for k in (0, 1):
            nsets = r.randint(1, 3)
            calls = []
            for j in range(n):
                if k == 1 and calls0 is not None and (inp["identical"] or r.random() < 0.6):
                    al, b = calls0[j]
                    al = list(al) if al is not None else None
                    if al is not None and not inp["identical"]:
                        r.shuffle(al)
                else:
                    al = [r.randint(0, 1) for _ in range(p)]
                    b = min(nsets - 1, j * nsets // n) if r.random() < 0.85 else None
                calls.append((al, b))
            if k == 0:
                calls0 = calls
            files.append(calls)
        texts = []
        for calls in files:
            first = {}
            for j, (al, b) in enumerate(calls):
                if b is not None and len(set(al)) > 1:
                    first.setdefault(b, 100 * (j + 1))
            lines = ["##fileformat=VCFv4.2", "##contig=<ID=chr1,length=100000>", '##FORMAT=<ID=GT,Number=1,Type=String,Description="g">',
                     '##FORMAT=<ID=PS,Number=1,Type=Integer,Description="p">', "#CHROM\tPOS\tID\tREF\tALT\tQUAL\tFILTER\tINFO\tFORMAT\ts"]
            for j, (al, b) in enumerate(calls):
                if b is not None and len(set(al)) > 1:
                    lines.append("chr1\t%d\t.\tA\tC\t.\t.\t.\tGT:PS\t%s:%d" % (100 * (j + 1), "|".join(map(str, al)), first[b]))
                else:
                    lines.append("chr1\t%d\t.\tA\tC\t.\t.\t.\tGT:PS\t%s:." % (100 * (j + 1), "/".join(map(str, sorted(al)))))
            texts.append("\n".join(lines) + "\n")
        return texts, files

    def expected(self, files):
        a, b = files
        blocks = {}
        for j in range(len(a)):
            (al0, b0), (al1, b1) = a[j], b[j]
            if len(set(al0)) < 2 or len(set(al1)) < 2 or b0 is None or b1 is None:
                continue
            blocks.setdefault((b0, b1), []).append(j)
        blocks = {k: v for k, v in blocks.items() if len(v) >= 2}
        diff = {k: sum(1 for j in v if sorted(a[j][0]) != sorted(b[j][0])) for k, v in blocks.items()}
        longest = max((len(v) for v in blocks.values()), default=0)
        return dict(n_blocks=len(blocks), pairs=sum(len(v) - 1 for v in blocks.values()), total_diff=sum(diff.values()),
                    largest_diff={diff[k] for k, v in blocks.items() if len(v) == longest}, covered=sum(len(v) for v in blocks.values()))

    def nontrivial(self, inp):
        return self.expected(self.make(inp)[1])["n_blocks"] >= 2

    def check(self, inp):
        import logging
        from whatshap.cli.compare import run_compare
        logging.disable(logging.CRITICAL)
        texts, files = self.make(inp)
        want = self.expected(files)
        d = tempfile.mkdtemp(prefix="c11p_")
        try:
            paths = []
            for k, t in enumerate(texts):
                pth = os.path.join(d, "f%d.vcf" % k)
                with open(pth, "w") as f:
                    f.write(t)
                paths.append(pth)
            tsv = os.path.join(d, "p.tsv")
            with contextlib.redirect_stdout(io.StringIO()):
                run_compare(paths, ploidy=inp["ploidy"], tsv_pairwise=tsv)
            with open(tsv) as f:
                header = f.readline().rstrip("\n").lstrip("#").split("\t")
                rows = [dict(zip(header, line.rstrip("\n").split("\t"))) for line in f]
            if not rows:
                return None if want["n_blocks"] == 0 else dict(expected="a TSV row for chr1", observed="none", clause="row")
            row = rows[0]
            got = dict(pairs=int(row["all_assessed_pairs"]), total_diff=int(float(row["blockwise_diff_genotypes"])), largest_diff=int(float(row["largestblock_diff_genotypes"])))
            if got["pairs"] != want["pairs"]:
                return dict(expected="all_assessed_pairs %d" % want["pairs"], observed=got["pairs"], clause="pairs")
            if got["total_diff"] != want["total_diff"]:
                return dict(expected="blockwise_diff_genotypes %d" % want["total_diff"], observed=got["total_diff"], clause="diff-genotypes")
            if want["n_blocks"] and got["largest_diff"] not in want["largest_diff"]:
                return dict(expected="largestblock_diff_genotypes in %r (a largest intersection block)" % sorted(want["largest_diff"]), observed=got["largest_diff"], clause="largest-diff-genotypes")
            if inp["identical"] and (int(float(row["all_switches"])) or int(float(row["blockwise_hamming"])) or got["total_diff"]):
                return dict(expected="zero errors for identical inputs", observed=dict(row), clause="identical")
            return None
        finally:
            logging.disable(logging.NOTSET)
            shutil.rmtree(d, ignore_errors=True)



B_CHECKS = [RunComparePolyploid(), DiploidFunctions(), Polyploid(), CompareFiles()]
