"""C12 - stats counts add up and describe the phase sets present in the file."""
import os
import random
import tempfile
import io
import contextlib

from harness.runner import BCheck
from scenario import phasing as PH, vcf as V

LEVEL = "exploration"
LEVEL_TEXT = ("Deductive part (vcgen/z3, all inputs): a LOOP-BODY contract for the classification pass of get_phase_blocks (the loop verified as a unit, GTF output off): every call is "
              "counted as a variant; a call with a missing or homozygous genotype is nothing more; a heterozygous call is counted as heterozygous (and as a heterozygous SNV if it "
              "is one) and is then either counted UNPHASED or entered into exactly the block named by its phase's block_id - the blocks are well-formed, pairwise distinct "
              "objects and hold nothing but those calls (ghost counting functions over the three input lists; defaultdict(PhasedBlock) creates an empty block for a new id); "
              "PhasedBlock.add keeps leftmost/rightmost = min/max of the added variants and span() = rightmost - leftmost; PhasedBlock.split returns two new well-formed blocks holding exactly the variants left of split_left / right of split_right with their phases and leaves the block itself untouched; PhasingStats.__iadd__/add_* add the counters and concatenate the block lists (the ALL row is the sum); write_to_block_list appends exactly one line per phase set, in increasing order of the set's id, stating the 1-based positions of the block's leftmost and rightmost variant (the true extremes by PhasedBlock.add's invariant) and its size (contracts/stats_py.py). "
              "Bounded stand-in: the real run_stats on generated VCFs (phased/unphased/homozygous/missing/partial calls, interleaved and nested phase sets, several "
              "chromosomes and samples, PS and HP, ploidy 2 and 3, --only-snvs, --chromosome selections in any order, --sample) against an independent counter over the "
              "file text: variants, heterozygous (SNVs), phased, unphased, singletons, blocks, the two sum identities, block list with true extents, non-overlapping "
              "block lengths bounded by the covered span, ALL row = sum of rows.")
LEVEL_NOTE = "Seeded sampling. 'Variants' are the records the reader keeps: biallelic, first eligible record at a position, SNV only under --only-snvs (stated in the rule)."
TECHNIQUE = "bounded runtime contract on run_stats (TSV + block list) against an independent counter over generated VCF text"
D_MODULES = ["contracts.stats_py"]
EXPLANATION = LEVEL_TEXT
TRUSTED_BASE = ["scenario/vcf.py parser and scenario/phasing.py decoder"]
ASSUMPTIONS = ["multi-ALT records and repeated positions are skipped by the reader by design and are not counted as variants"]
COUNT_FIELDS = ["variants", "phased", "unphased", "singletons", "blocks", "variant_per_block_sum", "bp_per_block_sum", "heterozygous_variants", "heterozygous_snvs", "phased_snvs"]


def independent_counts(text, sample, only_snvs):
    samples, records, phase = PH.decode_phasing(text)
    si = samples.index(sample)
    per = {}
    seen = set()
    for ri, r in enumerate(records):
        is_snv = len(r["ref"]) == 1 and len(r["alts"]) >= 1 and all(len(a) == 1 for a in r["alts"])
        if len(r["alts"]) != 1 or (only_snvs and not is_snv):
            continue
        key = (r["chrom"], r["pos"])
        if key in seen:
            continue
        seen.add(key)
        c = per.setdefault(r["chrom"], dict(variants=0, het=0, het_snv=0, unphased=0, blocks={}, phased_snv_ids=[]))
        c["variants"] += 1
        if "GT" not in r["calls"][si]:
            continue
        al, _ = V.gt_alleles(r["calls"][si]["GT"])
        if al is None or None in al or len(set(al)) < 2:
            continue
        c["het"] += 1
        if is_snv:
            c["het_snv"] += 1
        ph = phase[sample].get(ri)
        if ph is None:
            c["unphased"] += 1
        else:
            c["blocks"].setdefault(ph[0], []).append((r["pos"], is_snv))
    out = {}
    for chrom, c in per.items():
        sizes = {b: len(m) for b, m in c["blocks"].items()}
        big = {b: m for b, m in c["blocks"].items() if len(m) > 1}
        # covered span: union of [leftmost, rightmost] of the non-singleton blocks
        ivs = sorted((min(p for p, _ in m), max(p for p, _ in m)) for m in big.values())
        union = 0
        cur = None
        for a, b in ivs:
            if cur is None or a > cur[1]:
                if cur:
                    union += cur[1] - cur[0]
                cur = [a, b]
            else:
                cur[1] = max(cur[1], b)
        if cur:
            union += cur[1] - cur[0]
        out[chrom] = dict(variants=c["variants"], heterozygous_variants=c["het"], heterozygous_snvs=c["het_snv"], unphased=c["unphased"],
                          phased=sum(len(m) for m in big.values()), singletons=sum(1 for m in c["blocks"].values() if len(m) == 1), blocks=len(big),
                          phased_snvs=sum(1 for m in big.values() for _, s in m if s), span_union=union,
                          block_list={b: (min(p for p, _ in m), max(p for p, _ in m), len(m)) for b, m in c["blocks"].items()})
    return out


class StatsFiles(BCheck):
    name = "C12.run_stats"
    contract = ("run_stats TSV rows: variants / heterozygous_variants / heterozygous_snvs / phased / unphased / singletons / blocks / phased_snvs equal an independent count; "
                "phased + unphased + singletons == heterozygous_variants; variant_per_block_sum == phased; bp_per_block_sum <= covered span; ALL row == sum of the rows; "
                "block list: one line per phase set with its true extent and size; rows exactly for the requested chromosomes that exist")
    rule = ("seeded VCFs: 1-3 contigs, 1-3 samples, 4-12 records (SNV/MNP/indel/multi-ALT/duplicates), genotypes hom/het/'./.'/'0/.', PS or HP phasing with 1-3 interleaved or "
            "nested sets per contig, ploidy 2 (and 3 with PS); options --only-snvs, --sample, --chromosome (every order, comma lists); non-trivial = >= 1 non-singleton block")
    budget_s = {"quick": 120, "thorough": 1200}
    chunk = 10

    def inputs(self, tier, rng):
        for i in range(2000 if tier == "quick" else 30000):
            r = random.Random(rng.getrandbits(64))
            ploidy = 3 if i % 7 == 6 else 2
            sc = V.generate(r, n_contigs=(1, 3), n_samples=(1, 3), n_records=(4, 12), phasing="HP" if (i % 3 == 1 and ploidy == 2) else "PS", ploidies=(ploidy,),
                            gt_kinds=("homref", "het", "het", "het", "het", "het_rev", "homalt", "missing", "half"), spacing=(1, 90),
                            blocks_interleave=(i % 2 == 0), phase_prob=0.8)
            names = [c[0] for c in sc["contigs"]]
            chroms = None
            if i % 3 == 0:
                k = r.randint(1, len(names))
                chroms = r.sample(names, k)
                if r.random() < 0.3:
                    chroms = [",".join(chroms)]
            yield dict(vcf=V.render(sc), only_snvs=(i % 4 == 3), chromosomes=chroms, sample=(r.choice(sc["samples"]) if i % 2 else None))

    def check(self, inp):
        from whatshap.cli.stats import run_stats
        import logging
        logging.disable(logging.CRITICAL)
        d = tempfile.mkdtemp(prefix="c12_")
        try:
            p = os.path.join(d, "in.vcf")
            with open(p, "w") as f:
                f.write(inp["vcf"])
            tsv, bl = os.path.join(d, "s.tsv"), os.path.join(d, "b.tsv")
            with contextlib.redirect_stdout(io.StringIO()):
                run_stats(p, sample=inp["sample"], tsv=tsv, block_list=bl, only_snvs=inp["only_snvs"], chromosomes=inp["chromosomes"])
            rows = {}
            with open(tsv) as f:
                header = f.readline().rstrip("\n").split("\t")
                for line in f:
                    c = line.rstrip("\n").split("\t")
                    rows[c[1]] = dict(zip(header, c))
            samples = V.parse(inp["vcf"])[1]
            sample = inp["sample"] or samples[0]
            want = independent_counts(inp["vcf"], sample, inp["only_snvs"])
            # a chromosome all of whose records are skipped (e.g. no SNV under --only-snvs) still gets a row of zeros
            for rec in V.parse(inp["vcf"])[2]:
                want.setdefault(rec["chrom"], dict(variants=0, heterozygous_variants=0, heterozygous_snvs=0, unphased=0, phased=0, singletons=0, blocks=0,
                                                   phased_snvs=0, span_union=0, block_list={}))
            requested = None
            if inp["chromosomes"]:
                requested = [x for c in inp["chromosomes"] for x in c.split(",")]
            expect_chroms = [c for c in want if requested is None or c in requested]
            got_chroms = [c for c in rows if c != "ALL"]
            if sorted(got_chroms) != sorted(expect_chroms):
                return dict(expected="rows for chromosomes %r" % sorted(expect_chroms), observed=sorted(got_chroms), clause="rows")
            for c in expect_chroms:
                row = rows[c]
                for k in ("variants", "heterozygous_variants", "heterozygous_snvs", "phased", "unphased", "singletons", "blocks", "phased_snvs"):
                    if int(float(row[k])) != want[c][k]:
                        return dict(expected="%s %s == %d (independent count for sample %s)" % (c, k, want[c][k], sample), observed=row[k], clause="count:" + k)
                if int(row["phased"]) + int(row["unphased"]) + int(row["singletons"]) != int(row["heterozygous_variants"]):
                    return dict(expected="phased + unphased + singletons == heterozygous", observed=str(row), clause="identity")
                if int(row["variant_per_block_sum"]) != int(row["phased"]):
                    return dict(expected="variant_per_block_sum == phased", observed=str(row), clause="identity")
                if int(float(row["bp_per_block_sum"])) > want[c]["span_union"]:
                    return dict(expected="%s: sum of non-overlapping block lengths <= covered span %d" % (c, want[c]["span_union"]), observed=row["bp_per_block_sum"], clause="span")
            if "ALL" in rows:
                for k in COUNT_FIELDS:
                    tot = sum(int(float(rows[c][k])) for c in got_chroms)
                    if int(float(rows["ALL"][k])) != tot:
                        return dict(expected="ALL %s == sum of rows == %d" % (k, tot), observed=rows["ALL"][k], clause="all-row")
            # block list
            listed = {}
            with open(bl) as f:
                f.readline()
                for line in f:
                    s, c, ps, a, b, n = line.rstrip("\n").split("\t")
                    if (c, int(ps)) in listed:
                        return dict(expected="one block-list line per phase set", observed=line, clause="block-list")
                    listed[(c, int(ps))] = (int(a), int(b), int(n))
            exp_list = {(c, b): v for c in expect_chroms for b, v in want[c]["block_list"].items()}
            if listed != exp_list:
                return dict(expected="block list %r" % sorted(exp_list.items())[:5], observed=str(sorted(listed.items())[:5]), clause="block-list")
            return None
        finally:
            logging.disable(logging.NOTSET)
            for n in os.listdir(d):
                os.unlink(os.path.join(d, n))
            os.rmdir(d)


class NonOverlapping(BCheck):
    name = "C12.nonoverlapping-blocks"
    contract = ("PhasingStats.get_nonoverlapping_blocks: the returned pieces are pairwise disjoint in span, every piece's variants come from one input block, "
                "and no variant is lost or duplicated")
    rule = "exhaustive: all assignments of 7 variants (positions 100..700) to <= 3 blocks or 'unassigned' (interleaved, nested shapes); non-trivial = two blocks overlap in span"
    exhaustive_in = ("quick", "thorough")
    chunk = 400
    budget_s = {"quick": 60, "thorough": 600}

    def inputs(self, tier, rng):
        import itertools
        n = 7 if tier == "quick" else 8
        for labels in itertools.product((0, 1, 2, 3), repeat=n):
            # canonical: block ids appear in order of first use
            first = [x for x in dict.fromkeys(l for l in labels if l)]
            if first != sorted(first):
                continue
            yield dict(labels=list(labels))

    def nontrivial(self, inp):
        iv = {}
        for i, l in enumerate(inp["labels"]):
            if l:
                iv.setdefault(l, [i, i])[1] = i
        ivs = sorted(iv.values())
        return any(a[1] > b[0] for a, b in zip(ivs, ivs[1:]))

    def check(self, inp):
        from whatshap.cli.stats import PhasingStats, PhasedBlock
        from whatshap.vcf import VariantCallPhase, BiallelicVcfVariant
        blocks = {}
        for i, l in enumerate(inp["labels"]):
            if l:
                b = blocks.setdefault(l, PhasedBlock("chr1"))
                b.add(BiallelicVcfVariant(100 * (i + 1), "A", "C"), VariantCallPhase(l, (0, 1), None))
        st = PhasingStats()
        st.add_blocks(list(blocks.values()))
        pieces = st.get_nonoverlapping_blocks()
        spans = sorted((min(v.position for v in p.variants()), max(v.position for v in p.variants())) for p in pieces if len(p) > 0)
        for a, b in zip(spans, spans[1:]):
            if a[1] >= b[0]:
                return dict(expected="pairwise disjoint pieces", observed=str(spans))
        total_in = sum(len(b) for b in blocks.values() if len(b) > 1)
        pos_out = sorted(v.position for p in pieces for v in p.variants())
        pos_in = sorted(v.position for b in blocks.values() if len(b) > 1 for v in b.variants())
        if len(set(pos_out)) != len(pos_out) or not set(pos_out) <= set(pos_in):
            return dict(expected="no variant duplicated or invented", observed=str(pos_out))
        for p in pieces:
            ids = {inp["labels"][v.position // 100 - 1] for v in p.variants()}
            if len(ids) > 1:
                return dict(expected="each piece within one input block", observed=str(ids))
        return None


B_CHECKS = [StatsFiles(), NonOverlapping()]
