"""C13 - unphase accepts every VCF, removes all phase information and nothing else."""
import io
import os
import random
import tempfile

from harness.runner import BCheck
from scenario import vcf as V

LEVEL = "other"
LEVEL_TEXT = ("Deductive, all inputs, over an axiomatised pysam record model (contracts/pysam_model.py): run_unphase writes exactly the reader's records in order, none "
              "modified after it was written; no record keeps an HP/PQ/PS FORMAT key and every other key stays; in records with GT no allele of any call keeps a phase "
              "bit, a fully known genotype becomes sorted(genotype) (an ordered permutation: same allele multiset) and every other genotype (None, partially missing) is "
              "left exactly as it was, without any exception (sorting a genotype with a missing allele would raise); records without GT keep their calls untouched; "
              "unphase_header removes the three FORMAT definitions and only `phasing` header lines. Bounded: the real run_unphase on generated VCF text (every ploidy "
              "per call, '.', './.', '0/.', records without GT, PS/HP/PQ in any combination, several samples) compared field by field with an independent text parser; "
              "idempotence; unphase(phase(x)) = unphase(x) - this also exercises the model's clauses against the real pysam.")
LEVEL_NOTE = "Trusted: pysam/htslib record model in the contract file; htslib's re-serialisation of untouched fields (checked by the bounded differ)."
TECHNIQUE = "contract-based deductive verification over a pysam record model (vcgen, z3) + bounded runtime contract with independent VCF text differ"
D_MODULES = ["contracts.unphase_py"]
EXPLANATION = LEVEL_TEXT
TRUSTED_BASE = ["z3/cvc5", "vcgen Python semantics", "pysam VariantRecord/VariantRecordSample modelled as maps (contracts/pysam_model.py)"]
ASSUMPTIONS = ["pysam returns GT as a tuple of int|None and accepts any permutation of it on assignment",
               "htslib writes untouched fields back unchanged (bounded check compares the text)"]
PHASE_TAGS = ("HP", "PS", "PQ")


def run_unphase_text(text):
    from whatshap.cli.unphase import run_unphase
    d = tempfile.mkdtemp(prefix="c13_")
    try:
        inp = os.path.join(d, "in.vcf")
        out = os.path.join(d, "out.vcf")
        with open(inp, "w") as f:
            f.write(text)
        run_unphase(inp, out)
        with open(out) as f:
            return f.read()
    finally:
        for n in os.listdir(d):
            os.unlink(os.path.join(d, n))
        os.rmdir(d)


def compare_unphased(intext, outtext):
    """None if outtext is intext with all phase information removed and nothing else changed."""
    h0, s0, r0 = V.parse(intext)
    h1, s1, r1 = V.parse(outtext)
    if s0 != s1:
        return dict(expected="samples %r" % s0, observed=s1)
    ids0, ids1 = V.header_ids(h0), V.header_ids(h1)
    for k in ids0:
        want = ids0[k] - (set(PHASE_TAGS) if k == "FORMAT" else set())
        if not want <= ids1[k]:
            return dict(expected="header still defines %s %r" % (k, sorted(want)), observed=sorted(ids1[k]))
    if ids1["FORMAT"] & set(PHASE_TAGS):
        return dict(expected="no HP/PS/PQ FORMAT definition", observed=sorted(ids1["FORMAT"]))
    if any(l.startswith("##phasing=") for l in h1):
        return dict(expected="no ##phasing header line", observed=[l for l in h1 if l.startswith("##phasing")])
    other0 = [l for l in h0 if not l.startswith(("##phasing=", "##FORMAT=<ID=HP", "##FORMAT=<ID=PS", "##FORMAT=<ID=PQ", "##fileformat"))]
    other1 = set(h1)
    for l in other0:
        if l not in other1:
            return dict(expected="header line kept: " + l, observed="missing")
    if len(r0) != len(r1):
        return dict(expected="%d records" % len(r0), observed="%d records" % len(r1))
    for a, b in zip(r0, r1):
        for k in ("chrom", "pos", "id", "ref", "alts", "qual", "filter", "info"):
            if a[k] != b[k]:
                return dict(expected="%s:%d %s=%r" % (a["chrom"], a["pos"], k, a[k]), observed=b[k])
        want_keys = [k for k in a["format"] if k not in PHASE_TAGS]
        if b["format"] != want_keys and not (not want_keys and b["format"] in ([], ["."])):
            return dict(expected="%s:%d FORMAT keys %r" % (a["chrom"], a["pos"], want_keys), observed=b["format"])
        for ca, cb in zip(a["calls"], b["calls"]):
            for k in want_keys:
                if k == "GT":
                    al0, _ = V.gt_alleles(ca[k])
                    al1, ph1 = V.gt_alleles(cb[k])
                    key = lambda x: (x is None, x if x is not None else 0)
                    if ph1 or sorted(al0, key=key) != sorted(al1, key=key):
                        return dict(expected="%s:%d GT: unphased permutation of %s" % (a["chrom"], a["pos"], ca[k]), observed=cb[k])
                elif ca[k] != cb[k]:
                    return dict(expected="%s:%d %s=%s" % (a["chrom"], a["pos"], k, ca[k]), observed=cb[k])
    return None


class UnphaseFiles(BCheck):
    name = "C13.run_unphase"
    contract = ("run_unphase succeeds on every well-formed VCF; output = input with no '|' in any GT, no HP/PS/PQ value or definition, no ##phasing line; "
                "every other header definition, record field, FORMAT value and the multiset of alleles of every GT unchanged; applying it twice = once")
    rule = ("seeded generation of VCF text: 1-2 contigs, 1-3 samples, SNV/MNP/indel/multi-ALT/symbolic records, duplicate positions, genotypes from "
            "{hom, het either order, ./., 0/., '.', haploid, triploid incl. partially missing}, PS/HP/PQ phasing in any combination, records without GT; "
            "non-trivial = the file contains a phased call, or a non-diploid/partially missing GT, or a record without GT")
    budget_s = {"quick": 60, "thorough": 600}
    chunk = 20

    def inputs(self, tier, rng):
        n = 400 if tier == "quick" else 6000
        for i in range(n):
            r = random.Random(rng.getrandbits(64))
            mode = i % 4
            sc = V.generate(
                r, phasing=[None, "PS", "HP", "mixed"][mode],
                gt_kinds=("homref", "het", "het", "het_rev", "homalt", "missing", "half", "half_phased", "dot", "haploid"),
                ploidies=(2, 2, 3, 1, 4) if i % 3 == 0 else (2,), mixed_ploidy=(i % 3 == 0),
                no_gt_records=0.15 if i % 5 == 0 else 0.0)
            yield dict(vcf=V.render(sc))

    def nontrivial(self, inp):
        t = inp["vcf"]
        body = [l for l in t.split("\n") if l and not l.startswith("#")]
        for l in body:
            c = l.split("\t")
            if len(c) > 9:
                if not c[8].startswith("GT"):
                    return True
                for s in c[9:]:
                    gt = s.split(":")[0]
                    if "|" in gt or gt.count("/") != 1 or "." in gt:
                        return True
        return False

    def check(self, inp):
        out1 = run_unphase_text(inp["vcf"])
        r = compare_unphased(inp["vcf"], out1)
        if r:
            return r
        out2 = run_unphase_text(out1)
        b1 = [l for l in out1.split("\n") if not l.startswith("##")]
        b2 = [l for l in out2.split("\n") if not l.startswith("##")]
        if b1 != b2:
            return dict(expected="unphase twice == once", observed=[x for x in zip(b1, b2) if x[0] != x[1]][:2])
        return None


class UnphaseAfterPhase(BCheck):
    name = "C13.unphase-after-phase"
    contract = "unphase(phase(x)) has the same records as unphase(x), for x phased by `whatshap phase` with either tag"
    rule = ("seeded scenarios (1-2 samples, het genotypes written 0/1 or 1/0, hom/missing calls, 1-2 phased VCFs as phase inputs), tag PS|HP; "
            "non-trivial = the phasing run phased at least one call")
    budget_s = {"quick": 60, "thorough": 600}
    chunk = 10

    def inputs(self, tier, rng):
        from scenario import phasing as PH
        for i in range(600 if tier == "quick" else 10000):
            r = random.Random(rng.getrandbits(64))
            g = PH.generate(r, k_files=(1, 2), main_kwargs=dict(n_samples=(1, 2), n_records=(4, 8)))
            yield dict(main_vcf=g["main_vcf"], phase_vcfs=g["phase_vcfs"], tag="PS" if i % 2 == 0 else "HP")

    def check(self, inp):
        from runtime.phase_driver import run_phase
        res = run_phase(inp["main_vcf"], inp["phase_vcfs"], tag=inp["tag"])
        if res["error"]:
            return dict(expected="phasing run succeeds", observed=res["error"])
        a = run_unphase_text(res["out"])
        b = run_unphase_text(inp["main_vcf"])
        ra = [l for l in a.split("\n") if l and not l.startswith("#")]
        rb = [l for l in b.split("\n") if l and not l.startswith("#")]
        if ra != rb:
            d = [(x, y) for x, y in zip(ra, rb) if x != y][:2]
            return dict(expected="unphase(phase(x)) records == unphase(x) records", observed=str(d) if d else "%d vs %d records" % (len(ra), len(rb)))
        return None


class PysamModelConformance(BCheck):
    name = "C13.pysam-model-conformance"
    contract = ("the clauses of contracts/pysam_model.py hold for the real pysam objects: call.phased == every allele after the first carries the phase bit "
                "(text: no '/' separator); call['GT'] = x stores x and clears every phase bit; call.phased = v sets every separator; `tag in call` == "
                "`tag in record.format`; del record.format[tag] removes the key for every call and keeps the others; call[tag] = None leaves the other "
                "calls' value; write() serialises the record as it is at that moment; iteration yields the records in file order")
    rule = ("the same generated VCF texts as C13.run_unphase; every clause is tried on every record/call of the file; non-trivial = file has a phased or "
            "non-diploid call")
    budget_s = {"quick": 40, "thorough": 300}
    chunk = 20

    def inputs(self, tier, rng):
        n = 300 if tier == "quick" else 4000
        for i in range(n):
            r = random.Random(rng.getrandbits(64))
            sc = V.generate(r, phasing=[None, "PS", "HP", "mixed"][i % 4],
                            gt_kinds=("homref", "het", "het", "het_rev", "homalt", "missing", "half", "half_phased", "dot", "haploid"),
                            ploidies=(2, 2, 3, 1, 4) if i % 3 == 0 else (2,), mixed_ploidy=(i % 3 == 0), no_gt_records=0.15 if i % 5 == 0 else 0.0)
            yield dict(vcf=V.render(sc))

    def nontrivial(self, inp):
        return UnphaseFiles.nontrivial(self, inp)

    def check(self, inp):
        import pysam
        d = tempfile.mkdtemp(prefix="c13m_")
        try:
            path = os.path.join(d, "in.vcf")
            with open(path, "w") as f:
                f.write(inp["vcf"])
            _h, _s, recs = V.parse(inp["vcf"])
            rd = pysam.VariantFile(path)
            out = os.path.join(d, "out.vcf")
            wr = pysam.VariantFile(out, "w", header=rd.header)
            expected_lines = []
            n = 0
            for k, rec in enumerate(rd):
                n += 1
                if k >= len(recs) or rec.pos != recs[k]["pos"] or rec.chrom != recs[k]["chrom"]:
                    return dict(expected="record %d of the file" % k, observed="%s:%d" % (rec.chrom, rec.pos), clause="file-order")
                keys = list(rec.format.keys())
                for j, call in enumerate(rec.samples.values()):
                    for t in ("GT", "PS", "HP", "PQ", "DP"):
                        if (t in call) != (t in rec.format):
                            return dict(expected="`%s in call` == `%s in record.format`" % (t, t), observed=(t in call, t in rec.format), clause="tag-in-call")
                    if "GT" not in rec.format:
                        continue
                    text_gt = recs[k]["calls"][j].get("GT", ".")
                    gt = call["GT"]
                    seps = [c for c in text_gt if c in "/|"]
                    if gt is not None and len(gt) != len(seps) + 1:
                        return dict(expected="len(GT) == alleles in %r" % text_gt, observed=gt, clause="gt-shape")
                    if call.phased != all(c == "|" for c in seps):
                        return dict(expected="call.phased == no '/' separator in %r" % text_gt, observed=call.phased, clause="phased-getter")
                    if gt is None:
                        continue
                    call["GT"] = tuple(gt)
                    if call["GT"] != tuple(gt) or (len(gt) > 1 and call.phased):
                        return dict(expected="after call['GT']=x: GT == x and no phase bit", observed=(call["GT"], call.phased), clause="set-gt-clears-phase")
                    call.phased = True
                    if not call.phased or call["GT"] != tuple(gt):
                        return dict(expected="call.phased = True sets every separator and keeps the alleles", observed=(call["GT"], call.phased), clause="set-phased")
                    call.phased = False
                    if len(gt) > 1 and call.phased:
                        return dict(expected="call.phased = False clears every separator", observed=call.phased, clause="set-phased")
                if "PS" in rec.format and len(rec.samples) > 1:
                    before = rec.samples[1]["PS"]
                    rec.samples[0]["PS"] = None
                    if rec.samples[0]["PS"] is not None or rec.samples[1]["PS"] != before or "PS" not in rec.format:
                        return dict(expected="call[tag]=None affects that call only, key stays", observed=(rec.samples[0]["PS"], rec.samples[1]["PS"]), clause="set-none")
                for t in ("HP", "PS"):
                    if t in rec.format:
                        del rec.format[t]
                        if t in rec.format or any(t in c for c in rec.samples.values()):
                            return dict(expected="del record.format[%s] removes the key for every call" % t, observed=list(rec.format.keys()), clause="del-format")
                        if [x for x in keys if x != t and x in ("GT", "DP", "PQ", "PS", "HP")] != [x for x in rec.format.keys() if x in ("GT", "DP", "PQ", "PS", "HP")]:
                            return dict(expected="other keys kept", observed=list(rec.format.keys()), clause="del-format")
                        keys = [x for x in keys if x != t]
                snapshot = str(rec)
                wr.write(rec)
                expected_lines.append(snapshot.rstrip("\n"))
                if "GT" in rec.format:
                    for call in rec.samples.values():        # modifications after write() must not reach the output
                        if call["GT"] is not None and len(call["GT"]) > 1:
                            call.phased = not call.phased
            wr.close()
            if n != len(recs):
                return dict(expected="%d records" % len(recs), observed=n, clause="file-order")
            with open(out) as f:
                got = [l for l in f.read().split("\n") if l and not l.startswith("#")]
            if got != expected_lines:
                return dict(expected="write() serialises the record as it was when written", observed=[x for x in zip(got, expected_lines) if x[0] != x[1]][:1], clause="write-snapshot")
            return None
        finally:
            for x in os.listdir(d):
                os.unlink(os.path.join(d, x))
            os.rmdir(d)


B_CHECKS = [UnphaseFiles(), UnphaseAfterPhase(), PysamModelConformance()]
