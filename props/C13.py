"""C13 - unphase accepts every VCF, removes all phase information and nothing else."""
import io
import os
import random
import tempfile

from harness.runner import BCheck
from scenario import vcf as V

LEVEL = "other"
LEVEL_TEXT = ("Deductive, all inputs, over an axiomatised pysam record model (contracts/pysam_model.py): run_unphase writes exactly the reader's records in order, none "
              "modified after it was written; no record keeps an HP/PQ/PS FORMAT key and every other key stays; in records with GT no allele of any call keeps a phase "
              "bit, a fully known genotype becomes sorted(genotype) (an ordered permutation: same allele multiset) and every other genotype (None, partially missing) is "
              "left exactly as it was, without any exception (sorting a genotype with a missing allele would raise); records without GT keep their calls untouched; "
              "unphase_header removes the three FORMAT definitions and only `phasing` header lines. Bounded: the real run_unphase on generated VCF text (every ploidy "
              "per call, '.', './.', '0/.', records without GT, PS/HP/PQ in any combination, several samples) compared field by field with an independent text parser; "
              "idempotence; unphase(phase(x)) = unphase(x) - this also exercises the model's clauses against the real pysam.")
LEVEL_NOTE = "Trusted: pysam/htslib record model in the contract file; htslib's re-serialisation of untouched fields (checked by the bounded differ)."
TECHNIQUE = "contract-based deductive verification over a pysam record model (vcgen, z3) + bounded runtime contract with independent VCF text differ"
D_MODULES = ["contracts.unphase_py"]
EXPLANATION = LEVEL_TEXT
TRUSTED_BASE = ["z3/cvc5", "vcgen Python semantics", "pysam VariantRecord/VariantRecordSample modelled as maps (contracts/pysam_model.py)"]
ASSUMPTIONS = ["pysam returns GT as a tuple of int|None and accepts any permutation of it on assignment",
               "htslib writes untouched fields back unchanged (bounded check compares the text)"]
PHASE_TAGS = ("HP", "PS", "PQ")


def run_unphase_text(text):
    from whatshap.cli.unphase import run_unphase
    d = tempfile.mkdtemp(prefix="c13_")
    try:
        inp = os.path.join(d, "in.vcf")
        out = os.path.join(d, "out.vcf")
        with open(inp, "w") as f:
            f.write(text)
        run_unphase(inp, out)
        with open(out) as f:
            return f.read()
    finally:
        for n in os.listdir(d):
            os.unlink(os.path.join(d, n))
        os.rmdir(d)


def compare_unphased(intext, outtext):
    """None if outtext is intext with all phase information removed and nothing else changed."""
    h0, s0, r0 = V.parse(intext)
    h1, s1, r1 = V.parse(outtext)
    if s0 != s1:
        return dict(expected="samples %r" % s0, observed=s1)
    ids0, ids1 = V.header_ids(h0), V.header_ids(h1)
    for k in ids0:
        want = ids0[k] - (set(PHASE_TAGS) if k == "FORMAT" else set())
        if not want <= ids1[k]:
            return dict(expected="header still defines %s %r" % (k, sorted(want)), observed=sorted(ids1[k]))
    if ids1["FORMAT"] & set(PHASE_TAGS):
        return dict(expected="no HP/PS/PQ FORMAT definition", observed=sorted(ids1["FORMAT"]))
    if any(l.startswith("##phasing=") for l in h1):
        return dict(expected="no ##phasing header line", observed=[l for l in h1 if l.startswith("##phasing")])
    other0 = [l for l in h0 if not l.startswith(("##phasing=", "##FORMAT=<ID=HP", "##FORMAT=<ID=PS", "##FORMAT=<ID=PQ", "##fileformat"))]
    other1 = set(h1)
    for l in other0:
        if l not in other1:
            return dict(expected="header line kept: " + l, observed="missing")
    if len(r0) != len(r1):
        return dict(expected="%d records" % len(r0), observed="%d records" % len(r1))
    for a, b in zip(r0, r1):
        for k in ("chrom", "pos", "id", "ref", "alts", "qual", "filter", "info"):
            if a[k] != b[k]:
                return dict(expected="%s:%d %s=%r" % (a["chrom"], a["pos"], k, a[k]), observed=b[k])
        want_keys = [k for k in a["format"] if k not in PHASE_TAGS]
        if b["format"] != want_keys and not (not want_keys and b["format"] in ([], ["."])):
            return dict(expected="%s:%d FORMAT keys %r" % (a["chrom"], a["pos"], want_keys), observed=b["format"])
        for ca, cb in zip(a["calls"], b["calls"]):
            for k in want_keys:
                if k == "GT":
                    al0, _ = V.gt_alleles(ca[k])
                    al1, ph1 = V.gt_alleles(cb[k])
                    key = lambda x: (x is None, x if x is not None else 0)
                    if ph1 or sorted(al0, key=key) != sorted(al1, key=key):
                        return dict(expected="%s:%d GT: unphased permutation of %s" % (a["chrom"], a["pos"], ca[k]), observed=cb[k])
                elif ca[k] != cb[k]:
                    return dict(expected="%s:%d %s=%s" % (a["chrom"], a["pos"], k, ca[k]), observed=cb[k])
    return None


class UnphaseFiles(BCheck):
    name = "C13.run_unphase"
    contract = ("run_unphase succeeds on every well-formed VCF; output = input with no '|' in any GT, no HP/PS/PQ value or definition, no ##phasing line; "
                "every other header definition, record field, FORMAT value and the multiset of alleles of every GT unchanged; applying it twice = once")
    rule = ("seeded generation of VCF text: 1-2 contigs, 1-3 samples, SNV/MNP/indel/multi-ALT/symbolic records, duplicate positions, genotypes from "
            "{hom, het either order, ./., 0/., '.', haploid, triploid incl. partially missing}, PS/HP/PQ phasing in any combination, records without GT; "
            "non-trivial = the file contains a phased call, or a non-diploid/partially missing GT, or a record without GT")
    budget_s = {"quick": 60, "thorough": 600}
    chunk = 20

    def inputs(self, tier, rng):
        n = 400 if tier == "quick" else 6000
        for i in range(n):
            r = random.Random(rng.getrandbits(64))
            mode = i % 4
            sc = V.generate(
                r, phasing=[None, "PS", "HP", "mixed"][mode],
                gt_kinds=("homref", "het", "het", "het_rev", "homalt", "missing", "half", "half_phased", "dot", "haploid"),
                ploidies=(2, 2, 3, 1, 4) if i % 3 == 0 else (2,), mixed_ploidy=(i % 3 == 0),
                no_gt_records=0.15 if i % 5 == 0 else 0.0)
            yield dict(vcf=V.render(sc))

    def nontrivial(self, inp):
        t = inp["vcf"]
        body = [l for l in t.split("\n") if l and not l.startswith("#")]
        for l in body:
            c = l.split("\t")
            if len(c) > 9:
                if not c[8].startswith("GT"):
                    return True
                for s in c[9:]:
                    gt = s.split(":")[0]
                    if "|" in gt or gt.count("/") != 1 or "." in gt:
                        return True
        return False

    def check(self, inp):
        out1 = run_unphase_text(inp["vcf"])
        r = compare_unphased(inp["vcf"], out1)
        if r:
            return r
        out2 = run_unphase_text(out1)
        b1 = [l for l in out1.split("\n") if not l.startswith("##")]
        b2 = [l for l in out2.split("\n") if not l.startswith("##")]
        if b1 != b2:
            return dict(expected="unphase twice == once", observed=[x for x in zip(b1, b2) if x[0] != x[1]][:2])
        return None


class UnphaseAfterPhase(BCheck):
    name = "C13.unphase-after-phase"
    contract = "unphase(phase(x)) has the same records as unphase(x), for x phased by `whatshap phase` with either tag"
    rule = ("seeded scenarios (1-2 samples, het genotypes written 0/1 or 1/0, hom/missing calls, 1-2 phased VCFs as phase inputs), tag PS|HP; "
            "non-trivial = the phasing run phased at least one call")
    budget_s = {"quick": 60, "thorough": 600}
    chunk = 10

    def inputs(self, tier, rng):
        from scenario import phasing as PH
        for i in range(600 if tier == "quick" else 10000):
            r = random.Random(rng.getrandbits(64))
            g = PH.generate(r, k_files=(1, 2), main_kwargs=dict(n_samples=(1, 2), n_records=(4, 8)))
            yield dict(main_vcf=g["main_vcf"], phase_vcfs=g["phase_vcfs"], tag="PS" if i % 2 == 0 else "HP")

    def check(self, inp):
        from runtime.phase_driver import run_phase
        res = run_phase(inp["main_vcf"], inp["phase_vcfs"], tag=inp["tag"])
        if res["error"]:
            return dict(expected="phasing run succeeds", observed=res["error"])
        a = run_unphase_text(res["out"])
        b = run_unphase_text(inp["main_vcf"])
        ra = [l for l in a.split("\n") if l and not l.startswith("#")]
        rb = [l for l in b.split("\n") if l and not l.startswith("#")]
        if ra != rb:
            d = [(x, y) for x, y in zip(ra, rb) if x != y][:2]
            return dict(expected="unphase(phase(x)) records == unphase(x) records", observed=str(d) if d else "%d vs %d records" % (len(ra), len(rb)))
        return None


B_CHECKS = [UnphaseFiles(), UnphaseAfterPhase()]
