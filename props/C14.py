"""C14 - split distributes every read to exactly the outputs its haplotype entry selects."""
import os
import random
import shutil
import tempfile

from harness.runner import BCheck

LEVEL = "exploration"
LEVEL_TEXT = ("Deductive part (vcgen/z3, all inputs): a LOOP-BODY contract for run_split's single pass (the loop and its free variables verified as a unit; initialisation and the code around it are not): every requested output holds exactly the records the statement assigns to it, in input order (ghost counting functions NGO/SRC), nothing else is appended, and the per-output length histogram counts the reads written to that output - the latter is discharged for runs without --add-untagged and fails on the --add-untagged path (known finding F7b). Bounded stand-in: the real run_split on generated FASTQ and BAM inputs (duplicate names, "
              "reads without sequence in BAM, 2- and 4-column lists with/without header, 'none' entries, names absent from the reads, reads absent from the list, ploidy 2-4, "
              "every combination of requested outputs, --add-untagged, --discard-unknown-reads, --only-largest-block, histogram) against the partition recomputed "
              "independently from the statement: each output holds exactly the expected records, unmodified and in input order; the histogram columns sum to the number "
              "of reads written per requested output.")
LEVEL_NOTE = "Seeded sampling over option combinations; haplotag lists name each read at most once."
TECHNIQUE = "bounded runtime contract on run_split against an independently recomputed partition (FASTQ text / BAM records)"
D_MODULES = ["contracts.split_py"]
EXPLANATION = LEVEL_TEXT
TRUSTED_BASE = ["pysam for reading the BAM outputs back"]
ASSUMPTIONS = ["each read name occurs at most once in the haplotag list"]
BASES = "ACGT"


def make_case(r, fmt):
    ploidy = r.choice([2, 2, 3, 4])
    names = ["read%d" % i for i in range(r.randint(3, 9))]
    reads = []
    for _ in range(r.randint(4, 14)):
        n = r.choice(names)       # duplicate names happen (mates, supplementary alignments)
        L = r.choice([0, 0, 5, 8, 8, 13, 21]) if fmt == "bam" else r.choice([5, 8, 8, 13, 21])
        reads.append(dict(name=n, seq="".join(r.choice(BASES) for _ in range(L)), comment=r.choice(["", "", " runid=ab12 ch=%d" % r.randint(1, 9), " 1:N:0:ACGT"])))
    four = r.random() < 0.6
    header = r.random() < 0.6
    listed = {}
    rows = []
    for n in names + ["absent%d" % i for i in range(r.randint(0, 2))]:
        if r.random() < 0.2:
            continue                                   # read not mentioned in the list
        h = r.choice(["none"] + ["H%d" % i for i in range(1, ploidy + 1)] * 2)
        ps = r.choice([100, 100, 2000, 5000])
        chrom = r.choice(["chr1", "chr1", "chr2"])
        listed[n] = (h, ps, chrom)
        rows.append([n, h, str(ps), chrom] if four else [n, h])
    if not rows:
        rows.append([names[0], "H1", "100", "chr1"] if four else [names[0], "H1"])
        listed[names[0]] = ("H1", 100, "chr1")
    r.shuffle(rows)
    lst = ("#readname\thaplotype\tphaseset\tchromosome\n" if (header and four) else ("#readname\thaplotype\n" if header else "")) + "".join("\t".join(x) + "\n" for x in rows)
    req = [r.random() < 0.75 for _ in range(ploidy + 1)]    # which outputs are requested: [untagged, H1..Hp]
    if not any(req[1:]):
        req[1] = True
    return dict(fmt=fmt, ploidy=ploidy, reads=reads, list=lst, four=four, requested=req, add_untagged=r.random() < 0.35, discard=r.random() < 0.3,
                largest=(four and r.random() < 0.3), rows=rows)


def expected_partition(case):
    ploidy = case["ploidy"]
    hap = {}
    info = {}
    order = []
    for row in case["rows"]:
        n, h = row[0], row[1]
        hap[n] = 0 if h == "none" else int(h[1:])
        order.append(n)
        if case["four"]:
            info[n] = (row[3], row[2])
    known = set(hap)
    if case["largest"]:
        sizes = {}
        first_seen = {}
        for n in order:
            if hap[n] == 0:
                continue
            c, ps = info[n]
            sizes.setdefault(c, {})
            sizes[c][ps] = sizes[c].get(ps, 0) + 1
        keep = set()
        for c, d in sizes.items():
            best = max(d.values())
            ps = [p for p in d if d[p] == best][0]         # ties: first inserted (Counter.most_common is stable)
            keep |= {n for n in order if hap[n] and info[n] == (c, ps)}
        for n in list(hap):
            if hap[n] and n not in keep:
                hap[n] = 0
    outs = [[] for _ in range(ploidy + 1)]
    for i, rd in enumerate(case["reads"]):
        n = rd["name"]
        if case["discard"] and n not in known:
            continue
        h = hap.get(n, 0)
        if h == 0:
            if case["requested"][0]:
                outs[0].append(i)
            if case["add_untagged"]:
                for k in range(1, ploidy + 1):
                    if case["requested"][k]:
                        outs[k].append(i)
        elif case["requested"][h]:
            outs[h].append(i)
    return outs


class SplitFiles(BCheck):
    name = "C14.run_split"
    contract = ("run_split: every requested output file contains exactly the input records whose list entry selects it (unlisted/'none' reads -> untagged output, additionally all "
                "haplotype outputs with --add-untagged, nowhere if --discard-unknown-reads and unlisted), unmodified, in input order; read-length histogram column sums == "
                "number of records written to the corresponding requested output")
    rule = ("seeded cases: FASTQ (headers with and without comments) and BAM inputs with 4-14 records over 3-9 names (duplicate names; BAM records without sequence), lists with 2 or 4 columns, with/without header, "
            "'none' entries, names absent from the reads, unlisted reads, ploidy 2-4, random subsets of requested outputs x add-untagged x discard-unknown x only-largest-block; "
            "non-trivial = some name occurs twice or an option besides plain splitting is set")
    budget_s = {"quick": 120, "thorough": 1200}
    chunk = 10

    def inputs(self, tier, rng):
        for i in range(2500 if tier == "quick" else 40000):
            yield dict(seed=rng.getrandbits(48), fmt="fastq" if i % 2 == 0 else "bam")

    def check(self, inp):
        import logging
        import pysam
        from whatshap.cli.split import run_split
        logging.disable(logging.CRITICAL)
        r = random.Random(inp["seed"])
        case = make_case(r, inp["fmt"])
        d = tempfile.mkdtemp(prefix="c14_")
        try:
            if case["fmt"] == "fastq":
                src = os.path.join(d, "reads.fastq")
                recs = []
                with open(src, "w") as f:
                    for rd in case["reads"]:
                        t = "@%s%s\n%s\n+\n%s\n" % (rd["name"], rd.get("comment", ""), rd["seq"], "I" * len(rd["seq"]))
                        recs.append(t)
                        f.write(t)
                ext = "fastq"
            else:
                src = os.path.join(d, "reads.bam")
                header = {"HD": {"VN": "1.6", "SO": "unsorted"}, "SQ": [{"SN": "chr1", "LN": 1000}]}
                recs = []
                with pysam.AlignmentFile(src, "wb", header=header) as out:
                    for k, rd in enumerate(case["reads"]):
                        a = pysam.AlignedSegment(out.header)
                        a.query_name = rd["name"]
                        a.flag = 4 if k % 3 else 0
                        if a.flag == 0:
                            a.reference_id = 0
                            a.reference_start = 10 + k
                            a.mapping_quality = 20
                            a.cigartuples = [(0, len(rd["seq"]))] if rd["seq"] else [(0, 7)]
                        a.query_sequence = rd["seq"] if rd["seq"] else None
                        if rd["seq"]:
                            a.query_qualities = pysam.qualitystring_to_array("I" * len(rd["seq"]))
                        a.set_tag("XI", k)
                        out.write(a)
                        recs.append(a.to_string())
                ext = "bam"
            lst = os.path.join(d, "list.tsv")
            with open(lst, "w") as f:
                f.write(case["list"])
            paths = [os.path.join(d, "out%d.%s" % (k, ext)) if case["requested"][k] else None for k in range(case["ploidy"] + 1)]
            hist = os.path.join(d, "hist.tsv")
            kw = dict(output_untagged=paths[0], add_untagged=case["add_untagged"], only_largest_block=case["largest"], discard_unknown_reads=case["discard"],
                      read_lengths_histogram=hist)
            try:
                if case["ploidy"] == 2 and inp["seed"] % 2:
                    run_split(src, lst, output_h1=paths[1], output_h2=paths[2], **kw)
                else:
                    run_split(src, lst, outputs=paths[1:], **kw)
            except AssertionError as e:
                if case["discard"] and "No known reads" in str(e):
                    return None      # documented refusal: nothing known, would discard everything
                raise
            want = expected_partition(case)
            for k, p in enumerate(paths):
                if p is None:
                    continue
                if ext == "fastq":
                    with open(p) as f:
                        text = f.read()
                    got = []
                    lines = text.split("\n")
                    for j in range(0, len(lines) - 1, 4):
                        got.append("\n".join(lines[j:j + 4]) + "\n")
                else:
                    with pysam.AlignmentFile(p, check_sq=False) as f:
                        got = [a.to_string() for a in f.fetch(until_eof=True)]
                exp = [recs[i] for i in want[k]]
                if got != exp:
                    return dict(expected="output %s == input records %r (names %r)" % ("untagged" if k == 0 else "H%d" % k, want[k], [case["reads"][i]["name"] for i in want[k]]),
                                observed="%d records: %r" % (len(got), [g.split("\n")[0].split("\t")[0] for g in got][:12]), clause="partition", case=_brief(case), output=k)
            # histogram
            with open(hist) as f:
                header = f.readline().rstrip("\n").split("\t")
                sums = [0] * (len(header) - 1)
                for line in f:
                    c = line.rstrip("\n").split("\t")
                    for j in range(1, len(c)):
                        sums[j - 1] += int(c[j])
            for k, p in enumerate(paths):
                if p is not None and sums[k] != len(want[k]):
                    return dict(expected="histogram column %s sums to the %d reads written to that output" % (header[k + 1], len(want[k])), observed=sums[k],
                                clause="histogram", add_untagged=case["add_untagged"], output=k, case=_brief(case))
                # an output that was not requested receives no read: its column stays empty (the untagged column under --add-untagged is the
                # subject of known finding F7b and is left out here)
                if p is None and sums[k] != 0 and not (k == 0 and case["add_untagged"]):
                    return dict(expected="histogram column %s is empty: that output was not requested, no read is written to it" % header[k + 1], observed=sums[k],
                                clause="histogram-unrequested", add_untagged=case["add_untagged"], output=k, case=_brief(case))
            return None
        finally:
            logging.disable(logging.NOTSET)
            shutil.rmtree(d, ignore_errors=True)


def _brief(case):
    return dict(ploidy=case["ploidy"], requested=case["requested"], add_untagged=case["add_untagged"], discard=case["discard"], largest=case["largest"], four=case["four"],
                names=[r["name"] for r in case["reads"]], rows=case["rows"])


B_CHECKS = [SplitFiles()]
