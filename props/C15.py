"""C15 - polyphase output obeys the input genotypes and forms contiguous blocks."""
import os
import random
import shutil
import tempfile

from harness.runner import BCheck
from scenario import bam as BAM, phasing as PH, vcf as V

LEVEL = "exploration"
LEVEL_TEXT = ("Deductive part (vcgen/z3, all inputs): a LOOP-BODY contract for the translation of cut positions into phase sets in phase_single_individual (the loop verified as a unit): every read-covered variant of an interval [cuts[k], cuts[k+1]) ends up in the component named by the position of the first variant of that interval, also when variant positions are adjacent (the extra position+1 keys are always overwritten by the right value) (contracts/polyphase_py.py). "
              "Heuristic solver: only output constraints are specified. Bounded stand-in: whole `whatshap polyphase` runs on generated polyploid BAM/VCF scenarios (ploidy 2-4, "
              "SNVs incl. variants 1 bp apart, uneven coverage, isolated variants covered only by uninformative reads, block-cut sensitivities 0-5, --min-overlap 2-3, "
              "--only-snvs): every phased genotype is a permutation of the input genotype, only heterozygous calls are phased, the rest of the VCF is passed through, and "
              "the phase sets of a sample are disjoint position intervals each named by (and containing, if phased) its first variant. "
              "compute_cut_positions (floating point) is bounded only.")
LEVEL_NOTE = "Seeded sampling. Trusted: scenario generator and the independent VCF differ."
TECHNIQUE = "bounded runtime contract on run_polyphase output (genotype conformance, pass-through, interval structure) over generated polyploid scenarios"
D_MODULES = ["contracts.polyphase_py"]
EXPLANATION = LEVEL_TEXT
TRUSTED_BASE = ["scenario/bam.py", "runtime/vcfdiff.py"]
ASSUMPTIONS = ["genotypes are not distrusted"]


class Polyphase(BCheck):
    name = "C15.run_polyphase"
    contract = ("run_polyphase (genotypes trusted): each phased GT lists exactly the alleles of the input GT with multiplicities; only heterozygous calls are phased; all other "
                "fields/records pass through; per sample the phase sets are pairwise disjoint intervals in position order, a set named X contains no variant left of X and "
                "contains the variant at X whenever that variant is phased")
    rule = ("seeded scenarios: ploidy 2-4, 1 sample, 4-12 SNVs (gaps 0-25 bp, i.e. also adjacent positions), depth 2-6 per haplotype with read length 30-120 (some variants covered "
            "only by reads seeing one variant), block-cut sensitivity 0-5, min-overlap 2-3; a third of the runs with a second, read-less chromosome carrying variants at the "
            "same coordinates with other genotypes (its records must pass through); non-trivial = >= 2 calls phased")
    budget_s = {"quick": 200, "thorough": 1800}
    chunk = 2
    parallel = True

    def inputs(self, tier, rng):
        for i in range(1500 if tier == "quick" else 20000):
            yield dict(seed=rng.getrandbits(48), ploidy=[2, 3, 4, 3][i % 4], sens=i % 6, min_overlap=2 if i % 3 else 3, adjacent=(i % 2 == 0), quiet=(i % 3 == 1))

    def check(self, inp):
        import logging
        from whatshap.cli.polyphase import run_polyphase
        logging.disable(logging.CRITICAL)
        r = random.Random(inp["seed"])
        p = inp["ploidy"]
        sc = BAM.generate(r, n_samples=(1, 1), kinds=("snv",), ploidy=p, depth=(2, 6) if p < 4 else (2, 4), read_len=(30, 120), n_variants=(4, 12), hom_frac=0.1,
                          softclip=0.1, eqx=0.0, min_gap=0 if inp["adjacent"] else 6, ref_len=(250, 400))
        if inp.get("quiet"):
            # a second chromosome with variants at the SAME coordinates, other genotypes and no reads at all: nothing can be phased there, its records pass through
            c0 = sc["contigs"][0]
            sc["contigs"].append(dict(name="chr2", seq=c0["seq"], variants=[dict(v) for v in c0["variants"]]))
            for smp in sc["samples"]:
                sc["truth"][smp]["chr2"] = [[r.randint(0, 1) for _ in c0["variants"]] for _ in range(p)]
        d = tempfile.mkdtemp(prefix="c15_")
        try:
            paths = BAM.materialize(sc, d)
            vcf_text = BAM.vcf_text(sc)
            vcf = os.path.join(d, "in.vcf")
            with open(vcf, "w") as f:
                f.write(vcf_text)
            out = os.path.join(d, "out.vcf")
            try:
                run_polyphase([paths["bam"]], vcf, p, output=out, block_cut_sensitivity=inp["sens"], min_overlap=inp["min_overlap"], write_command_line_header=False, threads=1)
            except Exception as e:
                import traceback
                return dict(expected="run_polyphase succeeds", observed="%s: %s" % (type(e).__name__, e), traceback=traceback.format_exc()[-1500:])
            with open(out) as f:
                out_text = f.read()
            from runtime.vcfdiff import compare_phase_output
            rr = compare_phase_output(vcf_text, out_text, "PS", [], [])
            if rr:
                rr["clause"] = "passthrough/genotype"
                return rr
            samples, recs, phase = PH.decode_phasing(out_text)
            s = samples[0]
            stray = [(recs[ri]["chrom"], recs[ri]["pos"]) for ri in phase[s] if recs[ri]["chrom"] == "chr2"]
            if stray:
                return dict(expected="no phase information on chr2 (no read covers it)", observed=str(stray), clause="quiet-chromosome")
            first = sc["contigs"][0]["name"]
            recs_all, recs = recs, [rec for rec in recs if rec["chrom"] == first]
            seq = [(recs_all[ri]["pos"], phase[s][ri][0]) for ri in sorted(phase[s], key=lambda k: recs_all[k]["pos"])]
            seen = []
            for pos, ps in seq:
                if seen and seen[-1] != ps and ps in seen:
                    return dict(expected="phase sets are disjoint intervals in position order", observed=str(seq), clause="intervals")
                if not seen or seen[-1] != ps:
                    seen.append(ps)
            members = {}
            for pos, ps in seq:
                members.setdefault(ps, []).append(pos)
            phased_pos = {pos: ps for pos, ps in seq}
            for ps, ms in members.items():
                if ps > min(ms):
                    return dict(expected="set %d contains no variant left of its name" % ps, observed=str(ms), clause="naming")
                if ps in phased_pos and phased_pos[ps] != ps:
                    return dict(expected="the variant at %d, after which set %d is named, belongs to that set" % (ps, ps), observed="it is in set %d; sets: %r" % (phased_pos[ps], members),
                                clause="naming")
                if ps not in {rec["pos"] for rec in recs}:
                    return dict(expected="set name %d is the position of a variant" % ps, observed=str(sorted(rec["pos"] for rec in recs)), clause="naming")
            return None
        finally:
            logging.disable(logging.NOTSET)
            shutil.rmtree(d, ignore_errors=True)


B_CHECKS = [Polyphase()]
