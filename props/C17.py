"""C17 - haplotag followed by haplotagphase reproduces the phasing that tagged the reads."""
import os
import random
import shutil
import tempfile

from harness.runner import BCheck
from scenario import bam as BAM, phasing as PH, vcf as V

LEVEL = "exploration"
LEVEL_TEXT = ("Deductive part (vcgen/z3, all inputs): length_of_homopolymer returns min(threshold, length of the maximal run of the first base); compute_votes builds exactly the "
              "quality-weighted votes per (variant position, phase set, haplotype xor allele) over all validly tagged reads (every entry equals the ghost sum W over the whole "
              "input, a non-zero sum has an entry, both haplotype keys of a phase set are entered together, no KeyError); best_candidate returns a key of the dict with its "
              "score, no key scores higher, and the share lies in [0, 1] (needs non-negative scores with a positive one: otherwise it divides by zero) "
              "(contracts/haplotagphase_py.py). consensus and run_haplotagphase are not under contract. "
              "Pipeline property over BAM files: bounded stand-in. Generated diploid scenarios (error-free reads, SNV/MNP/indel variants, several phase sets with random "
              "haplotype order, no read overlapping two sets) are run through haplotag -> (full or indel-only) unphase -> haplotagphase with default thresholds; every "
              "variant newly phased must carry exactly the genotype order and phase set it had in the tagging VCF, and variants already phased in the haplotagphase "
              "input must come out unchanged. ")
LEVEL_NOTE = "Seeded sampling. Trusted: scenario generator, independent decoder."
TECHNIQUE = "contract-based deductive verification of the voting functions of haplotagphase.py (vcgen, z3) + bounded runtime contract on the pipeline run_haplotag -> unphase -> run_haplotagphase over generated BAM/VCF scenarios"
D_MODULES = ["contracts.haplotagphase_py"]
EXPLANATION = LEVEL_TEXT
TRUSTED_BASE = ["scenario/bam.py", "scenario/phasing.py decoder"]
ASSUMPTIONS = ["best_candidate: scores are non-negative and one is positive (qualities are; a position whose votes all have quality 0 would divide by zero)", "consensus / run_haplotagphase are covered by the bounded pipeline check only", "thresholds at their defaults; reads never overlap two phase sets (the statement's proviso)"]


def partial_unphase(text, only_indels):
    """unphase (text level) either everything or only non-SNV records"""
    out = []
    for line in text.split("\n"):
        if line and not line.startswith("#"):
            c = line.split("\t")
            is_snv = len(c[3]) == 1 and len(c[4]) == 1
            if not only_indels or not is_snv:
                gt, ps = c[9].split(":")
                al = sorted(int(x) for x in gt.replace("|", "/").split("/"))
                c[9] = "/".join(map(str, al)) + ":."
            line = "\t".join(c)
        out.append(line)
    return "\n".join(out)


class Pipeline(BCheck):
    name = "C17.haplotag-haplotagphase"
    contract = ("after haplotag with phased VCF P, haplotagphase on the (partly) unphased VCF phases a variant only with the allele order and phase set it has in P, "
                "and leaves variants that are already phased in its input untouched")
    rule = ("seeded diploid scenarios, 1 sample, 4-9 variants of mixed type, 1-3 contiguous phase sets, reads that span two sets removed, a quarter of the runs with barcodes (BX) shared by reads farther apart than the linked-read cutoff; haplotagphase input either fully "
            "unphased or with only the indels/MNPs unphased; non-trivial = at least one variant newly phased")
    budget_s = {"quick": 150, "thorough": 1500}
    chunk = 4

    def inputs(self, tier, rng):
        for i in range(1500 if tier == "quick" else 20000):
            yield dict(seed=rng.getrandbits(48), partial=(i % 2 == 1), sparse=(i % 3 == 0), straddle=(i % 4 == 3), thin=(i % 5 != 0), bx=(i % 4 == 2))

    def check(self, inp):
        from whatshap.cli.haplotag import run_haplotag
        from whatshap.cli.haplotagphase import run_haplotagphase
        import logging
        import pysam
        logging.disable(logging.CRITICAL)
        r = random.Random(inp["seed"])
        sc = BAM.generate(r, n_samples=(1, 1), kinds=("snv", "snv", "ins", "del", "mnp"), depth=(1, 2) if inp["sparse"] else (3, 6), read_len=(40, 120), n_variants=(4, 9),
                          hom_frac=0.1, softclip=0.1, eqx=0.0)
        full_text, phasing = BAM.phased_vcf(sc, r, max_sets=3, interleave=0.0, unphased_frac=0.0)
        s = sc["samples"][0]
        # tagging VCF P: the full truth phasing with some variants left unphased (also the leftmost of a set); every set is named by its
        # leftmost variant that is still phased in P.  expect[(contig, index)] = (PS in P, alleles in P's haplotype order) for every set member.
        expect = {}
        in_P = {}
        for c in sc["contigs"]:
            col = phasing[s][c["name"]]
            sets = {}
            for i, ph in enumerate(col):
                if ph:
                    sets.setdefault(ph[0], []).append(i)
            for ps, members in sets.items():
                drop = set()
                if inp.get("thin"):
                    drop = {i for i in members if r.random() < 0.25}
                    if r.random() < 0.4:
                        drop.add(members[0])
                rest = [i for i in members if i not in drop]
                if len(rest) < 1:
                    continue
                name = c["variants"][rest[0]]["pos"] + 1
                for i in members:
                    expect[(c["name"], c["variants"][i]["pos"] + 1)] = (name, tuple(col[i][1]))
                    if i in rest:
                        in_P[(c["name"], c["variants"][i]["pos"] + 1)] = (name, tuple(col[i][1]))
        lines = []
        for line in full_text.split("\n"):
            if line and not line.startswith("#"):
                f = line.split("\t")
                key = (f[0], int(f[1]))
                if key in in_P:
                    f[9] = "|".join(map(str, in_P[key][1])) + ":%d" % in_P[key][0]
                else:
                    al = sorted(int(x) for x in f[9].split(":")[0].replace("|", "/").split("/"))
                    f[9] = "/".join(map(str, al)) + ":."
                line = "\t".join(f)
            lines.append(line)
        vcf_text = "\n".join(lines)
        # drop reads that cover variants of two different phase sets (the statement's proviso)
        keep = []
        for rd in sc["reads"]:
            c = [x for x in sc["contigs"] if x["name"] == rd["contig"]][0]
            blocks = BAM.aligned_blocks(rd["start"], [tuple(x) for x in rd["cigar"]])
            sets = set()
            for i, v in enumerate(c["variants"]):
                ph = phasing[s][c["name"]][i]
                if ph and any(bs < v["pos"] + len(v["ref"]) and v["pos"] < be for bs, be in blocks):
                    sets.add(ph[0])
            if len(sets) <= 1 or inp.get("straddle"):
                keep.append(rd)
        sc["reads"] = keep
        if not keep:
            return None        # nothing left to tag: haplotag rightly refuses a BAM without reads
        cutoff = 50000
        if inp.get("bx"):
            # linked reads: pairs of reads that share a barcode but start farther apart than the linked-read cutoff (in either order) are two read clouds;
            # each read is tagged on its own evidence, so the tags -- and what haplotagphase derives from them -- are those of the run without barcodes
            cutoff = 5
            plain = list(sc["reads"])
            r.shuffle(plain)
            k = 0
            while len(plain) >= 2 and k < 10:
                a_ = plain.pop()
                partner = [x for x in plain if x["contig"] == a_["contig"] and abs(x["start"] - a_["start"]) > cutoff + 1]
                if not partner:
                    continue
                plain.remove(partner[0])
                for x in (a_, partner[0]):
                    x["tags"] = list(x.get("tags", [])) + [("BX", "BXP%d" % k)]
                k += 1
        d = tempfile.mkdtemp(prefix="c17_")
        try:
            paths = BAM.materialize(sc, d)
            vcf = BAM.write_indexed_vcf(vcf_text, os.path.join(d, "phased.vcf.gz"))
            tagged = os.path.join(d, "tagged.bam")
            run_haplotag(vcf, paths["bam"], output=tagged, reference=paths["fasta"], linked_read_distance_cutoff=cutoff)
            pysam.index(tagged)
            unph_text = partial_unphase(vcf_text, only_indels=inp["partial"])
            unph = BAM.write_indexed_vcf(unph_text, os.path.join(d, "input.vcf.gz"))
            out = os.path.join(d, "out.vcf")
            try:
                run_haplotagphase(unph, tagged, output=out, reference=paths["fasta"], write_command_line_header=False)
            except Exception as e:
                import traceback
                return dict(expected="run_haplotagphase succeeds", observed="%s: %s" % (type(e).__name__, e), traceback=traceback.format_exc()[-1500:])
            with open(out) as f:
                out_text = f.read()
            _, recs, ph_out = PH.decode_phasing(out_text)
            _, _, ph_in = PH.decode_phasing(unph_text)
            _, _, ph_P = PH.decode_phasing(vcf_text)
            # which variants are covered by a tagged read (alignment with HP) -- from the tagged BAM
            covered = set()
            with pysam.AlignmentFile(tagged) as bf:
                for a in bf:
                    if a.has_tag("HP") and a.has_tag("PS"):
                        for ri, rec in enumerate(recs):
                            if rec["chrom"] == a.reference_name and a.reference_start <= rec["pos"] - 1 and rec["pos"] - 1 + len(rec["ref"]) <= a.reference_end:
                                covered.add(ri)
            for ri, rec in enumerate(recs):
                where = "%s:%d %s>%s" % (rec["chrom"], rec["pos"], rec["ref"], ",".join(rec["alts"]))
                if ri in ph_in[s]:
                    got = ph_out[s].get(ri)
                    if got is None or got[:2] != ph_in[s][ri][:2]:
                        return dict(expected="%s already phased in the input as %r stays unaltered" % (where, ph_in[s][ri][:2]), observed=str(got),
                                    clause="already-phased-unaltered", covered_by_tagged_read=(ri in covered))
                elif ri in ph_out[s] and not inp.get("straddle"):
                    want = expect.get((rec["chrom"], rec["pos"]))
                    if want is None or ph_out[s][ri][:2] != want[:2]:
                        return dict(expected="%s newly phased exactly as in the tagging VCF: %r" % (where, want[:2] if want else None), observed=str(ph_out[s][ri][:2]),
                                    clause="orientation-and-set")
            return None
        finally:
            logging.disable(logging.NOTSET)
            shutil.rmtree(d, ignore_errors=True)


class UnprocessedRecords(BCheck):
    """Records that haplotagphase does not process itself (multi-allelic ones under --no-mav) must still come out as they went in when they were
    already phased: the last clause of the statement does not depend on the options."""
    name = "C17.already-phased-records"
    contract = ("haplotagphase with or without --no-mav on a VCF whose records are partly phased already, some of them multi-allelic (two ALT alleles, genotypes over "
                "{0,1,2}): every record that is phased in the input keeps its GT string and PS; every record it phases gets the allele order and phase set of the tagging VCF")
    rule = ("seeded scenarios: 1 sample, 1 contig of 400-700 bp, 4-7 SNVs >= 25 bp apart of which about a third have two ALT alleles, one phase set, error-free tiled reads of "
            "60-150 bp from both haplotypes; a third of the scenarios with a second record at the position of a biallelic variant (its ALT on the other haplotype); each record independently left phased or unphased in the haplotagphase input; mav on/off alternating; non-trivial = always")
    budget_s = {"quick": 60, "thorough": 600}
    chunk = 4

    def inputs(self, tier, rng):
        for i in range(300 if tier == "quick" else 4000):
            yield dict(seed=rng.getrandbits(48), mav=(i % 2 == 0), dup=(i % 3 == 1))

    def check(self, inp):
        from whatshap.cli.haplotag import run_haplotag
        from whatshap.cli.haplotagphase import run_haplotagphase
        import logging
        import pysam
        logging.disable(logging.CRITICAL)
        r = random.Random(inp["seed"])
        L = r.randint(400, 700)
        ref = BAM.rand_seq(r, L)
        variants = []
        pos = r.randint(30, 50)
        while len(variants) < r.randint(4, 7) and pos < L - 40:
            others = [b for b in "ACGT" if b != ref[pos]]
            r.shuffle(others)
            n_alt = 2 if r.random() < 0.35 else 1
            alts = others[:n_alt]
            if n_alt == 1:
                gt = r.choice([(0, 1), (1, 0)])
            else:
                gt = tuple(r.sample([0, 1, 2], 2))
            variants.append(dict(pos=pos, ref=ref[pos], alts=alts, gt=gt))
            pos += r.randint(25, 60)
        if len(variants) < 2:
            return None
        if inp.get("dup"):
            # a second record at the position of a biallelic variant (allowed by the VCF specification): the site is 1/2-like, written as two records whose
            # ALT alleles sit on different haplotypes; the reader skips the second record, so haplotagphase never processes it
            cand = [k for k, v in enumerate(variants) if len(v["alts"]) == 1]
            if cand:
                k = r.choice(cand)
                v = variants[k]
                other = r.choice([b for b in "ACGT" if b != v["ref"] and b != v["alts"][0]])
                variants.insert(k + 1, dict(pos=v["pos"], ref=v["ref"], alts=[other], gt=(v["gt"][1], v["gt"][0]), dup=True))
        haps = []
        for h in (0, 1):
            t = list(ref)
            for v in variants:
                a = v["gt"][h]
                if a:
                    t[v["pos"]] = v["alts"][a - 1]
            haps.append("".join(t))
        reads = []
        for h in (0, 1):
            start = r.randint(0, 20)
            k = 0
            while start < L - 40:
                n = min(L - start, r.randint(60, 150))
                reads.append(dict(name="h%d.%d" % (h, k), contig="chr1", sample="S0", start=start, cigar=[["M", n]], seq=haps[h][start:start + n], hap=h))
                start += r.randint(15, 45)
                k += 1
        sc = dict(contigs=[dict(name="chr1", seq=ref, variants=[])], samples=["S0"], reads=reads)
        ps = variants[0]["pos"] + 1
        phased_in = [r.random() < 0.5 for _ in variants]
        head = ("##fileformat=VCFv4.2\n##contig=<ID=chr1,length=%d>\n##FORMAT=<ID=GT,Number=1,Type=String,Description=\"Genotype\">\n"
                "##FORMAT=<ID=PS,Number=1,Type=Integer,Description=\"Phase set\">\n#CHROM\tPOS\tID\tREF\tALT\tQUAL\tFILTER\tINFO\tFORMAT\tS0\n" % L)

        def text(keep):
            rows = []
            for v, k_ in zip(variants, keep):
                call = ("%d|%d:%d" % (v["gt"][0], v["gt"][1], ps)) if k_ else ("%d/%d:." % tuple(sorted(v["gt"])))
                rows.append("chr1\t%d\t.\t%s\t%s\t.\tPASS\t.\tGT:PS\t%s" % (v["pos"] + 1, v["ref"], ",".join(v["alts"]), call))
            return head + "\n".join(rows) + "\n"
        d = tempfile.mkdtemp(prefix="c17b_")
        try:
            paths = BAM.materialize(sc, d)
            vcf = BAM.write_indexed_vcf(text([True] * len(variants)), os.path.join(d, "phased.vcf.gz"))
            tagged = os.path.join(d, "tagged.bam")
            run_haplotag(vcf, paths["bam"], output=tagged, reference=paths["fasta"])
            pysam.index(tagged)
            in_text = text(phased_in)
            unph = BAM.write_indexed_vcf(in_text, os.path.join(d, "input.vcf.gz"))
            out = os.path.join(d, "out.vcf")
            try:
                run_haplotagphase(unph, tagged, output=out, reference=paths["fasta"], write_command_line_header=False, mav=inp["mav"])
            except Exception as e:
                import traceback
                return dict(expected="run_haplotagphase succeeds", observed="%s: %s" % (type(e).__name__, e), traceback=traceback.format_exc()[-1500:])
            rows = [l.split("\t") for l in open(out).read().split("\n") if l and not l.startswith("#")]
            if len(rows) != len(variants):
                return dict(expected="%d records" % len(variants), observed="%d records" % len(rows), clause="records")
            for v, k_, row in zip(variants, phased_in, rows):
                f = dict(zip(row[8].split(":"), row[9].split(":")))
                where = "chr1:%d %s>%s" % (v["pos"] + 1, v["ref"], ",".join(v["alts"]))
                want = "%d|%d" % v["gt"]
                if k_:
                    if f.get("GT") != want or f.get("PS") != str(ps):
                        return dict(expected="%s already phased in the input as %s:%d stays unaltered (mav=%s)" % (where, want, ps, inp["mav"]),
                                    observed="%s:%s" % (f.get("GT"), f.get("PS")), clause="already-phased-unaltered", multiallelic=(len(v["alts"]) > 1), duplicate=bool(v.get("dup")))
                elif "|" in f.get("GT", ""):
                    if f.get("GT") != want or f.get("PS") != str(ps):
                        return dict(expected="%s newly phased exactly as in the tagging VCF: %s:%d" % (where, want, ps), observed="%s:%s" % (f.get("GT"), f.get("PS")),
                                    clause="orientation-and-set", multiallelic=(len(v["alts"]) > 1), duplicate=bool(v.get("dup")))
            return None
        finally:
            logging.disable(logging.NOTSET)
            shutil.rmtree(d, ignore_errors=True)


B_CHECKS = [Pipeline(), UnprocessedRecords()]
