"""C18 - priority queue and component finder match their abstract models on all histories."""
import itertools

from harness.runner import BCheck

LEVEL = "proof"
LEVEL_TEXT = ("Deductive, all inputs and all histories: every method of ComponentFinder (graph.py: __init__, _find_node, merge, find) and every operation of the "
              "priority queue (priorityqueue.pyx, read through Cython's parser: _vector_score_lower, index helpers, _score_lower, _swap, _sift_up, _sift_down with "
              "termination measures, c_push, c_pop, c_change_score, c_get_score_by_item, size, c_is_empty, is_empty) is verified against a data-structure "
              "contract - representation invariant + whole abstract view (item -> score map; representative = minimum of the class) - with obligations generated "
              "from the real source and discharged by z3/cvc5 on every run; the history statements (pops are non-increasing, the view is the least equivalence "
              "with minimum representatives, the lexicographic order is a strict weak order) are lemmas over those contracts, and four client lemmas - short client functions verified "
              "modularly against the contracts only - state what a caller observes across operations: after merge(x, y) find(x) == find(y) == the smaller old representative "
              "and a third value moves only with its class; after push / change_score the item looks up to exactly that score and every other item keeps its score or "
              "absence; after pop the popped item is gone and every other item keeps its score. Bounded stand-in (redundant when all "
              "obligations discharge): the compiled queue and the finder against executable abstract models on all admissible histories up to length 5/6.")
LEVEL_NOTE = ("Trusted: z3/cvc5, vcgen's semantics of the Python/Cython subset (cross-checked against CPython for the Python part), integer model of the generic value "
              "type, the meta-level induction principle behind two lemma pairs. The Python-level wrappers push/pop/change_score (_pyscore_to_vector, new/del) are "
              "bounded only. Evidence level drops to 'other' in any run where an expected obligation is not discharged.")
TECHNIQUE = "contract-based deductive verification (sidecar contracts, own VC generator over python ast, z3/cvc5) + bounded model-based runtime contracts"
D_MODULES = ["contracts.graph_py", "contracts.priorityqueue_pyx"]
EXPLANATION = (
    "Deductive: every method of whatshap/graph.py:ComponentFinder (union-find) and of whatshap/priorityqueue.pyx "
    "(binary heap + position map) is verified against a data-structure contract (representation invariant WF + abstract view; "
    "merge/push/pop/change_score postconditions speak about the whole view), obligations generated from the real source on every run "
    "and discharged by z3/cvc5; the history statement (pop order, representative = minimum of the connected component) is a lemma over those "
    "contracts. Bounded stand-in (redundant when all obligations discharge): the compiled queue and the finder are run against executable "
    "abstract models over all admissible operation sequences up to a stated length.")
TRUSTED_BASE = [
    "z3 4.x/5.x and cvc5 as SMT back ends",
    "vcgen's symbolic semantics of the Python/Cython subset (validated by canaries and seeded-change runs, not proved)",
    "ComponentFinder values modelled as integers ordered by <",
    "priorityqueue.pyx: pointer identity/ownership (new/del) dropped, a score vector is an immutable value; unordered_map as finite map; "
    "C int indices treated as mathematical integers with an explicit range obligation",
]
ASSUMPTIONS = [
    "induction principle (meta-level) for the lemma pairs root-is-maximum and first-difference/trichotomy",
    "push/pop/change_score Python wrappers of the queue are covered by the bounded check only",
]


# ---------------------------------------------------------------------------------------------- priority queue
def _vec(score):
    return (score,) if isinstance(score, int) else tuple(score)


class PQHistories(BCheck):
    name = "C18.pq-histories"
    contract = ("after every operation of an admissible history: len/is_empty/get_score_by_item report exactly the model's items with the "
                "scores last assigned; pop returns an item of maximal (lexicographic) score together with that score and removes exactly it")
    rule = ("all admissible sequences of push/pop/change_score up to the stated length over items {0,1,2} and the stated score set "
            "(scalar scores {0,1,2}; tuple scores of length 1-3), enumerated by DFS over the abstract model; after each operation all "
            "items are looked up. non-trivial = the history contains a pop or change_score on a queue with >= 2 entries")
    exhaustive_in = ("quick", "thorough")
    chunk = 2000
    budget_s = {"quick": 100, "thorough": 1500}

    SCALAR = [0, 1, 2]
    TUPLES = [[0], [1], [0, 1], [1, 0], [0, 0, 2], [1, 0, 0]]

    def inputs(self, tier, rng):
        yield from self.enum([0, 1, 2], self.SCALAR, 5 if tier == "quick" else 6)
        yield from self.enum([5, 3, 9], self.TUPLES, 4 if tier == "quick" else 5)
        # longer random histories
        n = 2000 if tier == "quick" else 40000
        for _ in range(n):
            items = list(range(6))
            scores = self.SCALAR + [3, 4] if rng.random() < 0.5 else self.TUPLES
            model = {}
            seq = []
            for _ in range(rng.randint(6, 14)):
                ops = []
                absent = [i for i in items if i not in model]
                if absent:
                    ops.append("push")
                if model:
                    ops += ["pop", "chg"]
                op = rng.choice(ops)
                if op == "push":
                    it = rng.choice(absent)
                    s = rng.choice(scores)
                    model[it] = s
                    seq.append(["push", s, it])
                elif op == "pop":
                    mx = max(_vec(s) for s in model.values())
                    # the model cannot know which of several maximal items is popped: end the history's
                    # model tracking by choosing histories where the maximum is unique, else stop here
                    cands = [i for i, s in model.items() if _vec(s) == mx]
                    seq.append(["pop"])
                    if len(cands) > 1:
                        break
                    del model[cands[0]]
                else:
                    it = rng.choice(sorted(model))
                    s = rng.choice(scores)
                    model[it] = s
                    seq.append(["chg", it, s])
            yield seq

    def enum(self, items, scores, maxlen):
        # DFS over abstract states; a pop with several maximal items branches on nothing (the check
        # accepts any maximal item and then follows the implementation's choice), so the model state
        # after such a pop is not known here: we continue with every possible removal.
        def rec(model, seq):
            if seq:
                yield list(seq)
            if len(seq) >= maxlen:
                return
            for it in items:
                if it not in model:
                    for s in scores:
                        model[it] = s
                        seq.append(["push", s, it])
                        yield from rec(model, seq)
                        seq.pop()
                        del model[it]
                else:
                    for s in scores:
                        old = model[it]
                        model[it] = s
                        seq.append(["chg", it, s])
                        yield from rec(model, seq)
                        seq.pop()
                        model[it] = old
            if model:
                mx = max(_vec(s) for s in model.values())
                cands = [i for i, s in model.items() if _vec(s) == mx]
                if len(cands) == 1:
                    it = cands[0]
                    old = model.pop(it)
                    seq.append(["pop"])
                    yield from rec(model, seq)
                    seq.pop()
                    model[it] = old
                else:
                    # ambiguous pop: only as the last operation of an enumerated history
                    yield list(seq) + [["pop"]]
        # only maximal-length histories and those ending in an ambiguous pop are emitted by rec's prefixes;
        # prefixes are checked as part of longer histories, so emit only leaves to avoid redundant work
        for seq in rec({}, []):
            if len(seq) >= maxlen or seq[-1] == ["pop"]:
                yield seq

    def nontrivial(self, seq):
        n = 0
        for op in seq:
            if op[0] == "push":
                n += 1
            elif op[0] == "pop":
                if n >= 2:
                    return True
                n -= 1
            elif n >= 2:
                return True
        return False

    def check(self, seq):
        from whatshap.priorityqueue import PriorityQueue
        pq = PriorityQueue()
        model = {}
        universe = set()
        for op in seq:
            if op[0] in ("push", "chg"):
                universe.add(op[2] if op[0] == "push" else op[1])
        for step, op in enumerate(seq):
            if op[0] == "push":
                s = op[1]
                pq.push(s if isinstance(s, int) else tuple(s), op[2])
                model[op[2]] = _vec(s)
            elif op[0] == "chg":
                s = op[2]
                pq.change_score(op[1], s if isinstance(s, int) else tuple(s))
                model[op[1]] = _vec(s)
            else:
                if not model:
                    try:
                        pq.pop()
                    except IndexError:
                        continue
                    return dict(expected="IndexError on pop of empty queue", observed="no exception", step=step)
                score, item = pq.pop()
                mx = max(model.values())
                if item not in model or model[item] != mx or _vec(score) != mx:
                    return dict(expected="pop returns an item of maximal score %r from %r" % (mx, model), observed=[score, item], step=step)
                del model[item]
            if len(pq) != len(model) or pq.is_empty() != (not model):
                return dict(expected="len %d" % len(model), observed="len %d, is_empty %r" % (len(pq), pq.is_empty()), step=step)
            for it in universe | {77}:
                got = pq.get_score_by_item(it)
                exp = model.get(it)
                if (got is None) != (exp is None) or (got is not None and _vec(got) != exp):
                    return dict(expected="get_score_by_item(%r) == %r" % (it, exp), observed=got, step=step, model=str(model))
        # drain: non-increasing order, exactly the remaining items
        prev = None
        while model:
            score, item = pq.pop()
            mx = max(model.values())
            if item not in model or model[item] != mx or _vec(score) != mx or (prev is not None and _vec(score) > prev):
                return dict(expected="drain pops a maximal item (max %r of %r)" % (mx, model), observed=[score, item], step="drain")
            prev = _vec(score)
            del model[item]
        if len(pq) != 0 or not pq.is_empty():
            return dict(expected="empty after drain", observed=len(pq))
        return None


# ---------------------------------------------------------------------------------------------- component finder
class FinderHistories(BCheck):
    name = "C18.finder-histories"
    contract = ("after every merge of a history, find(v) is the minimum of v's connected component (independent graph search) for every "
                "value v, hence two values share a representative iff they are connected; find() calls in between do not change this")
    rule = ("all sequences of merges (ordered pairs of distinct values) up to the stated length over 5 integer values and over 4 string values, "
            "each in three find-interleaving patterns (no find until the end / find of every value after every merge / find of one value after "
            "every merge); non-trivial = at least two merges touching a common component")
    exhaustive_in = ("quick", "thorough")
    chunk = 3000
    budget_s = {"quick": 100, "thorough": 1500}

    def inputs(self, tier, rng):
        ints = [30, 10, 50, 20, 40]
        strs = ["b", "d", "a", "c"]
        for values, maxlen in ((ints, 3 if tier == "quick" else 4), (strs, 4 if tier == "quick" else 5)):
            pairs = [(x, y) for x in values for y in values if x != y]
            for n in range(1, maxlen + 1):
                for seq in itertools.product(pairs, repeat=n):
                    if n < maxlen and False:
                        continue
                    for pattern in ("none", "all", "one"):
                        yield dict(values=values, merges=[list(p) for p in seq], finds=pattern)
        for _ in range(1500 if tier == "quick" else 30000):
            k = rng.randint(6, 12)
            values = rng.sample(range(100), k)
            merges = []
            for _ in range(rng.randint(3, 2 * k)):
                x, y = rng.sample(values, 2)
                merges.append([x, y])
            yield dict(values=values, merges=merges, finds=rng.choice(["none", "all", "one"]))

    def nontrivial(self, inp):
        seen = set()
        for x, y in inp["merges"]:
            if x in seen or y in seen:
                return True
            seen.update((x, y))
        return False

    def check(self, inp):
        from whatshap.graph import ComponentFinder
        values = inp["values"]
        cf = ComponentFinder(values)
        adj = {v: set() for v in values}

        def comp_min(v):
            seen, stack = {v}, [v]
            while stack:
                u = stack.pop()
                for w in adj[u]:
                    if w not in seen:
                        seen.add(w)
                        stack.append(w)
            return min(seen)

        def verify(step):
            for v in values:
                got = cf.find(v)
                exp = comp_min(v)
                if got != exp:
                    return dict(expected="find(%r) == %r (minimum of its component)" % (v, exp), observed=got, step=step)
            return None
        for step, (x, y) in enumerate(inp["merges"]):
            cf.merge(x, y)
            adj[x].add(y)
            adj[y].add(x)
            if inp["finds"] == "all":
                r = verify(step)
                if r:
                    return r
            elif inp["finds"] == "one":
                got = cf.find(y)
                if got != comp_min(y):
                    return dict(expected="find(%r) == %r" % (y, comp_min(y)), observed=got, step=step)
        return verify("end")


B_CHECKS = [PQHistories(), FinderHistories()]
