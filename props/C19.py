"""C19 - genotype indexing is a bijection; edit distance is true Levenshtein distance."""
import itertools
import math
import random

from harness.runner import BCheck

LEVEL = "other"
LEVEL_TEXT = ("Deductive (C++ via clang AST, 64-bit bit-vectors): Genotype::get_position / set_position / set_ploidy / get_ploidy / is_none / get_code / operator== / operator!= "
              "against the nibble view (set_position changes nibble pos only), with the lemma that a word is determined by its 16 fields.  "
              "Deductive (Cython via Cython's parser): whatshap/align.pyx:edit_distance, both modes, for strings of any length: unbanded result == LEV(s, t), the Levenshtein "
              "distance defined by the Wagner-Fischer recurrence; banded (maxdiff = e >= 0) result == LEV if LEV <= e and > e otherwise -- through loop invariants for "
              "the prefix/suffix stripping, the one-column DP and the band, every char*/buffer read in bounds, with the lemma groups 'stripping keeps the distance' "
              "(LIP, SUFFIX, PREFIX, DIAG) and 'band' (UPPER, COLUMN/CROSSING) discharged as induction steps (contracts/align_pyx.py).  Bounded stand-in: the Python-visible Genotype on ALL sorted allele vectors up to ploidy 6 x 6 alleles and on seeded ones up to the "
              "limits (ploidy 14, allele 15): index = rank in canonical VCF order (math.comb formula), gap-free ranges, index -> genotype round trip through __setstate__, "
              "==, <, hash, deepcopy; edit_distance against a reference Levenshtein DP on all string pairs over {A,C,G} up to length 5 x every band -1..7, bytes, and random "
              "longer pairs.")
LEVEL_NOTE = ("Proved: the nibble operations and edit_distance == Levenshtein recurrence (ASCII/bytes inputs, C int as mathematical integers under the stated size bound, "
              "induction principle of the lemma groups meta-level). binomial_coefficient is checked exhaustively on the compiled function for every argument the genotype code can pass "
              "(n <= 29; at n = 30, k = 15 the intermediate product overflows int, outside the supported ploidy/allele limits). get_index / convert_index_to_alleles / "
              "are bounded (edit_distance additionally by the exhaustive comparison below).")
TECHNIQUE = "contract-based deductive verification of C++ leaves (clang AST -> bit-vector VCs, z3) and of the Cython edit_distance (Cython parser -> VCs with loop invariants and induction lemmas, z3/cvc5) + exhaustive/bounded runtime contracts on Genotype and edit_distance"
D_MODULES = ["contracts.genotype_cpp", "contracts.align_pyx"]
EXPLANATION = LEVEL_TEXT
TRUSTED_BASE = ["z3", "clang JSON AST", "reference Levenshtein DP and math.comb"]
ASSUMPTIONS = ["get_index/convert_index_to_alleles are not under deductive contract",
               "edit_distance: 'Levenshtein distance' is taken to be the Wagner-Fischer recurrence (the minimum over edit scripts is not formalised)",
               "edit_distance: C int arithmetic treated as mathematical under len(s) + len(t) + maxdiff + 1 < 2**31; s.encode() taken as identity (bytes / ASCII str)",
               "edit_distance_affine_gap and kmer_align (float DP) are not under contract"]


def canonical_index(alleles):
    """rank of the sorted allele multiset in VCF genotype order: sum over k-th smallest allele a_k (k = 1..p) of C(a_k + k - 1, k)"""
    return sum(math.comb(a + k, k + 1) for k, a in enumerate(sorted(alleles)))


class GenotypeIndex(BCheck):
    name = "C19.genotype-index"
    contract = ("Genotype(alleles): as_vector() == alleles sorted descending-or-ascending as a multiset, get_ploidy, get_index() == canonical VCF rank, indices of (ploidy p, a alleles) are "
                "exactly 0..C(p+a-1, p)-1, __setstate__((index, ploidy)) restores the same multiset -- also into an object that held another genotype and had been queried --, == / != agree with multiset equality, < agrees with the index order (same ploidy), "
                "hash and deepcopy agree")
    rule = ("exhaustive: all sorted allele vectors for ploidy 1..6 over alleles 0..5, checked pairwise for == and < within a ploidy; seeded: ploidy up to 14 and alleles up to 15 "
            "(the supported limits), always including vectors that contain allele 15; non-trivial = multi-allelic or ploidy > 2")
    exhaustive_in = ("quick", "thorough")
    parallel = True
    chunk = 1
    budget_s = {"quick": 100, "thorough": 900}

    def inputs(self, tier, rng):
        for p in range(1, 7):
            yield dict(kind="exhaustive", ploidy=p, alleles=6)
        for i in range(40 if tier == "quick" else 400):
            yield dict(kind="sampled", seed=rng.getrandbits(32), n=400)

    def nontrivial(self, inp):
        return True

    def check(self, inp):
        import copy
        from whatshap.core import Genotype
        if inp["kind"] == "exhaustive":
            p, a = inp["ploidy"], inp["alleles"]
            vectors = list(itertools.combinations_with_replacement(range(a), p))
        else:
            r = random.Random(inp["seed"])
            vectors = []
            for _ in range(inp["n"]):
                p = r.randint(1, 14)
                hi = r.choice([1, 2, 5, 15, 15])
                v = sorted(r.randint(0, hi) for _ in range(p))
                if r.random() < 0.3:
                    v[-1] = 15
                vectors.append(tuple(v))
        objs = []
        seen = {}
        for v in vectors:
            g = Genotype(list(v))
            if sorted(g.as_vector()) != list(v) or g.get_ploidy() != len(v):
                return dict(expected="as_vector/ploidy of %r" % (v,), observed=[list(g.as_vector()), g.get_ploidy()])
            idx = g.get_index()
            if idx != canonical_index(v):
                return dict(expected="get_index(%r) == %d (canonical VCF rank)" % (v, canonical_index(v)), observed=idx, clause="index")
            state = g.__getstate__()
            h = Genotype([])
            h.__setstate__(state)
            if sorted(h.as_vector()) != list(v):
                return dict(expected="__setstate__(%r) restores %r" % (state, v), observed=list(h.as_vector()), clause="round-trip")
            if not (h == g) or (h != g) or hash(h) != hash(g):
                return dict(expected="restored genotype equal to the original", observed="%s vs %s" % (h, g), clause="equality")
            # the same restore into an object with a history: it held another genotype whose index, hash and state had already been asked for
            if objs:
                prev_v = objs[-1][0]
                u = Genotype(list(prev_v))
                u.get_index(), hash(u), u.__getstate__()
                u.__setstate__(state)
                if sorted(u.as_vector()) != list(v) or u.get_index() != idx or hash(u) != hash(g) or u.__getstate__() != state or not (u == g):
                    return dict(expected="__setstate__(%r) into an object that held %r gives %r in every respect (vector, index %d, hash, state, ==)" % (state, prev_v, v, idx),
                                observed="vector %r index %r state %r equal %r" % (list(u.as_vector()), u.get_index(), u.__getstate__(), u == g), clause="restore-history")
            c = copy.deepcopy(g)
            if not (c == g) or sorted(c.as_vector()) != list(v):
                return dict(expected="deepcopy equal", observed=str(c), clause="deepcopy")
            objs.append((v, idx, g))
            seen.setdefault(len(v), set()).add(idx)
        if inp["kind"] == "exhaustive":
            p, a = inp["ploidy"], inp["alleles"]
            if seen[p] != set(range(math.comb(p + a - 1, p))):
                return dict(expected="indices of ploidy %d with %d alleles are exactly 0..%d" % (p, a, math.comb(p + a - 1, p) - 1), observed=sorted(seen[p])[:20], clause="gap-free")
        sample = objs if len(objs) <= 260 else random.Random(1).sample(objs, 260)
        for (v1, i1, g1) in sample:
            for (v2, i2, g2) in sample:
                if (g1 == g2) != (v1 == v2) or (g1 != g2) != (v1 != v2):
                    return dict(expected="%r == %r is %r" % (v1, v2, v1 == v2), observed=(g1 == g2), clause="equality")
                if len(v1) == len(v2) and (g1 < g2) != (i1 < i2):
                    return dict(expected="%r < %r iff index %d < %d" % (v1, v2, i1, i2), observed=(g1 < g2), clause="ordering")
        return None


def levenshtein(s, t):
    prev = list(range(len(t) + 1))
    for i in range(1, len(s) + 1):
        cur = [i] + [0] * len(t)
        for j in range(1, len(t) + 1):
            cur[j] = min(prev[j] + 1, cur[j - 1] + 1, prev[j - 1] + (s[i - 1] != t[j - 1]))
        prev = cur
    return prev[-1]


class EditDistance(BCheck):
    name = "C19.edit-distance"
    contract = ("edit_distance(s, t, -1) == Levenshtein distance; edit_distance(s, t, k) == the exact distance if it is <= k and some value > k otherwise; identical for str and bytes")
    rule = ("exhaustive: all pairs of strings over {A,C,G} of length 0..5 (quick) / 0..6 (thorough) x bands -1..7 (asked in ascending, descending and unbanded-last order in turn: results must not depend on earlier calls); seeded: 3000 random pairs up to length 120 over ACGT with few "
            "edits, bands {-1,0,1,2,5,10,30}; 64 (thorough 640) pairs with strings of 260-600 characters, unrelated or a few edits apart with differing ends (bands -1, 3, 12, 300); "
            "non-trivial = distance > 0")
    exhaustive_in = ("quick", "thorough")
    chunk = 1
    budget_s = {"quick": 120, "thorough": 1200}

    def inputs(self, tier, rng):
        L = 5 if tier == "quick" else 6
        strings = ["".join(p) for n in range(L + 1) for p in itertools.product("ACG", repeat=n)]
        for i in range(0, len(strings), 8):
            yield dict(kind="exhaustive", block=strings[i:i + 8], maxlen=L)
        for i in range(30 if tier == "quick" else 300):
            yield dict(kind="random", seed=rng.getrandbits(32))
        for i in range(16 if tier == "quick" else 160):
            yield dict(kind="long", seed=rng.getrandbits(32))

    def nontrivial(self, inp):
        return True

    def check(self, inp):
        from whatshap.align import edit_distance
        if inp["kind"] == "exhaustive":
            L = inp["maxlen"]
            strings = ["".join(p) for n in range(L + 1) for p in itertools.product("ACG", repeat=n)]
            pairs = ((s, t) for s in inp["block"] for t in strings)
            bands = list(range(-1, 8))
        elif inp["kind"] == "long":
            # strings that stay longer than 255 characters after the common prefix and suffix are trimmed, distances below and above 255 (cells of the
            # DP column hold values up to the string length)
            r = random.Random(inp["seed"])
            pl = []
            for _ in range(4):
                s = "".join(r.choice("ACGT") for _ in range(r.randint(260, 600)))
                if r.random() < 0.5:
                    t = "".join(r.choice("ACGT") for _ in range(r.randint(0, 400)))
                else:
                    t = list(s)
                    t[0] = "A" if t[0] != "A" else "C"
                    t[-1] = "A" if t[-1] != "A" else "C"
                    for _ in range(r.randint(0, 8)):
                        pos = r.randint(0, len(t) - 1)
                        if r.random() < 0.5:
                            t.insert(pos, r.choice("ACGT"))
                        else:
                            del t[pos]
                    t = "".join(t)
                pl.append((s, t) if r.random() < 0.5 else (t, s))
            pairs = iter(pl)
            bands = [-1, 3, 12, 300]
        else:
            r = random.Random(inp["seed"])
            pl = []
            for _ in range(100):
                s = "".join(r.choice("ACGT") for _ in range(r.randint(0, 120)))
                t = list(s)
                for _ in range(r.randint(0, 12)):
                    op = r.random()
                    pos = r.randint(0, len(t))
                    if op < 0.33 and t:
                        t[min(pos, len(t) - 1)] = r.choice("ACGT")
                    elif op < 0.66:
                        t.insert(pos, r.choice("ACGT"))
                    elif t:
                        del t[min(pos, len(t) - 1)]
                pl.append((s, "".join(t)))
            pairs = iter(pl)
            bands = [-1, 0, 1, 2, 5, 10, 30]
        for n_pair, (s, t) in enumerate(pairs):
            d = levenshtein(s, t)
            # the result must not depend on earlier calls: bands are asked in ascending, descending and "unbanded last" order in turn
            order = [bands, bands[::-1], bands[1:] + bands[:1]][n_pair % 3]
            for k in order:
                got = edit_distance(s, t, k)
                if k == -1 or d <= k:
                    if got != d:
                        return dict(expected="edit_distance(%r, %r, %d) == %d" % (s, t, k, d), observed=got, clause="exact")
                elif got <= k:
                    return dict(expected="edit_distance(%r, %r, %d) > %d (true distance %d)" % (s, t, k, k, d), observed=got, clause="band")
            if edit_distance(s.encode(), t.encode()) != d:
                return dict(expected="bytes input gives %d" % d, observed=edit_distance(s.encode(), t.encode()), clause="bytes")
        return None


class Binomial(BCheck):
    name = "C19.binomial"
    contract = "binomial_coefficient(n, k) == C(n, k) for 0 <= k <= n <= 29 (every call the genotype code can make: n <= 14 + 16 - 1), and 0 for k < 0, n < 0 or n < k"
    rule = "exhaustive over n in -3..29, k in -3..32 on the compiled function (whatshap.core.binomial_coefficient); non-trivial = 0 < k < n"
    exhaustive_in = ("quick", "thorough")
    parallel = False
    chunk = 2000

    def inputs(self, tier, rng):
        for n in range(-3, 30):
            for k in range(-3, 33):
                yield dict(n=n, k=k)

    def nontrivial(self, inp):
        return 0 < inp["k"] < inp["n"]

    def check(self, inp):
        from whatshap.core import binomial_coefficient
        n, k = inp["n"], inp["k"]
        want = math.comb(n, k) if 0 <= k <= n else 0
        got = binomial_coefficient(n, k)
        if got != want:
            return dict(expected="C(%d,%d) = %d" % (n, k, want), observed=got)
        return None


B_CHECKS = [GenotypeIndex(), EditDistance(), Binomial()]
