"""C20 - auxiliary reports cover the whole run and agree with the phased VCF."""
import random

from harness.runner import BCheck
from scenario import pedigree as PED, phasing as PH, vcf as V
from props.C03 import components_by_search

LEVEL = "exploration"
LEVEL_TEXT = ("Deductive part (vcgen/z3, all inputs, over a line-sequence file model): write_changed_genotypes preserves earlier entries, writes the header once and exactly one row per change in order; ReadList.write appends exactly one line per read handed in, in order, attributed to the phase set (component + 1) of the read's first variant, with 1-based first/last positions; write_recombination_list appends to the file (earlier chromosomes' and families' entries stay, header only into an empty file) "
              "exactly one row per event that find_recombination reports, trio by trio in order, with 1-based positions, and returns the number of rows (find_recombination enters there as a deterministic function of its arguments) (contracts/phase_py.py); "
              "find_recombination itself (pedigree.py): every event it returns names two positions p1 < p2 of ONE block of the components with no other variant of that block "
              "between them, at which the transmission value changes, with the transmitted haplotypes being the bits of the two transmission values and the cost that of p2 "
              "- the statement's 'each listed recombination lies between two variants of one phase set' (contracts/pedigree_py.py: dict comprehension, defaultdict(list), in-place "
              "sort and the final sort of the event objects are modelled; ghost counting functions over the dict's visiting order). "
              "Bounded stand-in: whole "
              "`whatshap phase` runs on 2-3 chromosomes x 1-2 families (+ unrelated samples) with every combination of --output-read-list, --changed-genotype-list, "
              "--recombination-list, with and without --distrust-genotypes; the three lists are compared with expectations recomputed from the output VCF and from "
              "wrappers on the solver (reads handed over, partitioning, transmission vectors): entries for every processed chromosome and family, each listed read "
              "was given to the solver and carries the phase set of its first variant, each genotype change is exactly an input/output difference (none when "
              "genotypes are trusted), each recombination lies between two variants of one phase set of a family member.")
LEVEL_NOTE = "Seeded sampling. Trusted: independent VCF parser; wrappers substituted through module globals."
TECHNIQUE = "bounded runtime contract on run_whatshap's list outputs against the output VCF and solver wrappers"
D_MODULES = [("contracts.phase_py", ["write_changed_genotypes", "ReadList.write", "write_recombination_list"]), ("contracts.pedigree_py", ["find_recombination"])]
EXPLANATION = LEVEL_TEXT
TRUSTED_BASE = ["scenario generators", "runtime/phase_driver.py wrappers"]
ASSUMPTIONS = ["reads are phased-VCF pseudo reads (no BAM)"]


def parse_tsv(text):
    rows = []
    if not text:
        return [], rows
    lines = [l for l in text.split("\n") if l]
    header = [l for l in lines if l.startswith("#")]
    for l in lines:
        if not l.startswith("#"):
            rows.append(l.split("\t") if "\t" in l else l.split())
    return header, rows


class Lists(BCheck):
    name = "C20.phase-lists"
    contract = ("read list / changed-genotype list / recombination list of one `whatshap phase` run: exactly one header line, rows for every processed chromosome "
                "and family; listed reads = reads handed to the solver, phase set = that of the read's first variant, haplotype in {0,1}; listed genotype changes = "
                "exactly the GT allele-multiset differences between input and output VCF (none unless --distrust-genotypes); listed recombinations lie between two "
                "variants of one phase set and only on chromosomes/children of the run")
    rule = ("seeded scenarios: 2-3 contigs; either 1-3 unrelated samples or 1-2 families (trio/quartet) + optional unrelated sample; 1-3 phased VCFs as reads (10% allele "
            "errors so that distrusted genotypes do change); all 8 subsets of the list options x distrust on/off x high recombination rate; "
            "non-trivial = the run has >= 2 (chromosome, family) solver calls")
    budget_s = {"quick": 120, "thorough": 1500}
    chunk = 8

    def inputs(self, tier, rng):
        for i in range(800 if tier == "quick" else 12000):
            r = random.Random(rng.getrandbits(64))
            lists = [x for x, bit in (("read_list", 1), ("gtchange_list", 2), ("recomb_list", 4)) if (i % 8) & bit] or ["read_list", "gtchange_list", "recomb_list"]
            distrust = (i // 8) % 2 == 1
            if i % 3 == 0:
                g = PH.generate(r, k_files=(2, 4), error_rate=0.05, hom_as_het=0.5 if distrust else 0.0, main_kwargs=dict(n_contigs=(2, 3), n_samples=(1, 3), n_records=(4, 8), duplicates=0, extra_format=False,
                                                                                     kinds=("snv", "snv", "ins", "del"),
                                                                                     gt_kinds=("het", "het", "het", "het_rev", "homref", "homalt")))
                yield dict(main_vcf=g["main_vcf"], phase_vcfs=g["phase_vcfs"], ped=None, lists=[l for l in lists if l != "recomb_list"] or ["read_list"],
                           distrust=distrust, recombrate=1.26, trios=[], tag="HP" if i % 2 else "PS", genetic=True, stale=(i % 4 == 0))
            else:
                fams = r.choice([("trio",), ("quartet",), ("trio", "trio"), ("trio", "quartet")])
                g = PED.generate(r, families=fams, unrelated=r.choice([0, 1]), n_contigs=(2, 3), k_files=(1, 3), crossover=0.3, error_rate=0.1,
                                 n_variants=(5, 10), reads_per_file=(1, 3), cover=0.7)
                yield dict(main_vcf=g["main_vcf"], phase_vcfs=g["phase_vcfs"], ped=g["ped"], lists=lists, distrust=distrust,
                           recombrate=r.choice([1.26, 1e5, 1e6]), trios=g["trios"], tag="HP" if i % 4 == 1 else "PS", genetic=(i % 5 != 2), stale=(i % 4 == 1))

    def nontrivial(self, inp):
        return inp["main_vcf"].count("##contig") >= 2

    def check(self, inp):
        from runtime.phase_driver import run_phase
        res = run_phase(inp["main_vcf"], inp["phase_vcfs"], ped=inp["ped"], lists=inp["lists"], distrust_genotypes=inp["distrust"], recombrate=inp["recombrate"],
                        tag=inp.get("tag", "PS"), genetic_haplotyping=inp.get("genetic", True), include_homozygous=bool(inp["distrust"]),
                        stale_lists=bool(inp.get("stale")))
        if res["error"]:
            return dict(expected="run succeeds", observed=res["error"], traceback=res.get("traceback"))
        for key in ("read_list", "gtchange_list", "recomb_list"):
            if key in inp["lists"] and res.get(key) and "STALE" in res[key]:
                return dict(expected="the %s of this run only (the path held an earlier run's list)" % key, observed=[l for l in res[key].split("\n") if "STALE" in l][:2],
                            clause="stale-entries")
        samples, recs_out, phase = PH.decode_phasing(res["out"])
        _, _, recs_in = V.parse(inp["main_vcf"])
        calls = res["solver_calls"]
        # ---------------- read list
        if "read_list" in inp["lists"]:
            header, rows = parse_tsv(res["read_list"])
            if len(header) != 1:
                return dict(expected="one header line in the read list", observed=header, clause="read-list-header")
            want = []
            for call in calls:
                reads = [[v[0] for v in rd["variants"]] for rd in call["reads"]]
                positions = list(call["positions"]) if call["positions"] is not None else sorted({p for rd in reads for p in rd})
                for rd in call["reads"]:
                    want.append((rd["name"], call["chromosome"], rd["variants"][0][0] + 1, rd["variants"][-1][0] + 1, len(rd["variants"])))
            got = [(r[0], None, int(r[6]), int(r[7]), int(r[5])) for r in rows]
            if sorted((w[0], w[2], w[3], w[4]) for w in want) != sorted((g[0], g[2], g[3], g[4]) for g in got):
                missing = sorted(set((w[0], w[1], w[2]) for w in want) - set((g[0], w[1], g[2]) for g in got for w in want if w[0] == g[0] and w[2] == g[2]))[:4]
                return dict(expected="read list rows == reads handed to the solver over all %d (chromosome, family) calls (%d reads)" % (len(calls), len(want)),
                            observed="%d rows; e.g. missing %r" % (len(got), missing), clause="read-list-complete", n_calls=len(calls))
            # phase set of the first variant
            k = 0
            for call in calls:
                reads = [[v[0] for v in rd["variants"]] for rd in call["reads"]]
                n = len(reads)
                my_rows = rows[k:k + n]
                k += n
                if inp["ped"] is None and not inp["distrust"]:
                    comp = components_by_search(sorted({p for rd in reads for p in rd}), reads)
                    for rd, row in zip(call["reads"], my_rows):
                        if row[0] != rd["name"]:
                            break
                        if int(row[3]) != comp[rd["variants"][0][0]] + 1:
                            return dict(expected="read %s listed with the phase set of its first variant (%d)" % (rd["name"], comp[rd["variants"][0][0]] + 1),
                                        observed=row[3], clause="read-list-phaseset")
                        if row[4] not in ("0", "1"):
                            return dict(expected="haplotype 0/1", observed=row[4], clause="read-list-haplotype")
        # ---------------- changed genotypes
        if "gtchange_list" in inp["lists"]:
            header, rows = parse_tsv(res["gtchange_list"])
            diffs = set()
            for a, b in zip(recs_in, recs_out):
                for s, ca, cb in zip(samples, a["calls"], b["calls"]):
                    if "GT" in ca:
                        m0, m1 = V.gt_alleles(ca["GT"])[0], V.gt_alleles(cb["GT"])[0]
                        key = lambda x: (x is None, x or 0)
                        if sorted(m0, key=key) != sorted(m1, key=key):
                            diffs.add((s, a["chrom"], a["pos"]))
            listed = set()
            for r in rows:
                listed.add((r[0], r[1], int(r[2]) + 1))     # the list prints 0-based positions
            if res["gtchange_list"] is None and not diffs:
                pass
            else:
                if len(header) > 1:
                    return dict(expected="one header line in the changed-genotype list", observed=header, clause="gtchange-header")
                if listed != diffs:
                    return dict(expected="changed-genotype list == GT differences between input and output VCF %r" % sorted(diffs)[:6],
                                observed="%r" % sorted(listed)[:6], clause="gtchange-complete", distrust=inp["distrust"])
            if not inp["distrust"] and (diffs or listed):
                return dict(expected="no genotype change without --distrust-genotypes", observed=str(sorted(diffs | listed)[:4]), clause="gtchange-trusted")
        # ---------------- recombinations
        if "recomb_list" in inp["lists"] and inp["ped"] is not None:
            header, rows = parse_tsv(res["recomb_list"])
            if res["recomb_list"] is not None and len(header) != 1:
                return dict(expected="one header line in the recombination list", observed=header, clause="recomb-header")
            children = {t[2] for t in inp["trios"]}
            # expected events per (child, chromosome) from the solver's transmission vectors: at least the chromosomes/families with events must show up
            have = {(r[0], r[1]) for r in rows}
            expected_pairs = set()
            for call in calls:
                tv = call.get("transmission")
                fam = call["family"]
                if not tv or len(fam) < 3:
                    continue
                fam_trios = [t for t in inp["trios"] if t[2] in fam]
                # trio order inside the solver follows the PED order within the family
                positions = list(call["positions"])
                comp = None
                for k, t in enumerate(fam_trios):
                    vals = [(x >> (2 * k)) & 3 for x in tv]
                    # a recombination is reportable if two consecutive members of one output phase set differ in transmission value
                    blocks = {}
                    for ri, rec in enumerate(recs_out):
                        if rec["chrom"] != call["chromosome"]:
                            continue
                        for s in fam:
                            if ri in phase[s]:
                                blocks.setdefault(phase[s][ri][0], set()).add(rec["pos"] - 1)
                    for blk, members in blocks.items():
                        ms = sorted(p for p in members if p in positions)
                        for j in range(2, len(ms)):
                            if vals[positions.index(ms[j - 1])] != vals[positions.index(ms[j])]:
                                expected_pairs.add((t[2], call["chromosome"]))
            for (child, chrom) in expected_pairs:
                if (child, chrom) not in have:
                    return dict(expected="recombination list has rows for child %s on %s (events exist there)" % (child, chrom),
                                observed="rows only for %r" % sorted(have), clause="recomb-complete")
            for r in rows:
                child, chrom, p1, p2 = r[0], r[1], int(r[2]), int(r[3])
                if child not in children:
                    return dict(expected="recombination rows name a child of the PED file", observed=child, clause="recomb-child")
                # both positions phased in one set for some family member
                ok = False
                fam = [c for c in calls if child in c["family"] and c["chromosome"] == chrom]
                members = fam[0]["family"] if fam else samples
                for s in members:
                    blk = {}
                    for ri, rec in enumerate(recs_out):
                        if rec["chrom"] == chrom and ri in phase[s]:
                            blk[rec["pos"]] = phase[s][ri][0]
                    if p1 in blk and p2 in blk and blk[p1] == blk[p2]:
                        ok = True
                if not ok and fam:
                    # the list works on components (also of variants that ended up unphased by ties).  With genetic haplotyping every accessible
                    # position of a family is in one component; without it the components are the read-connected ones of the solver's reads
                    positions = list(fam[0]["positions"] or [])
                    same = p1 - 1 in positions and p2 - 1 in positions
                    if same and not inp.get("genetic", True) and not inp["distrust"]:
                        reads = [[v[0] for v in rd["variants"]] for rd in fam[0]["reads"]]
                        comp = components_by_search(positions, reads)
                        same = comp[p1 - 1] == comp[p2 - 1]
                    if not same:
                        return dict(expected="recombination %s %s:%d-%d lies between two variants of one phase set" % (child, chrom, p1, p2), observed="not in one set",
                                    clause="recomb-within-set")
        return None


B_CHECKS = [Lists()]
