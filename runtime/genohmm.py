"""Plain-summation oracle of the genotyping HMM (statement of C08, fixed in DESIGN.md section 3/C08), independent of the
implementation's scaling, projection and sqrt(n) checkpointing.

Hidden state per column c: a GLOBAL read bipartition B, a transmission value t_c < 4^T, an allele assignment a_c to the 2(n-T) founder
haplotypes.  Emission: product over entries of (1-p) if the entry's allele equals the allele its haplotype carries, else p, with
p = 10^(-q/10) (p = 0.9999 for q = 0).  Transmission transition into column c >= 1: proportional to r^k (1-r)^(2T-k), k = popcount(t' xor t),
r = 10^(-recomb_c/10), rows normalised; none into column 0.  Assignment prior at (c, t): product over individuals of the prior of the induced
genotype, divided by the number of assignments inducing the same genotype vector, normalised over a.
"""
import itertools
from fractions import Fraction

from runtime.pedmec import hap_partitions


def perr(q, exact):
    if q == 0:
        return Fraction(9999, 10000) if exact else 0.9999
    if exact:
        return None
    return 10.0 ** (-q / 10.0)


def posterior(inst):
    """inst: n_ind, triples, positions, recomb, priors[ind][col] = [p0,p1,p2], reads [{ind, entries [[col, allele, q]]}].
    -> post[ind][col] = [P(g=0), P(g=1), P(g=2)]"""
    n, triples, m = inst["n_ind"], inst["triples"], len(inst["positions"])
    nt = 4 ** len(triples)
    R = len(inst["reads"])
    parts = [hap_partitions(n, triples, t) for t in range(nt)]
    npart = parts[0][1]
    assigns = list(itertools.product((0, 1), repeat=npart))
    # assignment priors per column and t
    pa = [[None] * nt for _ in range(m)]
    gts = [[None] * nt for _ in range(m)]
    for c in range(m):
        for t in range(nt):
            pr, gv = [], []
            for a in assigns:
                p = 1.0
                g = []
                for i in range(n):
                    gi = a[parts[t][0][i][0]] + a[parts[t][0][i][1]]
                    g.append(gi)
                    p *= inst["priors"][i][c][gi]
                pr.append(p)
                gv.append(tuple(g))
            cnt = {}
            for g in gv:
                cnt[g] = cnt.get(g, 0) + 1
            pr = [p / cnt[g] for p, g in zip(pr, gv)]
            s = sum(pr)
            pa[c][t] = [p / s for p in pr] if s > 0 else pr
            gts[c][t] = gv
    # transmission transitions
    tr = [None] * m
    for c in range(1, m):
        r = 10.0 ** (-inst["recomb"][c] / 10.0)
        T2 = 2 * len(triples)
        mat = [[(r ** bin(i ^ j).count("1")) * ((1 - r) ** (T2 - bin(i ^ j).count("1"))) for j in range(nt)] for i in range(nt)]
        tr[c] = [[x / sum(row) for x in row] for row in mat]
    post = [[[0.0, 0.0, 0.0] for _ in range(m)] for _ in range(n)]
    total = 0.0
    by_col = [[] for _ in range(m)]
    for r_i, read in enumerate(inst["reads"]):
        for col, allele, q in read["entries"]:
            by_col[col].append((r_i, read["ind"], allele, q))
    for side in itertools.product((0, 1), repeat=R):
        # e[c][t][a] = emission * assignment prior
        e = [[None] * nt for _ in range(m)]
        for c in range(m):
            for t in range(nt):
                row = []
                for ai, a in enumerate(assigns):
                    x = pa[c][t][ai]
                    if x != 0.0:
                        for (r_i, ind, allele, q) in by_col[c]:
                            p = 0.9999 if q == 0 else 10.0 ** (-q / 10.0)
                            hap_allele = a[parts[t][0][ind][side[r_i]]]
                            x *= (1 - p) if hap_allele == allele else p
                    row.append(x)
                e[c][t] = row
        col_sum = [[sum(e[c][t]) for t in range(nt)] for c in range(m)]
        # forward / backward over t
        fwd = [None] * m      # fwd[c][t] = sum over paths up to c-1 times transition into t (before emission of c)
        fwd[0] = [1.0] * nt
        for c in range(1, m):
            prev = [fwd[c - 1][u] * col_sum[c - 1][u] for u in range(nt)]
            fwd[c] = [sum(prev[u] * tr[c][u][t] for u in range(nt)) for t in range(nt)]
        bwd = [None] * m
        bwd[m - 1] = [1.0] * nt
        for c in range(m - 2, -1, -1):
            nxt = [bwd[c + 1][u] * col_sum[c + 1][u] for u in range(nt)]
            bwd[c] = [sum(tr[c + 1][t][u] * nxt[u] for u in range(nt)) for t in range(nt)]
        total += sum(fwd[m - 1][t] * col_sum[m - 1][t] for t in range(nt))
        for c in range(m):
            for t in range(nt):
                w = fwd[c][t] * bwd[c][t]
                if w == 0.0:
                    continue
                for ai in range(len(assigns)):
                    x = e[c][t][ai] * w
                    if x:
                        gv = gts[c][t][ai]
                        for i in range(n):
                            post[i][c][gv[i]] += x
    for i in range(n):
        for c in range(m):
            post[i][c] = [x / total for x in post[i][c]]
    return post


def run_table(inst):
    from whatshap.core import Read, ReadSet, Pedigree, NumericSampleIds, PhredGenotypeLikelihoods, Genotype, GenotypeDPTable
    ids = NumericSampleIds()
    names = ["ind%d" % i for i in range(inst["n_ind"])]
    ped = Pedigree(ids)
    m = len(inst["positions"])
    for i, nme in enumerate(names):
        gts = [Genotype([0, 1]) for _ in range(m)]
        gls = [PhredGenotypeLikelihoods([float(x) for x in inst["priors"][i][c]]) for c in range(m)]
        ped.add_individual(nme, gts, gls)
    for f, mo, c in inst["triples"]:
        ped.add_relationship(names[f], names[mo], names[c])
    rs = ReadSet()
    for r, read in enumerate(inst["reads"]):
        rd = Read("read%d" % r, 50, 0, ids[names[read["ind"]]])
        for col, allele, q in read["entries"]:
            rd.add_variant(inst["positions"][col], allele, q)
        rs.add(rd)
    rs.sort()
    table = GenotypeDPTable(ids, rs, list(inst["recomb"]), ped, list(inst["positions"]))
    out = []
    g = [Genotype([0, 0]), Genotype([0, 1]), Genotype([1, 1])]
    for i, nme in enumerate(names):
        row = []
        for c in range(m):
            l = table.get_genotype_likelihoods(nme, c)
            row.append([l[g[0]], l[g[1]], l[g[2]]])
        out.append(row)
    return out
