"""Brute-force (Ped)MEC oracle written from the property statement (DESIGN Appendix B) + builder of real solver inputs.

Instance (JSON-able):
  n_ind, triples [[father, mother, child] indices], positions [int per column],
  genotypes[ind][col] in {0,1,2} (number of ALT alleles), gls[ind][col] = [p0,p1,p2] phred costs or None,
  distrust bool, recomb[col], reads [{"ind": i, "entries": [[col, allele, weight], ...]}] (sorted by first column),
  give_positions bool
"""
import itertools

INF = float("inf")


def founders(n_ind, triples):
    child_of = {c: k for k, (f, m, c) in enumerate(triples)}
    return [i for i in range(n_ind) if i not in child_of], child_of


def hap_partitions(n_ind, triples, t):
    """haplotype -> founder partition index for transmission value t (as in the statement: child hap 0 = father's
    haplotype 1-bit_{2k}(t), child hap 1 = mother's haplotype 1-bit_{2k+1}(t))."""
    fnd, child_of = founders(n_ind, triples)
    part = {}
    p = 0
    for i in fnd:
        part[i] = (p, p + 1)
        p += 2

    def rec(i):
        if i in part:
            return part[i]
        k = child_of[i]
        f, m, _ = triples[k]
        pf, pm = rec(f), rec(m)
        part[i] = (pf[1 - ((t >> (2 * k)) & 1)], pm[1 - ((t >> (2 * k + 1)) & 1)])
        return part[i]
    for i in range(n_ind):
        rec(i)
    return [part[i] for i in range(n_ind)], p


def column_options(inst, c, t, side):
    """All admissible allele assignments of column c under transmission t for read sides `side` (read index -> 0/1):
    list of (cost, assignment tuple over founder partitions)."""
    parts, npart = hap_partitions(inst["n_ind"], inst["triples"], t)
    # flip costs per partition and allele
    cp = [[0, 0] for _ in range(npart)]
    for r, read in enumerate(inst["reads"]):
        for col, allele, w in read["entries"]:
            if col == c:
                p = parts[read["ind"]][side[r]]
                cp[p][1 - allele] += w      # cost if the haplotype carries the other allele
    out = []
    for a in itertools.product((0, 1), repeat=npart):
        cost = 0
        ok = True
        for i in range(inst["n_ind"]):
            g = a[parts[i][0]] + a[parts[i][1]]
            if inst["distrust"]:
                cost += inst["gls"][i][c][g]
            elif g != inst["genotypes"][i][c]:
                ok = False
                break
        if not ok:
            continue
        cost += sum(cp[p][a[p]] for p in range(npart))
        out.append((cost, a))
    return out, parts


def best_over_transmissions(inst, side):
    """min over transmission vectors of total cost for fixed read sides (Viterbi over t)."""
    m = len(inst["positions"])
    nt = 4 ** len(inst["triples"])
    if m == 0:
        return 0
    colcost = [[min([x[0] for x in column_options(inst, c, t, side)[0]] or [INF]) for t in range(nt)] for c in range(m)]
    prev = colcost[0][:]
    for c in range(1, m):
        cur = []
        for t in range(nt):
            best = min(prev[u] + bin(t ^ u).count("1") * inst["recomb"][c] for u in range(nt))
            cur.append(best + colcost[c][t])
        prev = cur
    return min(prev)


def cost_of(inst, side, tv):
    m = len(inst["positions"])
    total = 0
    for c in range(m):
        opts, _ = column_options(inst, c, tv[c], side)
        if not opts:
            return INF
        total += min(x[0] for x in opts)
        if c > 0:
            total += bin(tv[c] ^ tv[c - 1]).count("1") * inst["recomb"][c]
    return total


def opt(inst):
    R = len(inst["reads"])
    best = INF
    for bits in itertools.product((0, 1), repeat=max(R - 1, 0)):
        side = (0,) + bits if R else ()     # symmetric under swapping all reads of... not in pedigrees: enumerate fully below
        v = best_over_transmissions(inst, side)
        best = min(best, v)
    if R and (inst["triples"] or inst["distrust"]):
        # swapping the sides of all reads is a symmetry only per individual; enumerate the other half too
        for bits in itertools.product((0, 1), repeat=R - 1):
            v = best_over_transmissions(inst, (1,) + bits)
            best = min(best, v)
    return best


def build(inst):
    """Real solver inputs: (ReadSet, recombcost, Pedigree, distrust, positions)."""
    from whatshap.core import Read, ReadSet, Pedigree, NumericSampleIds, PhredGenotypeLikelihoods, Genotype
    ids = NumericSampleIds()
    names = ["ind%d" % i for i in range(inst["n_ind"])]
    ped = Pedigree(ids)
    for i, nme in enumerate(names):
        gts = [Genotype([0] * (2 - g) + [1] * g) if g is not None else Genotype([]) for g in inst["genotypes"][i]]
        gls = None
        if inst["distrust"]:
            gls = [PhredGenotypeLikelihoods([float(x) for x in inst["gls"][i][c]]) for c in range(len(inst["positions"]))]
        ped.add_individual(nme, gts, gls)
    for f, m, c in inst["triples"]:
        ped.add_relationship(names[f], names[m], names[c])
    rs = ReadSet()
    for r, read in enumerate(inst["reads"]):
        rd = Read("read%d" % r, 50, 0, ids[names[read["ind"]]])
        for col, allele, w in read["entries"]:
            rd.add_variant(inst["positions"][col], allele, w)
        rs.add(rd)
    rs.sort()
    return rs, list(inst["recomb"]), ped, bool(inst["distrust"]), (list(inst["positions"]) if inst["give_positions"] else None), ids, names


def check_instance(inst):
    """Runtime contract C01 (a)-(d) (+ the C05 identity-by-descent clause when asked). Returns failure dict or None."""
    from whatshap.core import PedigreeDPTable
    rs, recomb, ped, distrust, positions, ids, names = build(inst)
    # read order after sorting: map back by name
    order = [int(rd.name[4:]) for rd in rs]
    table = PedigreeDPTable(rs, recomb, ped, distrust, positions)
    superreads, tv = table.get_super_reads()
    cost = table.get_optimal_cost()
    part = table.get_optimal_partitioning()
    m = len(inst["positions"])
    want = opt(inst)
    if cost != want:
        return dict(expected="reported cost == true (Ped)MEC optimum %r" % want, observed=cost, clause="a")
    if len(tv) != m or len(part) != len(inst["reads"]):
        return dict(expected="transmission vector of length %d, partitioning of length %d" % (m, len(inst["reads"])), observed="%d, %d" % (len(tv), len(part)), clause="d")
    side = [None] * len(inst["reads"])
    for k, r in enumerate(order):
        side[r] = part[k]
    if m:
        wc = cost_of(inst, side, tv)
        if wc != cost:
            return dict(expected="returned partition + transmission vector achieve the reported cost %r" % cost, observed=wc, clause="b",
                        partition=side, transmission=list(tv))
    for i in range(inst["n_ind"]):
        sr = superreads[i]
        if len(sr) != 2 or any(len(x) != m for x in sr):
            return dict(expected="two super-reads with one entry per column for individual %d" % i, observed=str([len(x) for x in sr]), clause="d")
        for h in (0, 1):
            for c in range(m):
                v = sr[h][c]
                if v.position != inst["positions"][c]:
                    return dict(expected="super-read positions == column positions", observed=v.position, clause="d")
    for c in range(m):
        opts, parts = column_options(inst, c, tv[c], side)
        best = min(x[0] for x in opts)
        optimal = [a for cst, a in opts if cst == best]
        for i in range(inst["n_ind"]):
            for h in (0, 1):
                al = superreads[i][h][c].allele
                if al in (0, 1):
                    others = {a[parts[i][h]] for a in optimal}
                    if others != {al}:
                        return dict(expected="non-tie allele of individual %d hap %d column %d agrees with every cost-optimal assignment (%r)" % (i, h, c, sorted(others)),
                                    observed=al, clause="c", partition=side, transmission=list(tv))
    # identity by descent (C05): child's non-tie alleles equal the transmitted parental non-tie alleles
    for k, (f, mo, ch) in enumerate(inst["triples"]):
        for c in range(m):
            t = tv[c]
            pf = superreads[f][1 - ((t >> (2 * k)) & 1)][c].allele
            pm = superreads[mo][1 - ((t >> (2 * k + 1)) & 1)][c].allele
            c0, c1 = superreads[ch][0][c].allele, superreads[ch][1][c].allele
            if c0 in (0, 1) and pf in (0, 1) and c0 != pf:
                return dict(expected="child hap 0 carries the father's transmitted allele %r at column %d" % (pf, c), observed=c0, clause="ibd")
            if c1 in (0, 1) and pm in (0, 1) and c1 != pm:
                return dict(expected="child hap 1 carries the mother's transmitted allele %r at column %d" % (pm, c), observed=c1, clause="ibd")
    return None
