"""In-process driver for `whatshap phase` with contract-carrying wrappers (spies) substituted through module
globals: records what is handed to / returned by the solver and read selection.  No source hooks."""
import contextlib
import io
import logging
import os
import shutil
import tempfile


def readset_to_list(readset):
    out = []
    for read in readset:
        out.append(dict(name=read.name, sample_id=read.sample_id, source_id=read.source_id, mapq=list(read.mapqs),
                        variants=[[v.position, v.allele, v.quality] for v in read]))
    return out


class CoverageGuard(Exception):
    pass


def span_coverage_of(reads, positions=None):
    rs = [[v[0] for v in rd["variants"]] for rd in reads]
    rs = [r for r in rs if r]
    pos = list(positions) if positions else sorted({p for r in rs for p in r})
    cov = [0] * len(pos)
    for r in rs:
        for j, p in enumerate(pos):
            if r[0] <= p <= r[-1]:
                cov[j] += 1
    return cov


CLI_FLAGS = {"ped": "--ped", "tag": "--tag", "recombrate": "--recombrate", "recombination_list_filename": "--recombination-list"}


def run_phase(main_vcf, phase_vcfs=(), ped=None, bams=(), reference=False, lists=(), keep_dir=False, coverage_guard=None, stale_lists=False, via_cli=False, **opts):
    """Run run_whatshap on text inputs. Returns dict(out, read_list, gtchange_list, recomb_list, solver_calls, selections, error)."""
    import whatshap.cli.phase as P
    logging.disable(logging.CRITICAL)
    d = tempfile.mkdtemp(prefix="wh_phase_")
    res = dict(out=None, read_list=None, gtchange_list=None, recomb_list=None, solver_calls=[], selections=[], error=None, dir=d)
    try:
        main = os.path.join(d, "input.vcf")
        with open(main, "w") as f:
            f.write(main_vcf)
        inputs = list(bams)
        for i, t in enumerate(phase_vcfs):
            p = os.path.join(d, "phaseinput%d.vcf" % i)
            with open(p, "w") as f:
                f.write(t)
            inputs.append(p)
        kw = dict(opts)
        if ped is not None:
            pp = os.path.join(d, "family.ped")
            with open(pp, "w") as f:
                f.write(ped)
            kw["ped"] = pp
        if "read_list" in lists:
            kw["read_list_filename"] = os.path.join(d, "reads.tsv")
        if "gtchange_list" in lists:
            kw["gtchange_list_filename"] = os.path.join(d, "gtchanges.tsv")
        if "recomb_list" in lists:
            kw["recombination_list_filename"] = os.path.join(d, "recomb.tsv")
        if stale_lists:
            # the list paths already hold the lists of an earlier run (re-run into the same output directory): none of it may survive
            for key, stale in (("read_list_filename", "#readname\tsource_id\tsample\tphaseset\thaplotype\tcovered_variants\tfirst_variant_pos\tlast_variant_pos\nSTALEREAD\t0\tSTALE\t1\t0\t2\t1\t2\n"),
                               ("gtchange_list_filename", "#sample\tchromosome\tposition\tREF\tALT\told_gt\tnew_gt\nSTALE\tchrSTALE\t0\tA\tC\t0/1\t1/1\n"),
                               ("recombination_list_filename", "#child_id chromosome position1 position2 transmitted_hap_father1 transmitted_hap_father2 transmitted_hap_mother1 transmitted_hap_mother2 recombination_cost\nSTALE chrSTALE 1 2 0 1 0 0 5\n")):
                if key in kw:
                    with open(kw[key], "w") as f:
                        f.write(stale)
        out = os.path.join(d, "out.vcf")
        orig_table, orig_select = P.PedigreeDPTable, P.select_reads
        orig_read = P.PhasedInputReader.read
        ctx = dict(chromosome=None, samples=[])

        def spy_read(self, chromosome, variants, sample, **kwargs):
            if ctx["chromosome"] != chromosome:
                ctx["samples"] = []
            ctx["chromosome"] = chromosome
            ctx["samples"].append(sample)
            return orig_read(self, chromosome, variants, sample, **kwargs)

        class SpyTable:
            def __init__(self, readset, recombcost, pedigree, distrust_genotypes=False, positions=None):
                self.rec = dict(reads=readset_to_list(readset), recombcost=list(recombcost), distrust=bool(distrust_genotypes),
                                positions=None if positions is None else list(positions), n_individuals=len(pedigree),
                                chromosome=ctx["chromosome"], family=list(ctx["samples"]))
                ctx["samples"] = []
                res["solver_calls"].append(self.rec)
                if coverage_guard is not None:
                    cov = span_coverage_of(self.rec["reads"], self.rec["positions"])
                    if cov and max(cov) > coverage_guard:
                        # precondition of the solver (contract: at most k reads span a column) is violated: do not build a 2^coverage table
                        res["coverage_violation"] = dict(coverage=cov, family=self.rec["family"], chromosome=self.rec["chromosome"])
                        raise CoverageGuard("solver input exceeds the coverage cap")
                self.t = orig_table(readset, recombcost, pedigree, distrust_genotypes, positions)

            def get_super_reads(self):
                sr, tv = self.t.get_super_reads()
                self.rec["superreads"] = [readset_to_list(s) for s in sr]
                self.rec["transmission"] = None if tv is None else list(tv)
                return sr, tv

            def get_optimal_cost(self):
                c = self.t.get_optimal_cost()
                self.rec["cost"] = c
                return c

            def get_optimal_partitioning(self):
                p = self.t.get_optimal_partitioning()
                self.rec["partitioning"] = list(p)
                return p

        def spy_select(readset, max_coverage, preferred_source_ids):
            sel = orig_select(readset, max_coverage, preferred_source_ids)
            res["selections"].append(dict(chromosome=ctx["chromosome"], sample=ctx["samples"][-1] if ctx["samples"] else None, max_coverage=max_coverage, preferred=sorted(preferred_source_ids),
                                          n_in=len(readset), reads_in=readset_to_list(readset), selected=readset_to_list(sel)))
            return sel
        P.PedigreeDPTable, P.select_reads = SpyTable, spy_select
        P.PhasedInputReader.read = spy_read
        try:
            with contextlib.redirect_stdout(io.StringIO()), contextlib.redirect_stderr(io.StringIO()):
                if via_cli and reference is False and all(k in CLI_FLAGS for k in kw):
                    # through the real command-line parser (whatshap.__main__.main without the logging set-up): every option that is not given takes the
                    # default of add_arguments(), not the default of run_whatshap()'s signature
                    import argparse
                    parser = argparse.ArgumentParser(prog="whatshap phase")
                    P.add_arguments(parser)
                    argv = ["-o", out, "--no-reference"]
                    for k, v in kw.items():
                        argv += [CLI_FLAGS[k], str(v)]
                    try:
                        args = parser.parse_args(argv + [main] + inputs)
                        P.validate(args, parser)
                    except SystemExit as e:
                        raise RuntimeError("the command line %r was rejected (exit %s)" % (argv, e.code))
                    P.main(args)
                else:
                    P.run_whatshap(inputs, main, reference=reference, output=out, write_command_line_header=False, **kw)
        except BaseException as e:   # CommandLineError, AssertionError, ...
            if isinstance(e, (KeyboardInterrupt, SystemExit)):
                raise
            import traceback
            res["error"] = "%s: %s" % (type(e).__name__, str(e)[:300])
            res["traceback"] = traceback.format_exc()[-2000:]
        finally:
            P.PedigreeDPTable, P.select_reads = orig_table, orig_select
            P.PhasedInputReader.read = orig_read
        if os.path.exists(out):
            with open(out) as f:
                res["out"] = f.read()
        for key, fn in (("read_list", "reads.tsv"), ("gtchange_list", "gtchanges.tsv"), ("recomb_list", "recomb.tsv")):
            p = os.path.join(d, fn)
            if os.path.exists(p):
                with open(p) as f:
                    res[key] = f.read()
    finally:
        logging.disable(logging.NOTSET)
        if not keep_dir:
            shutil.rmtree(d, ignore_errors=True)
    return res
