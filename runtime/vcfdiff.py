"""Record-by-record VCF differ with a parameterised set of allowed differences (independent text parser)."""
from scenario import vcf as V


def key_none_last(x):
    return (x is None, x if x is not None else 0)


def allele_multiset(gt):
    al, _ = V.gt_alleles(gt)
    return sorted(al, key=key_none_last) if al is not None else None


def is_phased_call(call, tags=("PS", "HP")):
    """A call makes a phase statement if its GT has '|' (PS style) or carries a non-missing HP value."""
    gt = call.get("GT")
    if gt is not None and "|" in gt and len(gt) > 1:
        return True
    hp = call.get("HP")
    if hp not in (None, ".") and not all(x == "." for x in hp.split(",")):
        return True
    return False


def compare_phase_output(intext, outtext, tag, target_samples, target_chroms, only_snvs=False, distrust=False, gt_changes_allowed=False):
    """None, or dict(expected, observed): out must be `in` plus phase information on target samples/chromosomes only."""
    h0, s0, r0 = V.parse(intext)
    h1, s1, r1 = V.parse(outtext)
    if s0 != s1:
        return dict(expected="samples %r" % s0, observed=s1)
    ids0, ids1 = V.header_ids(h0), V.header_ids(h1)
    for k in ids0:
        if not ids0[k] <= ids1[k]:
            return dict(expected="header still defines %s %r" % (k, sorted(ids0[k])), observed=sorted(ids1[k]))
    if len(r0) != len(r1):
        return dict(expected="%d records" % len(r0), observed="%d records" % len(r1))
    seen = set()
    for a, b in zip(r0, r1):
        where = "%s:%d" % (a["chrom"], a["pos"])
        is_snv = len(a["ref"]) == 1 and len(a["alts"]) >= 1 and len(a["alts"][0]) == 1
        # the reader/writer keep the first *eligible* record at a position: biallelic, and an SNV under --only-snvs
        eligible = len(a["alts"]) == 1 and (is_snv or not only_snvs)
        first = eligible and (a["chrom"], a["pos"]) not in seen
        if eligible:
            seen.add((a["chrom"], a["pos"]))
        for k in ("chrom", "pos", "id", "ref", "alts", "qual", "filter", "info"):
            if a[k] != b[k]:
                return dict(expected="%s %s=%r" % (where, k, a[k]), observed=b[k])
        if not a["format"]:
            continue
        in_keys = [k for k in a["format"] if k != tag]
        out_keys = [k for k in b["format"] if k != tag]
        if in_keys != out_keys:
            return dict(expected="%s FORMAT keys (apart from %s) %r" % (where, tag, in_keys), observed=b["format"])
        chrom_selected = (not target_chroms) or a["chrom"] in target_chroms
        for s, ca, cb in zip(s0, a["calls"], b["calls"]):
            targeted = chrom_selected and ((not target_samples) or s in target_samples)
            for k in in_keys:
                if k == "GT":
                    continue
                if ca[k] != cb[k]:
                    return dict(expected="%s sample %s: %s=%s unchanged" % (where, s, k, ca[k]), observed=cb[k])
            if not targeted:
                if ca.get("GT") != cb.get("GT") or ca.get(tag, ".") != cb.get(tag, "."):
                    return dict(expected="%s sample %s not selected: GT/%s untouched (%s, %s)" % (where, s, tag, ca.get("GT"), ca.get(tag, ".")),
                                observed="%s, %s" % (cb.get("GT"), cb.get(tag, ".")))
                continue
            if "GT" not in ca:
                continue
            m0, m1 = allele_multiset(ca["GT"]), allele_multiset(cb["GT"])
            if m0 != m1 and not (distrust and gt_changes_allowed):
                return dict(expected="%s sample %s: allele multiset of GT %s preserved" % (where, s, ca["GT"]), observed=cb["GT"])
            newly = {"GT": cb.get("GT"), tag: cb.get(tag)}
            phased_now = ("|" in (cb.get("GT") or "")) if tag == "PS" else (cb.get("HP") not in (None, ".") and
                                                                          not all(x == "." for x in cb["HP"].split(",")))
            if phased_now:
                het = m1 is not None and None not in m1 and len(set(m1)) > 1
                ok = het and len(a["alts"]) == 1 and first and (is_snv or not only_snvs)
                if not ok:
                    return dict(expected="%s sample %s: only heterozygous calls of biallelic, non-duplicate%s records are marked phased" % (
                        where, s, ", SNV" if only_snvs else ""), observed=str(newly))
    return None
