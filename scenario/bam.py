"""BAM/FASTA/VCF scenarios with known ground truth: a random reference, well separated variants (SNV, MNP, insertion, deletion,
left-normalised), true diploid haplotypes per sample, error-free reads cut from one haplotype with exact CIGARs.  Read names encode
sample, haplotype and serial number (`<sample>.h<0|1>.<n>`), so oracles need no side channel.  The generator itself only builds a
JSON-able description; `materialize` writes the files with pysam (sorted + indexed BAM, faidx'ed FASTA)."""
import os
import random

BASES = "ACGT"
CIG = {"M": 0, "I": 1, "D": 2, "N": 3, "S": 4, "H": 5, "P": 6, "=": 7, "X": 8}


def rand_seq(rng, n):
    return "".join(rng.choice(BASES) for _ in range(n))


def make_variants(rng, ref, n, kinds=("snv", "snv", "ins", "del", "mnp"), min_gap=12, start=20):
    """variants sorted by position, >= min_gap reference bases apart; VCF-normalised (left-aligned) indels."""
    out = []
    pos = start + rng.randint(0, 10)
    L = len(ref)
    while len(out) < n and pos < L - 30:
        kind = rng.choice(kinds)
        if kind == "snv":
            r = ref[pos]
            a = rng.choice([b for b in BASES if b != r])
            v = dict(pos=pos, ref=r, alt=a, kind=kind)
        elif kind == "mnp":
            k = rng.randint(2, 3)
            r = ref[pos:pos + k]
            a = "".join(rng.choice([b for b in BASES if b != c]) for c in r)
            v = dict(pos=pos, ref=r, alt=a, kind=kind)
        elif kind == "ins":
            anchor = ref[pos]
            k = rng.randint(1, 3)
            ins = rand_seq(rng, k)
            if ins[-1] == anchor:      # would be shiftable to the left: not VCF-normalised
                ins = ins[:-1] + rng.choice([b for b in BASES if b != anchor])
            v = dict(pos=pos, ref=anchor, alt=anchor + ins, kind=kind)
        else:
            k = rng.randint(1, 3)
            r = ref[pos:pos + 1 + k]
            if r[-1] == r[0]:          # deleted sequence ends in the anchor base: shiftable to the left
                pos += 1
                continue
            v = dict(pos=pos, ref=r, alt=r[0], kind="del")
        out.append(v)
        pos += len(v["ref"]) + min_gap + (rng.randint(0, 25) if min_gap or rng.random() < 0.5 else 0)
    return out


def haplotype_read(ref, variants, alleles, a, b, eqx=False):
    """Error-free read covering reference interval [a, b) of the haplotype carrying alleles[i] at variants[i].
    Variants only partially inside [a, b) are avoided by the caller.  -> (sequence, cigar [(op, len)], reference_start)"""
    seq = []
    cigar = []

    def push(op, n):
        if n <= 0:
            return
        if cigar and cigar[-1][0] == op:
            cigar[-1][1] += n
        else:
            cigar.append([op, n])
    p = a
    for v, al in zip(variants, alleles):
        vs, ve = v["pos"], v["pos"] + len(v["ref"])
        if ve <= a or vs >= b:
            continue
        if vs < a or ve > b:
            # the read starts/ends inside this variant's REF span: emit the part of the haplotype sequence that lies inside [a, b).
            # Only defined here for alleles that keep reference coordinates (REF allele, SNV/MNP); for an indel ALT allele the
            # boundary is moved outwards by the caller (snap), so treat it as reference-like by clipping the REF allele.
            lo, hi = max(vs, a), min(ve, b)
            if p < lo:
                seq.append(ref[p:lo])
                push("=" if eqx else "M", lo - p)
            if al == 1 and v["kind"] in ("snv", "mnp"):
                seq.append(v["alt"][lo - vs:hi - vs])
                push("X" if eqx else "M", hi - lo)
            elif al == 0:
                seq.append(ref[lo:hi])
                push("=" if eqx else "M", hi - lo)
            else:
                raise ValueError("read boundary inside an indel ALT allele")
            p = hi
            continue
        # reference stretch before the variant
        seq.append(ref[p:vs])
        push("=" if eqx else "M", vs - p)
        if al == 0:
            seq.append(v["ref"])
            push("=" if eqx else "M", len(v["ref"]))
        elif v["kind"] in ("snv", "mnp"):
            seq.append(v["alt"])
            push("X" if eqx else "M", len(v["alt"]))
        elif v["kind"] == "ins":
            seq.append(v["alt"])
            push("=" if eqx else "M", 1)
            push("I", len(v["alt"]) - 1)
        else:
            seq.append(v["alt"])
            push("=" if eqx else "M", 1)
            push("D", len(v["ref"]) - 1)
        p = ve
    seq.append(ref[p:b])
    push("=" if eqx else "M", b - p)
    return "".join(seq), [tuple(c) for c in cigar], a


def spliced_read(ref, variants, alleles, a, x, y, b, eqx=False):
    """read covering [a, x) and [y, b) with a reference skip (N) of y - x bases in between"""
    s1, c1, start = haplotype_read(ref, variants, alleles, a, x, eqx)
    s2, c2, _ = haplotype_read(ref, variants, alleles, y, b, eqx)
    return s1 + s2, c1 + [("N", y - x)] + c2, start


def aligned_blocks(start, cigar):
    """reference intervals [s, e) that are aligned (M/=/X/D consumed inside a block; N separates blocks)"""
    blocks = []
    p = start
    cur = p
    for op, n in cigar:
        if op in ("M", "=", "X", "D"):
            p += n
        elif op == "N":
            if p > cur:
                blocks.append((cur, p))
            p += n
            cur = p
    if p > cur:
        blocks.append((cur, p))
    return blocks


def snap(variants, x, left):
    """move a read boundary out of any variant's REF span (so that every overlapped variant is fully covered)"""
    for v in variants:
        vs, ve = v["pos"], v["pos"] + len(v["ref"])
        if vs < x < ve:
            return vs if left else ve
    return x


def generate(rng, n_samples=(1, 2), n_contigs=(1, 1), ref_len=(300, 500), n_variants=(3, 8), read_len=(40, 120), depth=(2, 8),
             kinds=("snv", "snv", "ins", "del", "mnp"), hom_frac=0.15, softclip=0.2, eqx=0.2, paired=0.0, unrelated_indel=0.0,
             supplementary=0.0, duplicate=0.0, secondary=0.0, unmapped=0, two_hets_per_read=False, snap_prob=1.0, ploidy=2, min_gap=12):
    contigs = []
    samples = ["S%d" % i for i in range(rng.randint(*n_samples))]
    for ci in range(rng.randint(*n_contigs)):
        L = rng.randint(*ref_len)
        ref = rand_seq(rng, L)
        variants = make_variants(rng, ref, rng.randint(*n_variants), kinds=kinds, min_gap=min_gap)
        contigs.append(dict(name="chr%d" % (ci + 1), seq=ref, variants=variants))
    truth = {}
    reads = []
    serial = 0
    use_eqx = rng.random() < eqx
    for s in samples:
        truth[s] = {}
        for c in contigs:
            haps = [[] for _ in range(ploidy)]
            for v in c["variants"]:
                if rng.random() < hom_frac:
                    a = rng.randint(0, 1)
                    col = [a] * ploidy
                else:
                    k = rng.randint(1, ploidy - 1)
                    col = [1] * k + [0] * (ploidy - k)
                    rng.shuffle(col)
                for h in range(ploidy):
                    haps[h].append(col[h])
            truth[s][c["name"]] = haps
            L = len(c["seq"])
            for h in range(ploidy):
                n = rng.randint(*depth)
                total = n * L // max(1, (read_len[0] + read_len[1]) // 2)
                for _ in range(max(total, 1)):
                    rl = rng.randint(*read_len)
                    a = rng.randint(0, max(0, L - rl))
                    b = min(L, a + rl)
                    if rng.random() < snap_prob:
                        a = snap(c["variants"], a, True)
                        b = snap(c["variants"], b, False)
                    if b - a < 10:
                        continue
                    try:
                        seq, cigar, start = haplotype_read(c["seq"], c["variants"], haps[h], a, b, eqx=use_eqx)
                    except ValueError:
                        a = snap(c["variants"], a, True)
                        b = snap(c["variants"], b, False)
                        seq, cigar, start = haplotype_read(c["seq"], c["variants"], haps[h], a, b, eqx=use_eqx)
                    if rng.random() < softclip:
                        k = rng.randint(1, 6)
                        if rng.random() < 0.5:
                            seq = rand_seq(rng, k) + seq
                            cigar = [("S", k)] + cigar
                        else:
                            seq = seq + rand_seq(rng, k)
                            cigar = cigar + [("S", k)]
                    flag = 0
                    if rng.random() < duplicate:
                        flag |= 1024
                    reads.append(dict(name="%s.h%d.%d" % (s, h, serial), sample=s, hap=h, contig=c["name"], start=start, cigar=[list(x) for x in cigar],
                                      seq=seq, flag=flag, mapq=60))
                    serial += 1
    return dict(contigs=contigs, samples=samples, truth=truth, reads=reads)


def add_reads_ending_in_variants(rng, sc, per_variant=5, min_len=30):
    """Extra error-free reads whose 3' (or 5') end lies INSIDE the REF span of a variant (placements the statement of C02 quantifies over):
    reads of the haplotype carrying the REF allele, ending after c bases of the span, starting far enough left to cover another variant."""
    serial = 10 ** 6
    for s in sc["samples"]:
        for c in sc["contigs"]:
            haps = sc["truth"][s][c["name"]]
            for i, v in enumerate(c["variants"]):
                if len(v["ref"]) < 2:
                    continue
                for h in (0, 1):
                    if haps[h][i] != 0:
                        continue
                    for _ in range(per_variant):
                        cut = rng.randint(1, len(v["ref"]) - 1)
                        if rng.random() < 0.7:
                            b = v["pos"] + cut
                            a = max(0, b - rng.randint(min_len, 120))
                            a = snap(c["variants"], a, True)
                        else:
                            a = v["pos"] + cut
                            b = min(len(c["seq"]), a + rng.randint(min_len, 120))
                            b = snap(c["variants"], b, False)
                        try:
                            seq, cigar, start = haplotype_read(c["seq"], c["variants"], haps[h], a, b)
                        except ValueError:
                            continue
                        sc["reads"].append(dict(name="%s.h%d.%d" % (s, h, serial), sample=s, hap=h, contig=c["name"], start=start,
                                                cigar=[list(x) for x in cigar], seq=seq, flag=0, mapq=60))
                        serial += 1
    return sc


def vcf_text(sc, phased=None, samples=None, rev_rng=None, rev_frac=0.0, stale_rng=None):
    """(stale_rng: the file carries phasing from an earlier, unrelated run: every heterozygous call is written phased in a random order, one PS set per contig.)
    Main VCF (unphased, GT alleles ascending; with rev_rng a fraction rev_frac of the unphased genotypes is spelled in descending order, e.g. 1/0).  phased: optional {sample: "PS"} to write the truth phasing (one set per contig)."""
    samples = samples or sc["samples"]
    lines = ["##fileformat=VCFv4.2", '##FORMAT=<ID=GT,Number=1,Type=String,Description="Genotype">',
             '##FORMAT=<ID=PS,Number=1,Type=Integer,Description="Phase set identifier">']
    for c in sc["contigs"]:
        lines.append("##contig=<ID=%s,length=%d>" % (c["name"], len(c["seq"])))
    lines.append("\t".join(["#CHROM", "POS", "ID", "REF", "ALT", "QUAL", "FILTER", "INFO", "FORMAT"] + samples))
    for c in sc["contigs"]:
        first_het = {}
        for i, v in enumerate(c["variants"]):
            calls = []
            for s in samples:
                col = [h[i] for h in sc["truth"][s][c["name"]]]
                if stale_rng is not None and len(set(col)) > 1:
                    if s not in first_het:
                        first_het[s] = v["pos"] + 1
                    order = list(col)
                    stale_rng.shuffle(order)
                    calls.append("|".join(map(str, order)) + ":%d" % first_het[s])
                elif stale_rng is not None:
                    calls.append("/".join(map(str, sorted(col))) + ":.")
                elif phased and s in phased and len(set(col)) > 1:
                    if s not in first_het:
                        first_het[s] = v["pos"] + 1
                    calls.append("|".join(map(str, col)) + ":%d" % first_het[s])
                else:
                    alleles = sorted(col)
                    if rev_rng is not None and rev_rng.random() < rev_frac:
                        alleles = alleles[::-1]
                    calls.append("/".join(map(str, alleles)) + (":." if phased else ""))
            lines.append("\t".join([c["name"], str(v["pos"] + 1), ".", v["ref"], v["alt"], ".", "PASS", ".", "GT:PS" if (phased or stale_rng is not None) else "GT"] + calls))
    return "\n".join(lines) + "\n"


def phased_vcf(sc, rng, max_sets=3, interleave=0.3, samples=None, unphased_frac=0.1):
    """A phased VCF of the truth with several phase sets per contig; within a set the haplotypes are listed in a random order.
    -> (text, phasing) with phasing[sample][contig][variant index] = None | (set id, tuple of alleles in VCF haplotype order)."""
    samples = samples or sc["samples"]
    lines = ["##fileformat=VCFv4.2", '##FORMAT=<ID=GT,Number=1,Type=String,Description="Genotype">',
             '##FORMAT=<ID=PS,Number=1,Type=Integer,Description="Phase set identifier">']
    for c in sc["contigs"]:
        lines.append("##contig=<ID=%s,length=%d>" % (c["name"], len(c["seq"])))
    lines.append("\t".join(["#CHROM", "POS", "ID", "REF", "ALT", "QUAL", "FILTER", "INFO", "FORMAT"] + samples))
    phasing = {s: {} for s in samples}
    for c in sc["contigs"]:
        n = len(c["variants"])
        per_sample = {}
        for s in samples:
            haps = sc["truth"][s][c["name"]]
            p = len(haps)
            k = rng.randint(1, max_sets)
            if rng.random() < interleave:
                label = [rng.randrange(k) for _ in range(n)]
            else:
                cuts = sorted(rng.sample(range(n + 1), min(k - 1, n + 1))) if k > 1 else []
                label = []
                b = 0
                for i in range(n):
                    while b < len(cuts) and i >= cuts[b]:
                        b += 1
                    label.append(b)
            perms = {}
            first = {}
            out = []
            for i, v in enumerate(c["variants"]):
                col = [haps[h][i] for h in range(p)]
                if len(set(col)) == 1 or rng.random() < unphased_frac:
                    out.append(None)
                    continue
                L = label[i]
                if L not in perms:
                    perm = list(range(p))
                    rng.shuffle(perm)
                    perms[L] = perm
                    first[L] = v["pos"] + 1
                out.append((first[L], tuple(col[perms[L][j]] for j in range(p))))
            per_sample[s] = out
            phasing[s][c["name"]] = out
        for i, v in enumerate(c["variants"]):
            calls = []
            for s in samples:
                ph = per_sample[s][i]
                haps = sc["truth"][s][c["name"]]
                col = sorted(haps[h][i] for h in range(len(haps)))
                if ph is None:
                    calls.append("/".join(map(str, col)) + ":.")
                else:
                    calls.append("|".join(map(str, ph[1])) + ":%d" % ph[0])
            lines.append("\t".join([c["name"], str(v["pos"] + 1), ".", v["ref"], v["alt"], ".", "PASS", ".", "GT:PS"] + calls))
    return "\n".join(lines) + "\n", phasing


def materialize(sc, d, bam_name="reads.bam", read_groups=True, extra_reads=(), sort=True):
    """Write reference.fasta(+.fai), reads.bam(+.bai) into directory d. Returns dict of paths."""
    import pysam
    fasta = os.path.join(d, "reference.fasta")
    with open(fasta, "w") as f:
        for c in sc["contigs"]:
            f.write(">%s\n" % c["name"])
            s = c["seq"]
            for i in range(0, len(s), 60):
                f.write(s[i:i + 60] + "\n")
    pysam.faidx(fasta)
    header = {"HD": {"VN": "1.6", "SO": "coordinate" if sort else "unsorted"},
              "SQ": [{"SN": c["name"], "LN": len(c["seq"])} for c in sc["contigs"]]}
    if read_groups:
        header["RG"] = [{"ID": "rg_" + s, "SM": s} for s in sc["samples"]]
    unsorted = os.path.join(d, "unsorted.bam")
    names = [c["name"] for c in sc["contigs"]]
    with pysam.AlignmentFile(unsorted, "wb", header=header) as out:
        for r in list(sc["reads"]) + list(extra_reads):
            a = pysam.AlignedSegment(out.header)
            a.query_name = r["name"]
            a.flag = r.get("flag", 0)
            if r.get("contig") is not None:
                a.reference_id = names.index(r["contig"])
                a.reference_start = r["start"]
                a.mapping_quality = r.get("mapq", 60)
                a.cigartuples = [(CIG[op], n) for op, n in r["cigar"]]
            else:
                a.reference_id = -1
                a.reference_start = -1
                a.flag |= 4
            a.query_sequence = r["seq"]
            a.query_qualities = pysam.qualitystring_to_array(chr(33 + r.get("qual", 30)) * len(r["seq"])) if r["seq"] else None
            tags = []
            if read_groups and r.get("sample"):
                tags.append(("RG", "rg_" + r["sample"]))
            for k, v in r.get("tags", []):
                tags.append((k, v))
            a.set_tags(tags)
            if r.get("mate") is not None:
                a.next_reference_id = names.index(r["mate"][0])
                a.next_reference_start = r["mate"][1]
            out.write(a)
    bam = os.path.join(d, bam_name)
    if sort:
        pysam.sort("-o", bam, unsorted)
        os.unlink(unsorted)
    else:
        os.replace(unsorted, bam)
    pysam.index(bam)
    return dict(fasta=fasta, bam=bam)


def write_indexed_vcf(text, path_gz):
    """bgzip + tabix a VCF text (haplotag / haplotagphase need an index)"""
    import pysam
    plain = path_gz[:-3] if path_gz.endswith(".gz") else path_gz + ".plain"
    with open(plain, "w") as f:
        f.write(text)
    pysam.tabix_compress(plain, path_gz, force=True)
    pysam.tabix_index(path_gz, preset="vcf", force=True)
    os.unlink(plain)
    return path_gz
