"""Pedigree phasing scenarios (trio / quartet / two families / extra unrelated sample) as VCF + PED + phased VCFs used as reads.
Genotypes come from founder haplotypes and a transmission with optional crossovers, so they are Mendelian consistent unless a
conflict or missing genotype is injected on purpose.  Nothing here imports whatshap."""
import random

from . import vcf as V
from . import phasing as PH

BASES = "ACGT"


def make_family(prefix, kind):
    """-> (members [names], trios [(father, mother, child)])"""
    if kind == "trio":
        m = [prefix + "F", prefix + "M", prefix + "C"]
        return m, [(m[0], m[1], m[2])]
    if kind == "quartet":
        m = [prefix + "F", prefix + "M", prefix + "C1", prefix + "C2"]
        return m, [(m[0], m[1], m[2]), (m[0], m[1], m[3])]
    raise ValueError(kind)


def generate(rng, families=("trio",), unrelated=0, n_contigs=(1, 2), n_variants=(4, 9), conflict=0.0, missing=0.0, k_files=(1, 2),
             reads_for=1.0, cover=0.8, crossover=0.15, sample_order_shuffle=True, extra_kinds=0.0, error_rate=0.0, reads_per_file=(1, 2)):
    fams = []
    trios = []
    samples = []
    for fi, kind in enumerate(families):
        members, t = make_family("f%d" % fi, kind)
        fams.append(members)
        trios += t
        samples += members
    for u in range(unrelated):
        samples.append("u%d" % u)
    order = samples[:]
    if sample_order_shuffle:
        rng.shuffle(order)
    contigs = [["chr%d" % (i + 1), 100000] for i in range(rng.randint(*n_contigs))]
    records = []
    truth = {s: {} for s in order}       # record index -> (allele hap0 (paternal for children), allele hap1)
    injected = {}                        # record index -> "conflict" | "missing"
    for chrom, _ in contigs:
        pos = rng.randint(1, 200)
        n = rng.randint(*n_variants)
        # transmission state per trio: (father hap index, mother hap index) given to the child, with crossovers along the contig
        state = {t: [rng.randint(0, 1), rng.randint(0, 1)] for t in trios}
        for i in range(n):
            ref = rng.choice(BASES)
            alt = rng.choice([b for b in BASES if b != ref])
            ri = len(records)
            hap = {}
            for fam_members, kind in zip(fams, families):
                f, m = fam_members[0], fam_members[1]
                hap[f] = [rng.randint(0, 1), rng.randint(0, 1)]
                hap[m] = [rng.randint(0, 1), rng.randint(0, 1)]
            for u in range(unrelated):
                hap["u%d" % u] = [rng.randint(0, 1), rng.randint(0, 1)]
            for t in trios:
                for side in (0, 1):
                    if rng.random() < crossover:
                        state[t][side] ^= 1
                f, m, c = t
                hap[c] = [hap[f][state[t][0]], hap[m][state[t][1]]]
            inj = None
            if rng.random() < conflict and trios:
                # make one child impossible: child hom for an allele one parent lacks
                f, m, c = rng.choice(trios)
                kind = rng.randrange(3)
                if kind == 0 and hap[f][0] == hap[f][1]:
                    a = 1 - hap[f][0]
                    hap[c] = [a, a]
                    inj = "conflict"
                elif kind == 1:
                    # both parents homozygous for the same allele, child heterozygous
                    a = rng.randint(0, 1)
                    hap[f], hap[m] = [a, a], [a, a]
                    for (f2, m2, c2) in trios:
                        if (f2, m2) == (f, m):
                            hap[c2] = [a, a]
                    hap[c] = [0, 1]
                    inj = "conflict"
                elif kind == 2:
                    # child homozygous for an allele the mother lacks
                    a = rng.randint(0, 1)
                    hap[m] = [a, a]
                    hap[c] = [1 - a, 1 - a]
                    inj = "conflict"
            calls = []
            for s in order:
                a, b = hap[s]
                gt = "%d/%d" % (min(a, b), max(a, b)) if rng.random() < 0.8 else "%d/%d" % (a, b)
                if inj is None and rng.random() < missing:
                    gt = "./."
                    inj_here = True
                    injected[ri] = "missing"
                calls.append([gt])
                truth[s][ri] = (a, b)
            if inj:
                injected[ri] = inj
            records.append(dict(chrom=chrom, pos=pos, id=".", ref=ref, alts=[alt], qual=".", filter="PASS", info=[], format=["GT"], calls=calls, kind="snv"))
            pos += rng.randint(1, 80)
    sc = dict(contigs=contigs, samples=order, defs={"INFO": {}, "FORMAT": {"GT": V.STD_FORMAT["GT"]}, "FILTER": []}, extra_header=[], records=records)
    # the order of PED lines carries no meaning for the properties; `trios` is returned in PED order (the order in which whatshap numbers the
    # transmission bits of a family)
    trios = list(trios)
    rng.shuffle(trios)
    ped_lines = []
    for (f, m, c) in trios:
        ped_lines.append("%s %s %s %s 0 1" % (c[:2], c, f, m))
    ped = "\n".join(ped_lines) + "\n"
    # reads = blocks of phased VCFs, from the true haplotypes of heterozygous, non-injected records
    het_truth = {}
    for s in order:
        het_truth[s] = {}
        for ri, (a, b) in truth[s].items():
            gt = records[ri]["calls"][order.index(s)][0]
            if a != b and "." not in gt and ri not in injected:
                if rng.random() < reads_for:
                    het_truth[s][ri] = [a, b]
    files = PH.make_reads(rng, sc, het_truth, rng.randint(*k_files), reads_per_file=reads_per_file, cover=cover, error_rate=error_rate)
    return dict(scenario=sc, main_vcf=V.render(sc), ped=ped, phase_vcfs=[PH.render_phase_input(sc, het_truth, f) for f in files],
                truth={s: {str(k): list(v) for k, v in t.items()} for s, t in truth.items()}, injected={str(k): v for k, v in injected.items()},
                trios=[list(t) for t in trios], families=fams)
