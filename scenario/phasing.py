"""Phasing scenarios without BAMs: a main VCF plus K phased VCFs used as phase inputs.  Every block of a phase-input
VCF becomes one pseudo read (pair) in `whatshap phase`, so K files give arbitrary read/variant incidence structures
(interleaved, nested, gapped) in which the reads of one file are disjoint.  Nothing here imports whatshap."""
import random

from . import vcf as V


def candidates(sc, sample_index, include_hom=False):
    """indices of records that whatshap may phase for this sample: biallelic, heterozygous, fully called, and the first
    such record at its position -- or the first biallelic SNV at its position (what the reader keeps under --only-snvs)."""
    out = []
    seen, seen_snv = set(), set()
    for i, r in enumerate(sc["records"]):
        key = (r["chrom"], r["pos"])
        if not r["alts"] or "GT" not in r["format"] or len(r["alts"]) != 1:
            continue
        is_snv = len(r["ref"]) == 1 and len(r["alts"][0]) == 1
        first = key not in seen
        seen.add(key)
        first_snv = is_snv and key not in seen_snv
        if is_snv:
            seen_snv.add(key)
        if not (first or first_snv):
            continue
        gt = r["calls"][sample_index][r["format"].index("GT")]
        al, _ = V.gt_alleles(gt)
        if al is None or None in al or len(al) != 2:
            continue
        if al[0] == al[1] and not include_hom:
            continue
        out.append(i)
    return out


def make_truth(rng, sc, hom_as_het=0.0):
    """truth[sample][record index] = (allele on hap 0, allele on hap 1) for every candidate."""
    truth = {}
    for si, s in enumerate(sc["samples"]):
        t = {}
        for i in candidates(sc, si, include_hom=hom_as_het > 0):
            gt = sc["records"][i]["calls"][si][sc["records"][i]["format"].index("GT")]
            al, _ = V.gt_alleles(gt)
            order = list(al)
            if order[0] == order[1]:
                # the reads claim this homozygous call is heterozygous (only meaningful with --distrust-genotypes)
                if rng.random() >= hom_as_het:
                    continue
                order = [0, 1]
            rng.shuffle(order)
            t[i] = order
        truth[s] = t
    return truth


def make_reads(rng, sc, truth, k_files, reads_per_file=(1, 3), cover=0.8, contiguous=0.4, error_rate=0.0, min_len=2):
    """files[k][sample] = list of reads; read = dict(vars=[record indices], flip=bool, alleles=[hap-0 allele as seen by this read])."""
    files = []
    for k in range(k_files):
        per_sample = {}
        for s in sc["samples"]:
            reads = []
            by_chrom = {}
            for i in sorted(truth[s]):
                by_chrom.setdefault(sc["records"][i]["chrom"], []).append(i)
            for chrom, idxs in by_chrom.items():
                n = rng.randint(*reads_per_file)
                assign = {}
                if rng.random() < contiguous:
                    cuts = sorted(rng.sample(range(len(idxs) + 1), min(n - 1, len(idxs) + 1))) if n > 1 else []
                    b = 0
                    for j, i in enumerate(idxs):
                        while b < len(cuts) and j >= cuts[b]:
                            b += 1
                        if rng.random() < cover:
                            assign[i] = b
                else:
                    for i in idxs:
                        if rng.random() < cover:
                            assign[i] = rng.randrange(n)
                for b in sorted(set(assign.values())):
                    vs = [i for i in idxs if assign.get(i) == b]
                    if len(vs) < min_len:
                        continue
                    flip = rng.random() < 0.5
                    alle = []
                    for i in vs:
                        a = truth[s][i][1 if flip else 0]
                        if error_rate and rng.random() < error_rate:
                            a = truth[s][i][0 if flip else 1]
                        alle.append(a)
                    reads.append(dict(vars=vs, flip=flip, alleles=alle, chrom=chrom))
            per_sample[s] = reads
        files.append(per_sample)
    return files


def render_phase_input(sc, truth, per_sample, tag="PS", quality=None):
    """A phased VCF holding one block per read.  Block id = 1-based position of the block's first variant."""
    samples = sc["samples"]
    lines = ["##fileformat=VCFv4.2", '##FORMAT=<ID=GT,Number=1,Type=String,Description="Genotype">',
             '##FORMAT=<ID=PS,Number=1,Type=Integer,Description="Phase set identifier">',
             '##FORMAT=<ID=HP,Number=.,Type=String,Description="Phasing haplotype identifier">',
             '##FORMAT=<ID=PQ,Number=1,Type=Integer,Description="Phasing quality">']
    for name, length in sc["contigs"]:
        lines.append("##contig=<ID=%s,length=%d>" % (name, length))
    lines.append("\t".join(["#CHROM", "POS", "ID", "REF", "ALT", "QUAL", "FILTER", "INFO", "FORMAT"] + samples))
    used = {}
    for s in samples:
        for r in per_sample.get(s, []):
            first_pos = sc["records"][r["vars"][0]]["pos"]
            for i, a in zip(r["vars"], r["alleles"]):
                other = [x for x in truth[s][i] if x != a]
                other = other[0] if other else a
                used.setdefault(i, {})[s] = (a, other, first_pos)
    for i in sorted(used):
        rec = sc["records"][i]
        calls = []
        keys = ["GT", tag] + (["PQ"] if quality else [])
        for s in samples:
            if s in used[i]:
                a, b, blk = used[i][s]
                if tag == "PS":
                    vals = ["%d|%d" % (a, b), str(blk)]
                else:
                    lo, hi = sorted((a, b))
                    # GT lo/hi; haplotype 1 carries a
                    hp = ["%d-%d" % (blk, 1 if x == a else 2) for x in (lo, hi)]
                    vals = ["%d/%d" % (lo, hi), ",".join(hp)]
                if quality:
                    vals.append(str(quality))
            else:
                si = samples.index(s)
                gt = rec["calls"][si][rec["format"].index("GT")] if "GT" in rec["format"] else "./."
                vals = [gt.replace("|", "/"), "."] + (["."] if quality else [])
            calls.append(":".join(vals))
        lines.append("\t".join([rec["chrom"], str(rec["pos"]), ".", rec["ref"], ",".join(rec["alts"]), ".", "PASS", ".", ":".join(keys)] + calls))
    return "\n".join(lines) + "\n"


def generate(rng, k_files=(1, 3), error_rate=0.0, main_kwargs=None, reads_kwargs=None, input_tag="PS", hom_as_het=0.0):
    mk = dict(n_contigs=(1, 2), n_samples=(1, 2), n_records=(4, 10), phasing=None,
              gt_kinds=("homref", "het", "het", "het", "het", "het_rev", "homalt", "missing", "half"))
    mk.update(main_kwargs or {})
    sc = V.generate(rng, **mk)
    truth = make_truth(rng, sc, hom_as_het=hom_as_het)
    k = rng.randint(*k_files)
    files = make_reads(rng, sc, truth, k, error_rate=error_rate, **(reads_kwargs or {}))
    tags = [input_tag if input_tag in ("PS", "HP") else rng.choice(["PS", "HP"]) for _ in range(k)]
    return dict(scenario=sc, main_vcf=V.render(sc), phase_vcfs=[render_phase_input(sc, truth, f, tag=t) for f, t in zip(files, tags)],
                truth={s: {str(i): v for i, v in t.items()} for s, t in truth.items()},
                reads=files)


def decode_phasing(text):
    """Independent decoder of a phased VCF text: -> (samples, records, phase) where phase[sample][record index] =
    (block id, tuple of alleles in haplotype order) for PS ('a|b' + PS) and HP ('x/y' + HP=blk-h,...) encodings."""
    header, samples, records = V.parse(text)
    phase = {s: {} for s in samples}
    for ri, r in enumerate(records):
        for s, call in zip(samples, r["calls"]):
            gt = call.get("GT")
            if gt is None:
                continue
            al, piped = V.gt_alleles(gt)
            hp = call.get("HP", ".")
            if hp not in (".", None) and not all(x == "." for x in hp.split(",")):
                entries = [e.split("-") for e in hp.split(",")]
                blk = int(entries[0][0])
                tup = [None] * len(entries)
                for allele, (b, h) in zip(al, entries):
                    tup[int(h) - 1] = allele
                phase[s][ri] = (blk, tuple(tup), "HP")
            elif piped:
                ps = call.get("PS", ".")
                phase[s][ri] = (int(ps) if ps not in (".", None) else 0, tuple(al), "PS")
    return samples, records, phase
