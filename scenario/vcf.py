"""Generator of VCF inputs as JSON-able structures + renderer to VCF text + an independent text parser.

A scenario is a dict:
  {"contigs": [[name, length]], "samples": [...], "defs": {"INFO": {id: [Number, Type]}, "FORMAT": {...}, "FILTER": [...]},
   "extra_header": [...], "records": [ {"chrom","pos","id","ref","alts":[...],"qual","filter","info":[[k,v]...],
                                         "format":[keys], "calls":[[values aligned with format]]} ]}
Values are strings exactly as they appear in the file.  Nothing here imports whatshap or pysam.
"""
import random

BASES = "ACGT"

STD_FORMAT = {
    "GT": ["1", "String", "Genotype"],
    "PS": ["1", "Integer", "Phase set identifier"],
    "HP": [".", "String", "Phasing haplotype identifier"],
    "PQ": ["1", "Integer", "Phasing quality"],
    "DP": ["1", "Integer", "Read depth"],
    "GQ": ["1", "Integer", "Genotype quality"],
    "AD": ["R", "Integer", "Allelic depths"],
    "FT": ["1", "String", "Call filter"],
    "GL": ["G", "Float", "Genotype likelihoods"],
    "PL": ["G", "Integer", "Phred-scaled genotype likelihoods"],
}
STD_INFO = {
    "DP": ["1", "Integer", "Total depth"],
    "AF": ["A", "Float", "Allele frequency"],
    "DB": ["0", "Flag", "dbSNP membership"],
    "AN": ["1", "Integer", "Allele number"],
    "ST": ["1", "String", "Some string"],
    "XS": [".", "Integer", "Some ints"],
}


def rand_seq(rng, n):
    return "".join(rng.choice(BASES) for _ in range(n))


def make_alleles(rng, kind):
    """(ref, [alts]) for a variant kind."""
    if kind == "snv":
        r = rng.choice(BASES)
        return r, [rng.choice([b for b in BASES if b != r])]
    if kind == "mnp":
        n = rng.randint(2, 3)
        r = rand_seq(rng, n)
        a = "".join(rng.choice([b for b in BASES if b != c]) for c in r)
        return r, [a]
    if kind == "ins":
        r = rng.choice(BASES)
        return r, [r + rand_seq(rng, rng.randint(1, 3))]
    if kind == "del":
        r = rand_seq(rng, rng.randint(2, 4))
        return r, [r[0]]
    if kind == "multi":
        r = rng.choice(BASES)
        alts = rng.sample([b for b in BASES if b != r], 2)
        return r, alts
    if kind == "multi3":
        r = rng.choice(BASES)
        return r, [b for b in BASES if b != r]
    if kind == "symbolic":
        return rng.choice(BASES), ["<DEL>"]
    if kind == "complex":
        return rand_seq(rng, 2), [rand_seq(rng, 3)]
    raise ValueError(kind)


def render(sc):
    lines = ["##fileformat=VCFv4.2"]
    for l in sc.get("extra_header", []):
        lines.append(l)
    for f in sc["defs"].get("FILTER", []):
        lines.append('##FILTER=<ID=%s,Description="filter %s">' % (f, f))
    for k, (num, typ, desc) in sc["defs"].get("INFO", {}).items():
        lines.append('##INFO=<ID=%s,Number=%s,Type=%s,Description="%s">' % (k, num, typ, desc))
    for k, (num, typ, desc) in sc["defs"].get("FORMAT", {}).items():
        lines.append('##FORMAT=<ID=%s,Number=%s,Type=%s,Description="%s">' % (k, num, typ, desc))
    for name, length in sc["contigs"]:
        lines.append("##contig=<ID=%s,length=%d>" % (name, length) if length else "##contig=<ID=%s>" % name)
    lines.append("\t".join(["#CHROM", "POS", "ID", "REF", "ALT", "QUAL", "FILTER", "INFO"] + (["FORMAT"] + sc["samples"] if sc["samples"] else [])))
    for r in sc["records"]:
        info = ";".join(k if v is None else "%s=%s" % (k, v) for k, v in r["info"]) or "."
        cols = [r["chrom"], str(r["pos"]), r["id"], r["ref"], ",".join(r["alts"]) or ".", r["qual"], r["filter"], info]
        if sc["samples"]:
            cols.append(":".join(r["format"]))
            for call in r["calls"]:
                cols.append(":".join(call))
        lines.append("\t".join(cols))
    return "\n".join(lines) + "\n"


def parse(text):
    """Independent minimal VCF text parser -> (header_lines, samples, records) with records as dicts of strings."""
    header, samples, records = [], [], []
    for line in text.split("\n"):
        if not line:
            continue
        if line.startswith("##"):
            header.append(line)
            continue
        if line.startswith("#"):
            cols = line.split("\t")
            samples = cols[9:]
            continue
        c = line.split("\t")
        rec = dict(chrom=c[0], pos=int(c[1]), id=c[2], ref=c[3], alts=[] if c[4] == "." else c[4].split(","), qual=c[5], filter=c[6],
                   info=[] if c[7] == "." else [kv.split("=", 1) if "=" in kv else [kv, None] for kv in c[7].split(";")])
        if len(c) > 8:
            rec["format"] = c[8].split(":")
            rec["calls"] = []
            for s in c[9:]:
                vals = [v if v.strip("\x00") != "" else "." for v in s.split(":")]   # htslib writes a missing String value as an empty field
                # trailing fields may be dropped by writers: pad with "."
                vals += ["."] * (len(rec["format"]) - len(vals))
                rec["calls"].append(dict(zip(rec["format"], vals)))
        else:
            rec["format"], rec["calls"] = [], []
        records.append(rec)
    return header, samples, records


def header_ids(header):
    """{'INFO': set, 'FORMAT': set, 'FILTER': set, 'contig': set} defined in header lines."""
    out = {"INFO": set(), "FORMAT": set(), "FILTER": set(), "contig": set()}
    for l in header:
        for k in out:
            if l.startswith("##%s=<ID=" % k):
                out[k].add(l.split("<ID=", 1)[1].split(",", 1)[0].rstrip(">"))
    return out


def gt_alleles(gt):
    """allele list of a GT string ('.' entries as None) and whether it contains '|'."""
    if gt is None:
        return None, False
    parts = gt.replace("|", "/").split("/")
    return [None if p == "." else int(p) for p in parts], "|" in gt


GT_KINDS_DIPLOID = ["homref", "het", "het_rev", "homalt", "missing", "half", "dot"]


def make_gt(rng, kind, nalts, ploidy=2):
    a = rng.randint(1, nalts) if nalts else 0
    if kind == "homref":
        return "/".join(["0"] * ploidy)
    if kind == "homalt":
        return "/".join([str(a)] * ploidy)
    if kind == "het":
        al = [0] * ploidy
        k = rng.randint(1, ploidy - 1) if ploidy > 1 else 0
        for i in range(k):
            al[ploidy - 1 - i] = a
        if nalts > 1 and ploidy >= 2 and rng.random() < 0.3:
            al[0] = [x for x in range(1, nalts + 1) if x != a][0]
            al.sort()
        return "/".join(map(str, al))
    if kind == "het_rev":
        al = [a] + [0] * (ploidy - 1)
        return "/".join(map(str, al))
    if kind == "missing":
        return "/".join(["."] * ploidy)
    if kind == "half":
        return "/".join(["0"] + ["."] * (ploidy - 1)) if rng.random() < 0.5 else "/".join(["."] * (ploidy - 1) + [str(a)])
    if kind == "half_phased":
        return "|".join(["0"] + ["."] * (ploidy - 1)) if rng.random() < 0.5 else "|".join(["."] * (ploidy - 1) + [str(a)])
    if kind == "dot":
        return "."
    if kind == "haploid":
        return str(rng.choice([0, a]))
    raise ValueError(kind)


def generate(rng, n_contigs=(1, 2), n_samples=(1, 3), n_records=(3, 9), kinds=("snv", "snv", "snv", "mnp", "ins", "del", "multi", "symbolic"),
             gt_kinds=("homref", "het", "het", "het", "het_rev", "homalt", "missing", "half"), ploidies=(2,), mixed_ploidy=False,
             phasing=None, phase_prob=0.7, extra_format=True, extra_info=True, duplicates=0.15, missing_defs=0.0, no_gt_records=0.0,
             spacing=(1, 60), start=(1, 300), blocks_interleave=True, mixed_tags=False):
    """phasing: None | 'PS' | 'HP' | 'mixed' (per-sample choice). Returns a scenario dict."""
    nc = rng.randint(*n_contigs)
    contigs = [["chr%s" % (i + 1) if rng.random() < 0.7 else "ctg%d" % i, 100000] for i in range(nc)]
    if len({c[0] for c in contigs}) < nc:
        contigs = [["chr%d" % (i + 1), 100000] for i in range(nc)]
    samples = ["S%d" % i if rng.random() < 0.5 else "sample_%s" % "abcdefghijkl"[i] for i in range(rng.randint(*n_samples))]
    fmt_defs = {"GT": STD_FORMAT["GT"]}
    extra_f = [k for k in ("DP", "GQ", "AD", "FT", "PL") if extra_format and rng.random() < 0.5]
    for k in extra_f:
        fmt_defs[k] = STD_FORMAT[k]
    info_keys = [k for k in STD_INFO if extra_info and rng.random() < 0.6]
    info_defs = {k: STD_INFO[k] for k in info_keys}
    if "AD" in extra_f and extra_info and rng.random() < 0.5:
        # the same ID defined as INFO and as FORMAT (as `bcftools mpileup -a AD,INFO/AD` writes it)
        info_defs["AD"] = ["R", "Integer", "Total allelic depths"]
        info_keys = info_keys + ["AD"]
    filters = ["q10", "lowdp"] if rng.random() < 0.6 else []
    sample_tag = {}
    for s in samples:
        if phasing in ("PS", "HP"):
            sample_tag[s] = phasing
        elif phasing == "mixed":
            sample_tag[s] = rng.choice(["PS", "HP"])
        else:
            sample_tag[s] = None
    for t in set(sample_tag.values()):
        if t:
            fmt_defs[t] = STD_FORMAT[t]
    if phasing and rng.random() < 0.3:
        fmt_defs["PQ"] = STD_FORMAT["PQ"]
    ploidy = rng.choice(ploidies)
    records = []
    for chrom, _ in contigs:
        pos = rng.randint(*start)
        n = rng.randint(*n_records)
        # block structure per sample: each phased het variant gets a block label
        nblocks = rng.randint(1, 3)
        block_of = {s: None for s in samples}
        chrom_records = []
        for i in range(n):
            kind = rng.choice(kinds)
            ref, alts = make_alleles(rng, kind)
            rec = dict(chrom=chrom, pos=pos, id="." if rng.random() < 0.7 else "rs%d" % rng.randint(1, 9999), ref=ref, alts=alts,
                       qual="." if rng.random() < 0.5 else str(rng.randint(1, 99)),
                       filter=rng.choice(["PASS", "."] + filters), info=[], format=[], calls=[], kind=kind)
            for k in info_keys:
                if rng.random() < 0.6:
                    num, typ, _ = info_defs[k]
                    if k == "AD":
                        rec["info"].append([k, ",".join(str(rng.randint(0, 30)) for _ in range(len(alts) + 1))])
                        continue
                    if typ == "Flag":
                        rec["info"].append([k, None])
                    elif k == "AF":
                        rec["info"].append([k, ",".join(rng.choice(["0.5", "0.25", "0.125"]) for _ in alts)])
                    elif k == "XS":
                        rec["info"].append([k, ",".join(str(rng.randint(0, 9)) for _ in range(rng.randint(1, 3)))])
                    elif typ == "String":
                        rec["info"].append([k, rng.choice(["foo", "bar_baz", "x"])])
                    else:
                        rec["info"].append([k, str(rng.randint(1, 200))])
            if kind == "symbolic":
                # keep the file well-formed: symbolic alleles carry END, defined in the header
                info_defs["END"] = ["1", "Integer", "End position"]
                rec["info"].append(["END", str(pos + rng.randint(1, 20))])
            if rng.random() < no_gt_records:
                keys = [k for k in extra_f] or ["DP"]
                if "DP" not in fmt_defs:
                    fmt_defs["DP"] = STD_FORMAT["DP"]
            else:
                keys = ["GT"] + [k for k in extra_f if rng.random() < 0.8]
            this_ploidy = rng.choice(ploidies) if mixed_ploidy else ploidy
            calls = []
            used_tags = set()
            for s in samples:
                vals = {}
                gk = rng.choice(gt_kinds)
                if "GT" in keys:
                    gt = make_gt(rng, gk, len([a for a in alts]), this_ploidy)
                    al, _ = gt_alleles(gt)
                    is_het = al is not None and None not in al and len(set(al)) > 1
                    tag = sample_tag[s]
                    if tag and is_het and rng.random() < phase_prob:
                        # phased call: random allele order, block id = position of the block's first variant for that sample
                        order = al[:]
                        rng.shuffle(order)
                        if blocks_interleave:
                            b = rng.randrange(nblocks)
                        else:
                            b = min(nblocks - 1, i * nblocks // max(n, 1))
                        vals["__block"] = b
                        vals["__order"] = order
                        vals["__tag"] = tag
                        used_tags.add(tag)
                    vals["GT"] = gt
                for k in keys:
                    if k == "GT":
                        continue
                    if k == "AD":
                        vals[k] = ",".join(str(rng.randint(0, 30)) for _ in range(1 + len(alts))) if rng.random() < 0.8 else "."
                    elif k == "FT":
                        vals[k] = rng.choice(["PASS", "lowq", "."])
                    elif k == "PL":
                        vals[k] = "." if (len(alts) != 1 or this_ploidy != 2 or rng.random() < 0.3) else ",".join(str(rng.randint(0, 99)) for _ in range(3))
                    else:
                        vals[k] = str(rng.randint(1, 60)) if rng.random() < 0.85 else "."
                calls.append(vals)
            rec["format"] = keys
            rec["_calls"] = calls
            chrom_records.append(rec)
            if rng.random() < duplicates:
                # duplicate position: next record at the same position
                pass
            else:
                pos += rng.randint(*spacing)
        # resolve block ids -> PS values (first position of that block for that sample) and build call strings
        for si, s in enumerate(samples):
            first = {}
            for rec in chrom_records:
                v = rec["_calls"][si]
                if "__block" in v and v["__block"] not in first:
                    first[v["__block"]] = rec["pos"]
            seen_pos = set()
            for rec in chrom_records:
                v = rec["_calls"][si]
                if "__block" in v:
                    # a duplicated position cannot be phased twice in one sample
                    if rec["pos"] in seen_pos:
                        del v["__block"], v["__order"], v["__tag"]
                        continue
                    seen_pos.add(rec["pos"])
                    ps = first[v["__block"]]
                    if v["__tag"] == "PS":
                        v["GT"] = "|".join(map(str, v["__order"]))
                        v["PS"] = str(ps)
                    else:
                        # HP: GT stays unphased text in ascending order; HP lists block-haplotype per allele of the *phase order*
                        al = sorted(v["__order"])
                        v["GT"] = "/".join(map(str, al))
                        # haplotype index h carries allele order[h]; HP value i-th entry refers to i-th GT allele
                        hp = []
                        used = set()
                        for a in al:
                            h = [j for j, x in enumerate(v["__order"]) if x == a and j not in used][0]
                            used.add(h)
                            hp.append("%d-%d" % (ps, h + 1))
                        v["HP"] = ",".join(hp)
        for rec in chrom_records:
            tags = []
            for v in rec["_calls"]:
                for t in ("PS", "HP"):
                    if t in v and t not in tags:
                        tags.append(t)
            keys = rec["format"] + tags
            if "PQ" in fmt_defs and tags and rng.random() < 0.5:
                keys.append("PQ")
                for v in rec["_calls"]:
                    v["PQ"] = str(rng.randint(1, 50)) if ("PS" in v or "HP" in v) else "."
            rec["format"] = keys
            rec["calls"] = [[v.get(k, ".") for k in keys] for v in rec["_calls"]]
            rec["phase_truth"] = [{"block": v.get("__block"), "order": v.get("__order"), "tag": v.get("__tag")} for v in rec["_calls"]]
            del rec["_calls"]
            records.append(rec)
    defs = {"INFO": info_defs, "FORMAT": fmt_defs, "FILTER": filters}
    if missing_defs and rng.random() < missing_defs:
        # drop one definition that is used in the body
        cands = [k for k in fmt_defs if k not in ("GT", "PS", "HP")] + ["INFO:" + k for k in info_defs]
        if cands:
            k = rng.choice(cands)
            if k.startswith("INFO:"):
                del info_defs[k[5:]]
            else:
                del fmt_defs[k]
    extra = []
    if rng.random() < 0.5:
        extra.append("##source=verif-scenario")
    if phasing and rng.random() < 0.5:
        extra.append("##phasing=someothertool")
    if extra_info and rng.random() < 0.25:
        # an INFO field that shares its ID with a phase FORMAT tag and is not phase information (Platypus writes INFO/HP = homopolymer run length).
        # Drawn last so that the rest of a seed's scenario is what it was before this was added.
        k = rng.choice(["HP", "PS", "PQ"])
        if k not in info_defs:
            info_defs[k] = ["1", "Integer", "Not phase information: an INFO field called " + k]
            for rec in records:
                if rng.random() < 0.6:
                    rec["info"].append([k, str(rng.randint(1, 30))])
    return dict(contigs=contigs, samples=samples, defs=defs, extra_header=extra, records=records)
