#!/bin/bash
# MANIFEST.setup_cmd: build the overlay venv (offline) and warm the build cache of /repo's tree.
set -e
cd "$(dirname "$0")"
export PIP_NO_INDEX=1
if [ ! -x .venv/bin/python ] || ! .venv/bin/python -c "import z3, deal, icontract, crosshair, jsonschema, hypothesis" 2>/dev/null; then
  rm -rf .venv
  /venv/bin/python -m venv .venv
  .venv/bin/pip install -q --no-index --find-links /opt/veriftools/wheels z3-solver cvc5 crosshair-tool deal icontract hypothesis jsonschema >/dev/null
  SP=$(.venv/bin/python -c "import sysconfig;print(sysconfig.get_paths()['purelib'])")
  echo "import site; site.addsitedir('/venv/lib/python3.12/site-packages')" > "$SP/zz_repo_deps.pth"
fi
.venv/bin/python -c "import z3, cvc5, pysam, Cython, deal, icontract, jsonschema; print('venv ok', z3.get_version_string())"
.venv/bin/python tools/ensure_build.py >/dev/null
echo "setup done"
