#!/bin/bash
# confirm_seed.sh <prop> <k>: confirm a seeded change in the scratch worktree /tmp/wt/<prop>:
# builds, passes the suite (only the 3 known failures), demo fails with it and passes without. Writes /tmp/seed_out/<prop>/confirm<k>.txt
P=$1; K=$2; WT=${WTROOT:-/tmp/wt}/$P; OUT=${OUTROOT:-/tmp/seed_out}/$P; LOG=$OUT/confirm$K.txt
cd $WT || exit 2
git checkout -q -- . ; : > $LOG
git apply $OUT/patch$K.diff || { echo "APPLY-FAILED" >> $LOG; exit 1; }
if git diff --name-only | grep -qE '\.(pyx|pxd|cpp|h)$'; then /venv/bin/python setup.py build_ext --inplace -j8 > $OUT/confirm_build$K.log 2>&1 || { echo "BUILD-FAILED" >> $LOG; git checkout -q -- .; exit 1; }; NEEDBUILD=1; fi
echo "build ok" >> $LOG
/venv/bin/python -m pytest -q -p no:cacheprovider --timeout=900 --basetemp=/tmp/pt_$P$K 2>&1 | tail -8 >> $LOG
PYTHONPATH=$WT /venv/bin/python $OUT/demo$K.py > $OUT/confirm_demo_with$K.log 2>&1; echo "demo with change: exit $?" >> $LOG
git checkout -q -- .
if [ -n "$NEEDBUILD" ]; then /venv/bin/python setup.py build_ext --inplace -j8 > /dev/null 2>&1; fi
PYTHONPATH=$WT /venv/bin/python $OUT/demo$K.py > $OUT/confirm_demo_without$K.log 2>&1; echo "demo without change: exit $?" >> $LOG
rm -rf /tmp/pt_$P$K
cat $LOG
