#!/usr/bin/env python
"""Build /repo's *current working tree* into /verif/.cache/build/<hash>/ and print that path.

Never builds in /repo.  Mirrors setup.py: same extension list (parsed from setup.py's AST on
every run), -std=c++11, -UNDEBUG (C++ asserts live), include dir src/.  One g++ -c per
translation unit across all cores with a per-object cache keyed by (source text, all headers,
flags), so that a one-file edit recompiles one object.  Exit code 3 on any build failure.
"""
import ast
import fcntl
import hashlib
import os
import shutil
import subprocess
import sys
import sysconfig
from concurrent.futures import ThreadPoolExecutor

REPO = os.environ.get("VERIF_REPO", "/repo")
ROOT = os.path.dirname(os.path.dirname(os.path.abspath(__file__)))
CACHE = os.path.join(ROOT, ".cache")
PY = sys.executable
CXXFLAGS = ["-fPIC", "-O2", "-g0", "-fno-strict-overflow", "-std=c++11", "-UNDEBUG",
            "-Werror=return-type", "-Werror=narrowing", "-w"]


def sha(*chunks):
    h = hashlib.sha256()
    for c in chunks:
        h.update(c if isinstance(c, bytes) else c.encode())
        h.update(b"\0")
    return h.hexdigest()[:24]


def read(p):
    with open(p, "rb") as f:
        return f.read()


def walk(top, exts):
    out = []
    for d, dirs, files in os.walk(top):
        dirs[:] = [x for x in dirs if x not in ("__pycache__", "build", ".git")]
        for f in files:
            if f.endswith(exts):
                out.append(os.path.join(d, f))
    return sorted(out)


def extensions_from_setup():
    """[(name, [sources])] read from setup.py's AST (CppExtension(...) calls)."""
    tree = ast.parse(read(os.path.join(REPO, "setup.py")))
    exts = []
    for node in ast.walk(tree):
        if isinstance(node, ast.Call) and getattr(node.func, "id", None) == "CppExtension":
            name = ast.literal_eval(node.args[0])
            srcs = None
            for kw in node.keywords:
                if kw.arg == "sources":
                    srcs = ast.literal_eval(kw.value)
            if srcs is None and len(node.args) > 1:
                srcs = ast.literal_eval(node.args[1])
            exts.append((name, srcs))
    if not exts:
        raise SystemExit("ensure_build: no extensions found in setup.py")
    return exts


def tree_hash():
    files = [os.path.join(REPO, "setup.py")]
    files += walk(os.path.join(REPO, "whatshap"), (".py", ".pyx", ".pxd"))
    files += walk(os.path.join(REPO, "src"), (".cpp", ".h", ".hpp"))
    files = [f for f in files if not f.endswith("_version.py")]
    return sha(*[f[len(REPO):] + "\n" + read(f).decode("latin1") for f in files], " ".join(CXXFLAGS)), files


def run(cmd, cwd=None):
    p = subprocess.run(cmd, cwd=cwd, stdout=subprocess.PIPE, stderr=subprocess.STDOUT, text=True)
    if p.returncode != 0:
        sys.stderr.write("BUILD-FAILURE: %s\n%s\n" % (" ".join(cmd), p.stdout[-4000:]))
        raise SystemExit(3)
    return p.stdout


def build():
    h, files = tree_hash()
    out = os.path.join(CACHE, "build", h)
    if os.path.exists(os.path.join(out, ".ok")):
        return out
    os.makedirs(os.path.join(CACHE, "obj"), exist_ok=True)
    os.makedirs(os.path.join(CACHE, "cy"), exist_ok=True)
    tmp = out + ".tmp%d" % os.getpid()
    shutil.rmtree(tmp, ignore_errors=True)
    # 1. pure sources (copies, so that later edits in /repo do not leak into a cached build)
    for f in walk(os.path.join(REPO, "whatshap"), (".py", ".pyx", ".pxd", ".pyi")):
        dst = os.path.join(tmp, f[len(REPO) + 1:])
        os.makedirs(os.path.dirname(dst), exist_ok=True)
        shutil.copyfile(f, dst)
    vfile = os.path.join(tmp, "whatshap", "_version.py")
    if not os.path.exists(vfile):
        with open(vfile, "w") as f:
            f.write("__version__ = version = '0+verif'\n")
    exts = extensions_from_setup()
    pxds = "".join(read(f).decode("latin1") for f in walk(os.path.join(REPO, "whatshap"), (".pxd",)))
    hdrs = "".join(f + read(f).decode("latin1") for f in walk(os.path.join(REPO, "src"), (".h", ".hpp")))
    inc = sysconfig.get_config_var("INCLUDEPY")
    import Cython
    jobs = []  # (objfile, cmd or None)
    link = []
    for name, srcs in exts:
        objs = []
        for s in srcs:
            sp = os.path.join(REPO, s)
            if s.endswith(".pyx"):
                key = sha("cy", Cython.__version__, s, read(sp), pxds)
                cpp = os.path.join(CACHE, "cy", key + ".cpp")
                if not os.path.exists(cpp):
                    # cythonize inside the copied tree so that cimports resolve exactly as in setup.py
                    run([PY, "-m", "cython", "--cplus", "-I", ".", s, "-o", cpp + ".part.cpp"], cwd=tmp)
                    os.replace(cpp + ".part.cpp", cpp)
                src = cpp
                okey = sha("obj", read(cpp), hdrs, " ".join(CXXFLAGS), inc)
            else:
                src = sp
                okey = sha("obj", s, read(sp), hdrs, " ".join(CXXFLAGS))
            obj = os.path.join(CACHE, "obj", okey + ".o")
            cmd = None
            if not os.path.exists(obj):
                cmd = ["g++"] + CXXFLAGS + ["-I", os.path.join(REPO, "src"), "-I", os.path.join(REPO, "whatshap"),
                                             "-I", inc, "-c", src, "-o", obj + ".part%d" % os.getpid()]
            jobs.append((obj, cmd))
            objs.append(obj)
        link.append((name, objs))

    def compile_one(job):
        obj, cmd = job
        if cmd is not None:
            run(cmd, cwd=REPO)
            os.replace(cmd[-1], obj)
    # big cythonized units first
    jobs.sort(key=lambda j: -os.path.getsize(j[1][-3]) if j[1] else 0)
    with ThreadPoolExecutor(max_workers=os.cpu_count() or 4) as ex:
        list(ex.map(compile_one, jobs))
    suffix = sysconfig.get_config_var("EXT_SUFFIX")
    for name, objs in link:
        target = os.path.join(tmp, *name.split(".")) + suffix
        run(["g++", "-shared"] + objs + ["-o", target])
    with open(os.path.join(tmp, ".ok"), "w") as f:
        f.write(h + "\n")
    shutil.rmtree(out, ignore_errors=True)
    os.replace(tmp, out)
    prune(os.path.join(CACHE, "build"), keep=6)
    return out


def prune(d, keep):
    ents = [os.path.join(d, e) for e in os.listdir(d)]
    ents.sort(key=os.path.getmtime, reverse=True)
    for e in ents[keep:]:
        shutil.rmtree(e, ignore_errors=True)


def main():
    os.makedirs(CACHE, exist_ok=True)
    with open(os.path.join(CACHE, "build.lock"), "w") as lock:
        fcntl.flock(lock, fcntl.LOCK_EX)
        out = build()
    print(out)


if __name__ == "__main__":
    main()
