#!/usr/bin/env python3
"""Regenerate MANIFEST.json from props/*.py metadata (LEVEL, LEVEL_TEXT, LEVEL_NOTE, TECHNIQUE) and NOT_APPLICABLE below."""
import ast, json, os, sys
ROOT = os.path.dirname(os.path.dirname(os.path.abspath(__file__)))
ALL = [json.loads(l)["id"] for l in open(os.path.join(ROOT, "properties.jsonl"))]

NOT_APPLICABLE = {
    "C16": "2-safety over schedules/interpreter configurations (PYTHONHASHSEED, worker processes, compression threads): no pre/postcondition of one call "
           "in one process can mention them and this family has no handle on multiprocessing; see DESIGN.md section 5.",
}
NOT_YET = "check not built yet in this session (contract-based check planned in DESIGN.md section 3); not claimed"

def meta(pid):
    p = os.path.join(ROOT, "props", pid + ".py")
    if not os.path.exists(p):
        return None
    tree = ast.parse(open(p).read())
    m = {}
    for n in tree.body:
        if isinstance(n, ast.Assign) and isinstance(n.targets[0], ast.Name) and n.targets[0].id in ("LEVEL", "LEVEL_TEXT", "LEVEL_NOTE", "TECHNIQUE", "DESIGN_REF", "ENABLED"):
            try:
                m[n.targets[0].id] = ast.literal_eval(n.value)
            except Exception:
                pass
    return m

checks, na = [], []
for pid in ALL:
    m = meta(pid)
    if pid in NOT_APPLICABLE:
        na.append(dict(property_id=pid, reason=NOT_APPLICABLE[pid])); continue
    if m is None or not m.get("ENABLED", True):
        na.append(dict(property_id=pid, reason=NOT_YET)); continue
    checks.append(dict(
        property_id=pid,
        quick_cmd="./check %s --tier quick" % pid,
        thorough_cmd="./check %s --tier thorough" % pid,
        evidence_file="evidence/%s.json" % pid,
        replay_cmd_template="./check %s --replay {path}" % pid,
        engine="vcgen+runtime-contracts",
        level_claimed=dict(category=m.get("LEVEL", "other"), text=m.get("LEVEL_TEXT", ""), design_ref=m.get("DESIGN_REF", "DESIGN.md section 3, " + pid)),
        level_note=m.get("LEVEL_NOTE", ""),
        technique=m.get("TECHNIQUE", "contract-based deductive verification (own VC generator over the real source, z3/cvc5) + bounded runtime-contract stand-in"),
    ))
man = dict(
    version=1,
    setup_cmd="./setup.sh",
    hooks=dict(guard="WHATSHAP_VERIF", enable="no source hooks are needed: contracts are sidecar files, wrappers are substituted through module globals inside the check process; "
               "checks build /repo's working tree into /verif/.cache/build/<hash> (tools/ensure_build.py) and import whatshap from there",
               baseline_off_cmd="cd /repo && /venv/bin/python -m pytest -ra -q -p no:cacheprovider --timeout=900 --continue-on-collection-errors",
               source_commits=[], add_only=True),
    engines=[
        dict(name="vcgen", path="vcgen/", serves_properties=[c["property_id"] for c in checks],
             kind_free_text="verification-condition generator: re-parses /repo sources (python ast / Cython parser / clang JSON AST) on every run, modular symbolic execution against sidecar contracts in contracts/, obligations discharged by z3 and cvc5"),
        dict(name="runtime-contracts", path="props/ harness/ runtime/", serves_properties=[c["property_id"] for c in checks],
             kind_free_text="bounded stand-in: the same contracts stated on the real (compiled) callables and checked at run time over exhaustive small-scope enumeration and seeded sampling with independent oracles"),
    ],
    checks=checks,
    not_applicable=na,
    notes="See DESIGN.md. Exit codes: 0 held, 1 VIOLATION line(s), 3 machinery error. known_findings.json lists genuine defects that are recorded rather than repaired.",
)
json.dump(man, open(os.path.join(ROOT, "MANIFEST.json"), "w"), indent=1)
print("checks:", [c["property_id"] for c in checks], "na:", len(na))
