#!/bin/bash
# keep_seed.sh <prop> <k> : copy a confirmed seeded change into /verif/seeded/<prop>-<k>/
P=$1; K=$2; SRC=${OUTROOT:-/tmp/seed_out}/$P; DST=/verif/seeded/$P-${KOUT:-$K}
[ -f $SRC/confirm$K.txt ] || { echo "not confirmed: $P $K"; exit 1; }
grep -q "demo with change: exit 1" $SRC/confirm$K.txt && grep -q "demo without change: exit 0" $SRC/confirm$K.txt && grep -q "3 failed, 430 passed" $SRC/confirm$K.txt || { echo "confirmation incomplete: $P $K"; cat $SRC/confirm$K.txt; exit 1; }
mkdir -p $DST; cp $SRC/patch$K.diff $DST/patch.diff; cp $SRC/demo$K.py $DST/demo.py; cp $SRC/notes$K.md $DST/notes.md
python3 - "$P" "$K" "$SRC" "$DST" <<'PY'
import json,sys,re
P,K,SRC,DST=sys.argv[1:]
notes=open(SRC+'/notes%s.md'%K).read()
meta=dict(property=P, breaks=P, source="independent sub-agent given only the property text and a scratch worktree",
          needs_to_manifest="see notes.md (written by the sub-agent)",
          confirmed_by=["git apply in a scratch worktree of /repo; rebuild if .pyx/.cpp changed",
                        "full test suite serially: 430 passed, only the 3 known test_vcf_with_missing_headers failures",
                        "demo.py exits 1 with the change and 0 without it"],
          confirm_log=open(SRC+'/confirm%s.txt'%K).read()[-600:],
          files_touched=sorted(set(re.findall(r'^\+\+\+ b/(\S+)', open(SRC+'/patch%s.diff'%K).read(), re.M))),
          detected_by=None)
json.dump(meta, open(DST+'/meta.json','w'), indent=1)
PY
echo kept $DST
