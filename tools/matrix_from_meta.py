#!/usr/bin/env python3
"""Rewrite seeded/MATRIX.md from the check results recorded in seeded/*/meta.json (tools/seed_matrix.py writes those)."""
import json, os
ROOT = os.path.dirname(os.path.dirname(os.path.abspath(__file__)))
rows = []
for name in sorted(os.listdir(os.path.join(ROOT, "seeded"))):
    mp = os.path.join(ROOT, "seeded", name, "meta.json")
    if not os.path.exists(mp):
        continue
    m = json.load(open(mp))
    cr = m.get("check_result")
    if not isinstance(cr, dict):
        rows.append((name, m.get("property", name.split("-")[0]), "not applicable: " + str(m.get("status") or cr)[:160], ""))
        continue
    other = m.get("detected_by_other_property_checks") or []
    verdict = "DETECTED" if cr.get("detected") else (("missed by its own check; detected by the check of %s" % ", ".join(other)) if other else "missed (exit %s)" % cr.get("exit"))
    rows.append((name, m.get("property", name.split("-")[0]), verdict, ", ".join(m.get("detected_by") or [])))
with open(os.path.join(ROOT, "seeded", "MATRIX.md"), "w") as f:
    f.write("# Seeded changes vs. checks (results recorded by tools/seed_matrix.py in each meta.json)\n\n| seed | property | quick check | caught by |\n|---|---|---|---|\n")
    for r in rows:
        f.write("| %s | %s | %s | %s |\n" % r)
print(len(rows), "rows;", sum(1 for r in rows if r[2] == "DETECTED"), "detected")
