#!/usr/bin/env python
"""Record, per property, the obligation clauses that discharge on the tree as it is now (run on the unchanged / repaired tree only):
expected_obligations.json.  A clause listed here that is refuted on a later tree is reported as a violation; a clause not listed is
only ever 'undecided'."""
import importlib, json, os, sys
ROOT = os.path.dirname(os.path.dirname(os.path.abspath(__file__)))
sys.path.insert(0, ROOT)
from harness import runner
props = sys.argv[1:] or sorted(f[:-3] for f in os.listdir(os.path.join(ROOT, "props")) if f.startswith("C") and f.endswith(".py"))
path = os.path.join(ROOT, "expected_obligations.json")
data = json.load(open(path)) if os.path.exists(path) else {}
for p in props:
    mod = importlib.import_module("props." + p)
    if not getattr(mod, "D_MODULES", []):
        data.pop(p, None)
        continue
    res = runner.run_deductive(mod, p)
    dis, other, hashes = [], [], {}
    for r in res:
        for c in r["clauses"]:
            (dis if c["verdict"] == "discharged" else other).append(c["name"])
        for f in r.get("functions", []):
            if f.get("source_hash"):
                hashes[f["function"]] = f["source_hash"]
    data[p] = dict(discharged=sorted(dis), not_discharged=sorted(other), finite_unusable=[], function_hashes=hashes)
    print(p, "discharged clauses:", len(dis), "not discharged:", other)
json.dump(data, open(path, "w"), indent=1, sort_keys=True)
