#!/bin/bash
# try_seed.sh <patch> <prop> [<prop>...]: apply a seeded change to /repo, run the quick checks, undo it straight afterwards.
PATCH=$1; shift
git -C /repo diff --quiet || { echo "/repo has local changes; refusing"; exit 2; }
git -C /repo apply $PATCH || { echo "patch does not apply"; exit 2; }
trap 'git -C /repo checkout -- .' EXIT
for p in "$@"; do echo "== $p with $(basename $(dirname $PATCH))/$(basename $PATCH)"; /verif/check $p ${TIER:+--tier $TIER} 2>&1 | grep -E "^(VIOLATION|KNOWN|UNDECIDED|MACHINERY|OBLIGATION-FAILED|SUMMARY)" | cut -c1-400; echo "exit=${PIPESTATUS[0]}"; done
