"""Contract registry and the helpers contract files use."""
import ast
import hashlib
import os

from .values import *  # noqa
from .engine import Contract

REPO = os.environ.get("VERIF_REPO", "/repo")


class GHOST:
    def __init__(self, sort):
        self.sort = sort


class Registry:
    """All contracts of one contract module (one target source file)."""

    def __init__(self, file, lang="python"):
        self.file = file
        self.lang = lang
        self.classes = {}          # cls -> {field: Sort}
        self.ghost_fields = set()  # "Cls.field"
        self.ctor_fields = {}      # cls -> [fields in constructor argument order]
        self.ctor_defaults = {}    # cls -> {field: default value}
        self.contracts = {}        # qualname -> Contract
        self.spec_functions = {}   # name -> callable(eng, st, *args)
        self.store_hooks = {}      # "Cls.field" -> callable(eng, st, obj, old, new)
        self.ghost_deps = {}       # "Cls.field" -> ["Cls.ghostfield", ...] (havocked together)
        self.constants = {}
        self.external_models = {}  # function name -> callable(eng, st, node, args, kwargs)
        self.callee_map = {}       # (caller qualname or "*", call name) -> callee qualname
        self.client_lemmas = {}    # qualname -> source text of a client function of contracts (verified modularly: a lemma over the callees' contracts)
        self.lemma_canaries = []   # (name, callable() -> (hyp, {goal name: false statement})): must NOT be discharged
        self.lemmas = []           # (name, props, callable() -> (assumptions list, goal)) -- L obligations over contracts
        self.canaries = []         # (name, callable(registry) -> Contract variant that must be refuted, clause name)
        self.named_sorts = {}
        self.ctypes = {}           # C type name -> Sort (Cython front end)
        self.order_keys = {}       # cls -> field by which objects of that class are ordered (<, >)
        self.pointees = set()      # classes that model the target of a C pointer (ptr[0] dereferences)
        self.ghost_init = {}       # cls -> callable(eng, st, obj): initial values of ghost fields of a freshly constructed object
        self.iter_fields = {}      # cls -> list field that `for x in obj` iterates over
        self.imported = {}         # qualname -> contract module where the imported contract is proved
        self.iterator_models = {}  # cls -> (items field, cursor field): an iterator OBJECT over a sequence; a for loop over it consumes (advances the cursor)
        self.object_models = {}    # cls -> object with optional hooks getattr/setattr/getitem/setitem/contains/method (axiomatised library objects)

    def import_proved(self, other, modname, names):
        """Use contracts proved in another contract module at call sites of this one (modular reasoning across files): the
        classes, ghost fields, spec functions and store hooks they talk about are shared, the contracts are marked assumed *here*
        and recorded with the module that discharges them."""
        for cls, f in other.classes.items():
            self.classes.setdefault(cls, f)
            self.named_sorts.setdefault(cls, REF(cls))
        self.ghost_fields |= other.ghost_fields
        for k in ("ctor_fields", "ctor_defaults", "spec_functions", "store_hooks", "ghost_deps", "ghost_init", "iter_fields", "order_keys", "object_models",
                  "external_models", "constants", "ctypes", "iterator_models"):
            for a, b in getattr(other, k).items():
                getattr(self, k).setdefault(a, b)
        self.pointees |= other.pointees
        import copy
        for q in names:
            c = copy.copy(other.contracts[q])
            c.assumed = True
            c.proved_in = modname
            self.contracts[q] = c
            self.imported[q] = modname

    def declare_class(self, cls, fields, ctor=None):
        d = {}
        for f, s in fields.items():
            if isinstance(s, GHOST):
                self.ghost_fields.add("%s.%s" % (cls, f))
                s = s.sort
            d[f] = s
        self.classes[cls] = d
        if ctor is not None:
            self.ctor_fields[cls] = ctor
        self.named_sorts[cls] = REF(cls)

    def is_pointee(self, cls):
        return cls in self.pointees

    def is_ghost(self, cls, field):
        return "%s.%s" % (cls, field) in self.ghost_fields

    def sort_by_name(self, name):
        if name in self.named_sorts:
            return self.named_sorts[name]
        if name == "Int":
            return INT
        raise Unsupported("unknown sort name %s" % name)

    def contract(self, qualname, **kw):
        c = Contract(self.file, qualname, lang=self.lang, **kw)
        self.contracts[qualname] = c
        return c

    def spec(self, fn):
        self.spec_functions[fn.__name__] = fn
        return fn

    def on_store(self, key, deps=()):
        def deco(fn):
            self.store_hooks[key] = fn
            self.ghost_deps[key] = list(deps)
            return fn
        return deco

    def lookup_callee(self, file, caller, name):
        q = self.callee_map.get((caller, name)) or self.callee_map.get(("*", name))
        if q is not None:
            return self.contracts.get(q)
        # method of the same class first, then module-level function, then unique suffix match
        for sep in (".", "::"):
            if sep in caller:
                cls = caller.rsplit(sep, 1)[0]
                c = self.contracts.get("%s%s%s" % (cls, sep, name))
                if c is not None:
                    return c
        if name in self.contracts:
            return self.contracts[name]
        cands = [c for q, c in self.contracts.items() if q.split(".")[-1] == name or q.split("::")[-1] == name]
        if len(cands) == 1:
            return cands[0]
        return None


class PySource:
    """Python front end: the functions of one file of /repo's working tree, re-read on every run."""

    def __init__(self, relpath, repo=None):
        self.path = os.path.join(repo or REPO, relpath)
        with open(self.path, "rb") as f:
            data = f.read()
        self.sha = hashlib.sha256(data).hexdigest()[:16]
        self.text = data.decode()
        self.tree = ast.parse(self.text)
        self.functions = {}
        self._collect(self.tree.body, "")

    def _collect(self, body, prefix):
        for n in body:
            if isinstance(n, (ast.FunctionDef, ast.AsyncFunctionDef)):
                self.functions[prefix + n.name] = n
                self._collect(n.body, prefix + n.name + ".")
            elif isinstance(n, ast.ClassDef):
                self._collect(n.body, prefix + n.name + ".")
            elif isinstance(n, (ast.If, ast.Try, ast.With)):
                self._collect(getattr(n, "body", []), prefix)
                self._collect(getattr(n, "orelse", []), prefix)

    def fn_hash(self, qualname):
        n = self.functions.get(qualname)
        if n is None:
            return None
        return hashlib.sha256(ast.dump(n).encode()).hexdigest()[:12]
