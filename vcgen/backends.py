"""Discharge obligations: each is a standalone SMT-LIB problem; 16 worker processes; z3 first, then cvc5,
then z3 with a second configuration.  `unsat` on any back end = discharged; `sat` = refuted (with model);
everything else = undecided (never mapped to a violation)."""
import os
import subprocess
import tempfile
import time
from concurrent.futures import ProcessPoolExecutor

Z3_MS = int(os.environ.get("VCGEN_Z3_MS", "10000"))
CVC5_MS = int(os.environ.get("VCGEN_CVC5_MS", "15000"))
Z3B_MS = int(os.environ.get("VCGEN_Z3B_MS", "20000"))
SEED_MS = int(os.environ.get("VCGEN_SEED_MS", "4000"))
FIN_MS = int(os.environ.get("VCGEN_FIN_MS", "20000"))


def _z3_check(smt2, ms, tweak):
    import z3
    ctx = z3.Context()
    s = z3.Solver(ctx=ctx)
    s.set("timeout", ms)
    if tweak == 1:
        s.set("smt.mbqi", False)
        s.set("smt.auto_config", False)
    elif tweak >= 10:
        s.set("smt.random_seed", tweak)       # same problem, other search order: quantifier instantiation is order-sensitive
    s.from_string(smt2)
    t = time.time()
    r = s.check()
    dt = time.time() - t
    model = ""
    if r == z3.sat:
        try:
            model = str(s.model())[:6000]
        except Exception:
            model = "<model unavailable>"
    reason = s.reason_unknown() if r == z3.unknown else ""
    return str(r), dt, model, reason


def _cvc5_check(smt2, ms):
    with tempfile.NamedTemporaryFile("w", suffix=".smt2", delete=False) as f:
        f.write("(set-logic ALL)\n" + smt2)
        path = f.name
    t = time.time()
    try:
        p = subprocess.run(["/usr/bin/cvc5", "--tlimit=%d" % ms, "--strings-exp", "--lang=smt2", path],
                           stdout=subprocess.PIPE, stderr=subprocess.PIPE, text=True, timeout=ms / 1000 + 10)
        out = p.stdout.strip().split("\n")[0] if p.stdout.strip() else "unknown"
    except Exception:
        out = "unknown"
    finally:
        os.unlink(path)
    if out not in ("sat", "unsat"):
        out = "unknown"
    return out, time.time() - t


def solve_canary(job):
    """A canary clause is expected to be false: short complete attempt, then the finite-instance refuter straight away."""
    name, smt2 = job
    log = []
    try:
        r, dt, model, reason = _z3_check(smt2, min(Z3_MS, 5000), 0)
    except Exception as e:
        return dict(name=name, verdict="error", backend="z3", seconds=0.0, model="", log=[repr(e)[:300]])
    total = dt
    log.append("z3:%s:%.2fs" % (r, dt))
    if r == "unsat":
        return dict(name=name, verdict="discharged", backend="z3", seconds=total, model="", log=log)
    if r == "sat":
        return dict(name=name, verdict="refuted", backend="z3", seconds=total, model=model, log=log)
    try:
        from . import refute
        for n in (2, 3):
            rf, dtf, mf = refute.finite_instance_check(smt2, n=n, timeout_ms=FIN_MS)
            total += dtf
            log.append("finite-instance(N=%d):%s:%.2fs" % (n, rf, dtf))
            if rf == "sat":
                return dict(name=name, verdict="refuted-finite", backend="z3-finite-instance(N=%d)" % n, seconds=total, model=mf, log=log)
            if rf == "unknown":
                break
    except Exception as e:
        log.append("finite-instance:error:%r" % (e,))
    r2, dt2 = _cvc5_check(smt2, min(CVC5_MS, 5000))
    total += dt2
    log.append("cvc5:%s:%.2fs" % (r2, dt2))
    if r2 == "unsat":
        return dict(name=name, verdict="discharged", backend="cvc5", seconds=total, model="", log=log)
    return dict(name=name, verdict="undecided", backend="-", seconds=total, model="", log=log)


def solve_one(job):
    name, smt2 = job
    log = []
    total = 0.0
    # portfolio, cheapest first: z3 briefly; z3 with E-matching only (most quantified obligations carry usable triggers); then z3 with the full budget
    try:
        r, dt, model, reason = _z3_check(smt2, min(Z3_MS, 2500), 0)
    except Exception as e:  # parse error etc: undecided, reported
        return dict(name=name, verdict="error", backend="z3", seconds=0.0, model="", log=[repr(e)[:300]])
    total += dt
    log.append("z3:%s:%.2fs%s" % (r, dt, (":" + reason) if reason else ""))
    if r == "unsat":
        return dict(name=name, verdict="discharged", backend="z3", seconds=total, model="", log=log)
    if r == "sat":
        return dict(name=name, verdict="refuted", backend="z3", seconds=total, model=model, log=log)
    try:
        r0, dt0, _m0, _ = _z3_check(smt2, min(Z3B_MS, 5000), 1)
    except Exception:
        r0, dt0 = "unknown", 0.0
    total += dt0
    log.append("z3-nombqi:%s:%.2fs" % (r0, dt0))
    if r0 == "unsat":
        return dict(name=name, verdict="discharged", backend="z3-nombqi", seconds=total, model="", log=log)
    if Z3_MS > 2500:
        r, dt, model, reason = _z3_check(smt2, Z3_MS, 0)
        total += dt
        log.append("z3:%s:%.2fs%s" % (r, dt, (":" + reason) if reason else ""))
        if r == "unsat":
            return dict(name=name, verdict="discharged", backend="z3", seconds=total, model="", log=log)
        if r == "sat":
            return dict(name=name, verdict="refuted", backend="z3", seconds=total, model=model, log=log)
    r2, dt2 = _cvc5_check(smt2, CVC5_MS)
    total += dt2
    log.append("cvc5:%s:%.2fs" % (r2, dt2))
    if r2 == "unsat":
        return dict(name=name, verdict="discharged", backend="cvc5", seconds=total, model="", log=log)
    try:
        r3, dt3, model, reason = _z3_check(smt2, Z3B_MS, 1)
    except Exception as e:
        r3, dt3, model = "unknown", 0.0, ""
    total += dt3
    log.append("z3-nombqi:%s:%.2fs" % (r3, dt3))
    if r3 == "unsat":
        return dict(name=name, verdict="discharged", backend="z3-nombqi", seconds=total, model="", log=log)
    if r3 != "sat" and r2 != "sat":
        for seed in (12, 17):
            try:
                r4, dt4, _m, _ = _z3_check(smt2, SEED_MS, seed)
            except Exception:
                r4, dt4 = "unknown", 0.0
            total += dt4
            log.append("z3-seed%d:%s:%.2fs" % (seed, r4, dt4))
            if r4 == "unsat":
                return dict(name=name, verdict="discharged", backend="z3-seed%d" % seed, seconds=total, model="", log=log)
    if r3 == "sat" or r2 == "sat":
        return dict(name=name, verdict="refuted", backend="z3-nombqi" if r3 == "sat" else "cvc5", seconds=total, model=model, log=log)
    # finite-instance counter-model search (candidate refutation; see refute.py)
    try:
        from . import refute
        for n in (2, 3):
            rf, dtf, mf = refute.finite_instance_check(smt2, n=n, timeout_ms=FIN_MS)
            total += dtf
            log.append("finite-instance(N=%d):%s:%.2fs" % (n, rf, dtf))
            if rf == "sat":
                return dict(name=name, verdict="refuted-finite", backend="z3-finite-instance(N=%d)" % n, seconds=total, model=mf, log=log)
            if rf == "unknown":
                break
    except Exception as e:
        log.append("finite-instance:error:%r" % (e,))
    return dict(name=name, verdict="undecided", backend="-", seconds=total, model="", log=log)


def discharge(obligations, workers=None, canary=False):
    """obligations: list of engine.Obligation. Returns list of result dicts in the same order."""
    jobs = [(o.name + " [" + o.note + "]", o.smt2()) for o in obligations]
    workers = workers or min(16, os.cpu_count() or 4)
    fn = solve_canary if canary else solve_one
    if not jobs:
        return []
    if len(jobs) <= 2:
        return [fn(j) for j in jobs]
    try:
        with ProcessPoolExecutor(max_workers=workers) as ex:
            return list(ex.map(fn, jobs, chunksize=1))
    except Exception:
        # a solver process died (z3 can crash natively): isolate -- every job again in a pool of its own, a job whose solver dies is undecided
        out = []
        for j in jobs:
            try:
                with ProcessPoolExecutor(max_workers=1) as ex:
                    out.append(ex.submit(fn, j).result())
            except Exception as e:      # noqa: BLE001
                out.append(dict(name=j[0], verdict="undecided", backend="-", seconds=0.0, model="", log=["solver process died: %r" % (e,)]))
        return out
