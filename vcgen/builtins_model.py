"""Call semantics: spec special forms, Python builtins, container methods, constructors, modular calls."""
import ast
import z3

from .values import *  # noqa
from .engine import as_bool, State, Flow, is_numlike, is_z3int


def call(eng, node, st):
    f = node.func
    # ------------------------------------------------------------- logging & friends: pure, skipped
    if isinstance(f, ast.Attribute) and isinstance(f.value, ast.Name) and f.value.id in ("logger", "logging", "warnings"):
        return NONE
    if isinstance(f, ast.Name) and isinstance(st.env.get(f.id), VModel) and hasattr(st.env[f.id], "sym_call"):
        return st.env[f.id].sym_call(eng, st, [eng.eval(a, st) for a in node.args], {k.arg: eng.eval(k.value, st) for k in node.keywords})
    if isinstance(f, ast.Name):
        name = f.id
        if eng.spec_mode:
            r = spec_form(eng, name, node, st)
            if r is not NotImplemented:
                return r
        if name in eng.reg.external_models and name not in st.env:
            args = [eng.eval(a, st) for a in node.args]
            kwargs = {k.arg: eng.eval(k.value, st) for k in node.keywords}
            return eng.reg.external_models[name](eng, st, node, args, kwargs)
        b = BUILTINS.get(name)
        if b is not None and name not in st.env:
            return b(eng, node, st)
        if name in eng.reg.classes and name not in st.env:
            return construct(eng, name, node, st)
    if isinstance(f, ast.Attribute) and isinstance(f.value, ast.Name) and f.value.id == "itertools" and f.attr == "count" and "itertools" not in st.env:
        a = [eng.eval(x, st) for x in node.args]
        return VCount(a[0] if a else z3.IntVal(0), a[1] if len(a) > 1 else z3.IntVal(1))
    if isinstance(f, ast.Attribute):
        # method on a value?
        recv_node = f.value
        # self.method(...) / module-level function with contract
        cc = eng.resolve_contract(node, st)
        if cc is None:
            recv = eng.eval(recv_node, st)
            return method_call(eng, recv, recv_node, f.attr, node, st)
        recv = eng.eval(recv_node, st)
        if isinstance(recv, VRef) and list(cc.params)[:1] == ["self"]:
            args = [recv] + [eng.eval(a, st) for a in node.args]
        elif isinstance(recv, VRef) or isinstance(recv, VModel):
            return method_call(eng, recv, recv_node, f.attr, node, st)
        else:
            return method_call(eng, recv, recv_node, f.attr, node, st)
        return do_contract_call(eng, cc, args, st, node)
    cc = eng.resolve_contract(node, st)
    if cc is not None:
        args = [eng.eval(a, st) for a in node.args]
        if node.keywords:
            names = list(cc.params)
            for kw in node.keywords:
                if kw.arg not in names:
                    raise Unsupported("keyword %s in call of %s" % (kw.arg, cc.qualname))
            kwv = {kw.arg: eng.eval(kw.value, st) for kw in node.keywords}
            rest = names[len(args):]
            for n in rest:
                if n not in kwv:
                    raise Unsupported("missing argument %s (defaults are not modelled)" % n)
                args.append(kwv[n])
        return do_contract_call(eng, cc, args, st, node)
    raise Unsupported("call of %s at line %s" % (ast.unparse(f), getattr(node, "lineno", "?")))


def do_contract_call(eng, cc, args, st, node):
    names = list(cc.params)
    if len(args) < len(names) and cc.extra.get("defaults"):
        # trailing parameters left out at the call: their default values as declared in the contract (checked against the source when the callee is verified:
        # see Engine.verify) -- Python evaluates defaults once, at definition time; only constants are accepted
        args = list(args)
        for n in names[len(args):]:
            if n not in cc.extra["defaults"]:
                break
            args.append(cc.extra["defaults"][n])
    if getattr(eng, "concrete", False) and not eng.spec_mode:
        return concrete_call(eng, cc, args, st, node)
    if cc.inline and not eng.spec_mode:
        return inline_call(eng, cc, args, st, node)
    if eng.spec_mode:
        # pure function used inside a spec: result constrained by its ensures
        pass
    return eng.call_contract(cc, args, st, node)


def concrete_call(eng, cc, args, st, node):
    """concrete cross-check run: a callee of the same file is executed, not replaced by its contract"""
    src, reg = eng.src, eng.reg
    home = getattr(cc, "proved_in", None)
    if home is not None:
        # a contract imported from another contract module: its body is executed in that module's registry and source file
        import importlib
        cache = eng.__dict__.setdefault("_other_sources", {})
        if home not in cache:
            hreg = importlib.import_module(home).R
            if hreg.lang != "python":
                raise Unsupported("concrete run: callee %s lives in a non-Python file" % cc.qualname)
            from .api import PySource
            cache[home] = (PySource(hreg.file), hreg)
        src, reg = cache[home]
        cc = reg.contracts[cc.qualname]
    fn = src.functions.get(cc.extra.get("target", cc.qualname))
    if fn is None:
        raise Unsupported("concrete run: callee %s not found" % cc.qualname)
    if cc.extra.get("desugar_comprehensions"):
        from .engine import desugar_comprehensions
        fn = desugar_comprehensions(fn)
    saved_env, saved_fn, saved_contract, saved_src, saved_reg, saved_file = st.env, eng.fn, eng.contract, eng.src, eng.reg, eng.file
    st.env = {a.arg: v for a, v in zip(fn.args.args, args)}
    eng.fn, eng.contract, eng.src, eng.reg, eng.file = fn, cc, src, reg, reg.file
    try:
        outs = list(eng.exec_block(fn.body, st))
    finally:
        eng.fn, eng.contract, eng.src, eng.reg, eng.file = saved_fn, saved_contract, saved_src, saved_reg, saved_file
    if len(outs) != 1:
        raise Unsupported("concrete run forked in %s" % cc.qualname)
    s1, flow = outs[0]
    s1.env = saved_env
    if flow[0] == Flow.RAISE:
        from .engine import ConcreteRaise
        raise ConcreteRaise("raise", flow[1])
    return flow[1] if flow[0] == Flow.RETURN else NONE


def inline_call(eng, cc, args, st, node):
    fn = eng.src.functions.get(cc.qualname)
    if fn is None:
        raise Unsupported("inline callee %s not found" % cc.qualname)
    saved_env = st.env
    st.env = {}
    for a, v in zip(fn.args.args, args):
        st.env[a.arg] = v
    results = list(eng.exec_block(fn.body, st))
    if len(results) != 1:
        raise Unsupported("inline callee %s has %d paths (only straight-line helpers are inlined)" % (cc.qualname, len(results)))
    s1, flow = results[0]
    if s1 is not st:
        raise Unsupported("inline callee forked")
    st.env = saved_env
    if flow[0] == Flow.RETURN:
        return flow[1]
    if flow[0] == Flow.NEXT:
        return NONE
    raise Unsupported("inline callee exits by %s" % flow[0])


# ------------------------------------------------------------------ spec forms
def spec_form(eng, name, node, st):
    if name == "old":
        if st.old is None:
            raise Unsupported("old() without pre-state")
        o = st.old
        tmp = State()
        tmp.env = dict(o.env)
        if "result" in st.env:
            tmp.env["result"] = st.env["result"]
        # quantified variables bound in the current env must stay visible inside old(...)
        for k, v in st.env.items():
            if k.startswith("$q:"):
                tmp.env[k[3:]] = v
        tmp.heap, tmp.alloc, tmp.pc, tmp.ghost = dict(o.heap), dict(o.alloc), st.pc, o.ghost
        return eng.eval(node.args[0], tmp)
    if name == "entry":
        keys = sorted(k for k in st.env if k.startswith("__entry"))
        if not keys:
            raise Unsupported("entry() outside a loop")
        e = st.env[keys[-1]]
        tmp = State()
        tmp.env = dict(e.env)
        for k, v in st.env.items():
            if k.startswith("$q:"):
                tmp.env[k[3:]] = v
        tmp.heap, tmp.alloc, tmp.pc, tmp.ghost = dict(e.heap), dict(e.alloc), st.pc, e.ghost
        return eng.eval(node.args[0], tmp)
    if name == "seq":
        return st.env["__seq%d__" % node.args[0].value]
    if name == "visited":
        # visited(L, v): element v of the set iterated by loop L has been produced by an earlier iteration
        o = node.args[0].value
        (ordr, pos, n, it), idx = st.env["__setiter%d__" % o]
        v = to_z3(eng.eval(node.args[1], st), it.key)
        return z3.And(it.dom[v], pos(v) < to_z3(st.env[idx]))
    if name in ("forall", "exists"):
        *vars_, body = node.args
        bound = []
        saved = dict(st.env)
        try:
            for v in vars_:
                # forall(i, ...)  Int ;  forall(n=Node, ...) via keyword -> ref
                if not isinstance(v, ast.Name):
                    raise Unsupported("quantifier variable")
                c = z3.Int(fresh_name("q_" + v.id))
                st.env[v.id] = c
                st.env["$q:" + v.id] = c
                bound.append(c)
            trig_nodes = []
            for kw in node.keywords:
                if kw.arg == "triggers":
                    trig_nodes = list(kw.value.elts) if isinstance(kw.value, (ast.List, ast.Tuple)) else [kw.value]
                    continue
                sort = eng.reg.sort_by_name(kw.value.id if isinstance(kw.value, ast.Name) else ast.unparse(kw.value))
                val = sort.fresh("q_" + kw.arg)
                st.env[kw.arg] = val
                st.env["$q:" + kw.arg] = val
                bound.append(to_z3(val))
            b = eng.clause_to_bool(eng.eval(body, st))
            pats = [to_z3(eng.eval(t, st)) for t in trig_nodes]      # alternative E-matching patterns given in the spec
        finally:
            st.env = saved
        if pats and name == "forall":
            return forall_pat(bound, b, pats)
        return z3.ForAll(bound, b) if name == "forall" else z3.Exists(bound, b)
    if name == "implies":
        a = eng.clause_to_bool(eng.eval(node.args[0], st))
        b = eng.clause_to_bool(eng.eval(node.args[1], st))
        return z3.Implies(a, b)
    if name == "iff":
        a = eng.clause_to_bool(eng.eval(node.args[0], st))
        b = eng.clause_to_bool(eng.eval(node.args[1], st))
        return a == b
    if name == "ite":
        c = eng.clause_to_bool(eng.eval(node.args[0], st))
        return eng.ite(c, eng.eval(node.args[1], st), eng.eval(node.args[2], st))
    if name in eng.reg.spec_functions:
        args = [eng.eval(a, st) for a in node.args]
        return eng.reg.spec_functions[name](eng, st, *args)
    return NotImplemented


# ------------------------------------------------------------------ constructors
def construct(eng, cls, node, st):
    init = eng.reg.ctor_fields.get(cls)
    if init is None:
        cc = eng.reg.contracts.get(cls + ".__init__")
        if cc is not None:
            # a constructor under contract: a fresh object, then __init__'s contract with self bound to it
            obj = eng.allocate(st, cls)
            ctor_args = [eng.eval(a, st) for a in node.args]
            if node.keywords:
                names = list(cc.params)[1 + len(ctor_args):]
                kwv = {kw.arg: eng.eval(kw.value, st) for kw in node.keywords}
                for n_ in names:
                    if n_ not in kwv:
                        raise Unsupported("constructor of %s: argument %s not given (defaults are not modelled)" % (cls, n_))
                    ctor_args.append(kwv.pop(n_))
                if kwv:
                    raise Unsupported("constructor of %s: unknown keyword %s" % (cls, sorted(kwv)))
            if getattr(eng, "concrete", False):
                obj = VRef(cls, z3.simplify(obj.ref))
                concrete_call(eng, cc, [obj] + ctor_args, st, node)
                return obj
            eng.call_contract(cc, [obj] + ctor_args, st, node)
            return obj
        raise Unsupported("constructor of %s not modelled" % cls)
    args = [eng.eval(a, st) for a in node.args]
    defaults = eng.reg.ctor_defaults.get(cls, {})
    kwv = {kw.arg: eng.eval(kw.value, st) for kw in node.keywords}      # evaluated left to right after the positional arguments, as in Python
    for fld in init[len(args):]:
        if fld in kwv:
            args.append(kwv.pop(fld))
        elif fld in defaults:
            args.append(defaults[fld])
        else:
            break
    if kwv:
        raise Unsupported("constructor of %s: unknown keyword %s" % (cls, sorted(kwv)))
    if len(args) != len(init):
        raise Unsupported("constructor arity of %s" % cls)
    obj = eng.allocate(st, cls)
    for fld, v in zip(init, args):
        eng.store_field(st, obj, fld, eng.coerce(v, eng.field_sort(cls, fld), st))
    gi = eng.reg.ghost_init.get(cls)
    if gi is not None:
        gi(eng, st, obj)
    return obj


# ------------------------------------------------------------------ builtins
def _args(eng, node, st):
    return [eng.eval(a, st) for a in node.args]


def b_len(eng, node, st):
    (v,) = _args(eng, node, st)
    if isinstance(v, VModel) and hasattr(v, "sym_len"):
        return v.sym_len(eng, st)
    eng.need_value(st, v)
    if isinstance(v, VList):
        return v.len
    if isinstance(v, VTuple):
        return z3.IntVal(len(v.items))
    if isinstance(v, VModel):
        return v.sym_len(eng, st)
    if isinstance(v, (VSet, VDict)):
        return card(eng, st, v)
    r = eng.model_hook(v, "len", st)
    if r is not NotImplemented:
        return r
    raise Unsupported("len of %r" % (v,))


def card(eng, st, v):
    """|set| as an uninterpreted function of the characteristic array with a few axioms."""
    f = z3.Function("card_" + str(v.key.z3sort()), z3.ArraySort(v.key.z3sort(), z3.BoolSort()), z3.IntSort())
    c = f(v.dom)
    st.assume(c >= 0)
    k = z3.Const(fresh_name("k"), v.key.z3sort())
    st.assume((c == 0) == z3.ForAll([k], z3.Not(v.dom[k])))
    return c


def b_range(eng, node, st):
    a = _args(eng, node, st)
    if len(a) == 1:
        return VRange(z3.IntVal(0), a[0])
    if len(a) == 2:
        return VRange(a[0], a[1])
    step = z3.simplify(to_z3(a[2]))
    if z3.is_int_value(step):
        return VRange(a[0], a[1], step.as_long())
    raise Unsupported("symbolic range step")


def b_zip(eng, node, st):
    parts = []
    for a in node.args:
        if isinstance(a, ast.Starred):
            v = eng.eval(a.value, st)
            r = eng.model_hook(v, "star", st)          # zip(*obj): the iterables obj yields (declared by the object's model)
            if r is NotImplemented:
                if isinstance(v, VTuple):
                    r = list(v.items)
                else:
                    raise Unsupported("zip(*%r)" % (v,))
            parts += list(r)
        else:
            parts.append(eng.eval(a, st))
    return VZip(parts)


def b_frozenset(eng, node, st):
    a = _args(eng, node, st)
    if not a:
        return ("emptyset",)
    v = a[0]
    if isinstance(v, VTuple):
        return v           # a literal collection: only membership and iteration are used on it
    return b_set(eng, node, st)


def sorted_set(eng, st, v):
    """sorted(set of ints): the strictly increasing list of exactly the set's elements"""
    if v.key.z3sort() != z3.IntSort():
        raise Unsupported("sorted() of a set of non-integers")
    n = z3.Int(fresh_name("sortedlen"))
    arr = z3.Array(fresh_name("sortedarr"), z3.IntSort(), z3.IntSort())
    idx = z3.Function(fresh_name("sortedidx"), z3.IntSort(), z3.IntSort())
    i, j, k = z3.Ints("%s %s %s" % (fresh_name("i"), fresh_name("j"), fresh_name("k")))
    st.assume(n >= 0)
    st.assume(z3.ForAll([i], z3.Implies(z3.And(i >= 0, i < n), z3.And(v.dom[arr[i]], idx(arr[i]) == i)), patterns=[arr[i]]))
    st.assume(z3.ForAll([i, j], z3.Implies(z3.And(i >= 0, i < j, j < n), arr[i] < arr[j]), patterns=[z3.MultiPattern(arr[i], arr[j])]))
    st.assume(forall_pat([k], z3.Implies(v.dom[k], z3.And(idx(k) >= 0, idx(k) < n, arr[idx(k)] == k)), [idx(k), v.dom[k]]))
    r = VList(INT, arr, n)
    r.sorted_index = idx
    return r


def b_enumerate(eng, node, st):
    a = _args(eng, node, st)
    start = 0
    if len(a) > 1:
        start = to_z3(a[1])
    for kw in node.keywords:
        if kw.arg == "start":
            start = to_z3(eng.eval(kw.value, st))
    return VEnumerate(a[0], start)


def sum_fn(zsort):
    return z3.Function("SUM", z3.ArraySort(z3.IntSort(), z3.IntSort()), z3.IntSort(), z3.IntSort(), z3.IntSort())


def add_sum_axioms(eng, st):
    if "SUM" in st.axioms:
        return
    st.axioms.add("SUM")
    S = sum_fn(None)
    f = z3.Array("sum_f", z3.IntSort(), z3.IntSort())
    a, b = z3.Ints("sum_a sum_b")
    st.assume(z3.ForAll([f, a], S(f, a, a) == 0, patterns=[S(f, a, a)]))
    st.assume(z3.ForAll([f, a, b], z3.Implies(b >= a, S(f, a, b + 1) == S(f, a, b) + f[b]), patterns=[S(f, a, b + 1)]))
    st.assume(z3.ForAll([f, a, b], z3.Implies(b > a, S(f, a, b) == S(f, a, b - 1) + f[b - 1]), patterns=[S(f, a, b)]))
    if eng.contract is not None and eng.contract.extra.get("sum_lemmas"):
        # opt-in theorem about finite sums (by induction on the upper bound; base and step are discharged as lemma obligations by the contract module that
        # asks for it, see sum_domination_lemma): a sum of non-negative terms is non-negative and at least each of its terms
        st.assume(sum_domination(S, f, a, b, patterns=True))
        eng.assumptions.add("finite sums: 'a sum of non-negative terms dominates each term' used as a lemma (induction step discharged separately)")


def sum_domination(S, f, a, b, patterns=False):
    i, j = z3.Ints("sum_i sum_j")
    nonneg = z3.ForAll([i], z3.Implies(z3.And(a <= i, i < b), f[i] >= 0))
    concl = z3.And(S(f, a, b) >= 0, z3.ForAll([j], z3.Implies(z3.And(a <= j, j < b), S(f, a, b) >= f[j])))
    body = z3.Implies(z3.And(b >= a, nonneg), concl)
    return z3.ForAll([f, a, b], body, patterns=[S(f, a, b)]) if patterns else body


def sum_domination_lemma():
    """-> (hyp, goals) for a Registry.lemmas entry: base and step of the induction on the upper bound"""
    S = sum_fn(None)
    f = z3.Array("sum_f", z3.IntSort(), z3.IntSort())
    a, b = z3.Ints("sum_a sum_b")
    g = z3.Array("lem_sum_f", z3.IntSort(), z3.IntSort())
    lo, hi = z3.Ints("lem_sum_lo lem_sum_hi")
    hyp = [z3.ForAll([f, a], S(f, a, a) == 0, patterns=[S(f, a, a)]),
           z3.ForAll([f, a, b], z3.Implies(b >= a, S(f, a, b + 1) == S(f, a, b) + f[b]), patterns=[S(f, a, b + 1)])]
    return hyp, {"base": sum_domination(S, g, lo, lo), "step": z3.Implies(z3.And(hi >= lo, sum_domination(S, g, lo, hi)), sum_domination(S, g, lo, hi + 1))}


def SUM(eng, st, arr, lo, hi):
    add_sum_axioms(eng, st)
    return sum_fn(None)(arr, to_z3(lo), to_z3(hi))


def b_sum(eng, node, st):
    (v,) = _args(eng, node, st)
    if getattr(eng, "concrete", False):
        tot = z3.IntVal(0)
        for x in eng.concrete_items(v, st):
            xz = to_z3(x)
            tot = tot + (z3.If(xz, 1, 0) if xz.sort() == z3.BoolSort() else xz)
        return z3.simplify(tot)
    if isinstance(v, VGen):
        n, i, c, e = eng.gen_lambda(v, st)
        ez = to_z3(e)
        if ez.sort() == z3.BoolSort():
            ez = z3.If(ez, 1, 0)
        if ez.sort() != z3.IntSort():
            raise Unsupported("sum of non-int")
        arr = z3.Lambda([i], z3.If(c, ez, 0))
        return SUM(eng, st, arr, 0, z3.If(n > 0, n, 0))
    if isinstance(v, VList):
        return SUM(eng, st, v.arr, 0, v.len)
    raise Unsupported("sum of %r" % (v,))


def b_all(eng, node, st):
    (v,) = _args(eng, node, st)
    if getattr(eng, "concrete", False):
        return z3.simplify(z3.And(*[as_bool(x) for x in eng.concrete_items(v, st)] + [z3.BoolVal(True)]))
    if isinstance(v, VGen):
        n, i, c, e = eng.gen_lambda(v, st)
        return z3.ForAll([i], z3.Implies(z3.And(i >= 0, i < n, c), as_bool(e)))
    if isinstance(v, VList):
        i = z3.Int(fresh_name("i"))
        return z3.ForAll([i], z3.Implies(z3.And(i >= 0, i < v.len), as_bool(from_z3(v.arr[i], v.elem))))
    raise Unsupported("all of %r" % (v,))


def b_any(eng, node, st):
    (v,) = _args(eng, node, st)
    if getattr(eng, "concrete", False):
        return z3.simplify(z3.Or(*[as_bool(x) for x in eng.concrete_items(v, st)] + [z3.BoolVal(False)]))
    if isinstance(v, VGen):
        n, i, c, e = eng.gen_lambda(v, st)
        return z3.Exists([i], z3.And(i >= 0, i < n, c, as_bool(e)))
    if isinstance(v, VList):
        i = z3.Int(fresh_name("i"))
        return z3.Exists([i], z3.And(i >= 0, i < v.len, as_bool(from_z3(v.arr[i], v.elem))))
    raise Unsupported("any of %r" % (v,))


def extremum(eng, node, st, is_max):
    a = _args(eng, node, st)
    if node.keywords:
        raise Unsupported("min/max with key/default")
    if len(a) >= 2:
        r = to_z3(a[0])
        for x in a[1:]:
            xz = to_z3(x)
            if r.sort() != xz.sort():
                if r.sort() == z3.IntSort():
                    r = z3.ToReal(r)
                else:
                    xz = z3.ToReal(xz)
            r = z3.If(xz > r, xz, r) if is_max else z3.If(xz < r, xz, r)
        return r
    v = a[0]
    if getattr(eng, "concrete", False) and not isinstance(v, VTuple):
        items = eng.concrete_items(v, st)
        eng.oblige(st, "noexc", z3.BoolVal(len(items) > 0), "ValueError-empty-" + ("max" if is_max else "min"))
        r = to_z3(items[0])
        for x in items[1:]:
            xz = to_z3(x)
            r = z3.If(xz > r, xz, r) if is_max else z3.If(xz < r, xz, r)
        return z3.simplify(r)
    if isinstance(v, VGen):
        v = eng.materialize(v, st)
    if isinstance(v, VList):
        if v.elem.z3sort() not in (z3.IntSort(), z3.RealSort()):
            raise Unsupported("max of non-numeric list")
        eng.oblige(st, "noexc", v.len > 0, "ValueError-empty-" + ("max" if is_max else "min"))
        m = z3.Const(fresh_name("ext"), v.elem.z3sort())
        i = z3.Int(fresh_name("i"))
        w = z3.Int(fresh_name("w"))
        view = getattr(v, "view", None)
        if view is not None:
            base, lo = view
            st.assume(z3.ForAll([i], z3.Implies(z3.And(i >= lo, i < lo + v.len), (base[i] <= m) if is_max else (base[i] >= m)), patterns=[base[i]]))
            st.assume(z3.And(w >= lo, w < lo + v.len, base[w] == m))
            return m
        st.assume(z3.ForAll([i], z3.Implies(z3.And(i >= 0, i < v.len), (v.arr[i] <= m) if is_max else (v.arr[i] >= m))))
        st.assume(z3.And(w >= 0, w < v.len, v.arr[w] == m))
        return m
    raise Unsupported("min/max of %r" % (v,))


def b_max(eng, node, st):
    return extremum(eng, node, st, True)


def b_min(eng, node, st):
    return extremum(eng, node, st, False)


def b_abs(eng, node, st):
    (v,) = _args(eng, node, st)
    z = to_z3(v)
    return z3.If(z >= 0, z, -z)


def b_int(eng, node, st):
    (v,) = _args(eng, node, st)
    if is_numlike(v):
        z = to_z3(v)
        if z.sort() == z3.BoolSort():
            return z3.If(z, 1, 0)
        if z.sort() == z3.IntSort():
            return z
        # truncation toward zero
        return z3.If(z >= 0, z3.ToInt(z), -z3.ToInt(-z))
    raise Unsupported("int() of %r" % (v,))


def b_bool(eng, node, st):
    (v,) = _args(eng, node, st)
    return as_bool(v)


def b_list(eng, node, st):
    a = _args(eng, node, st)
    if not a:
        return ("emptylist",)
    v = a[0]
    if isinstance(v, VGen):
        return eng.materialize(v, st)
    if isinstance(v, VList):
        return VList(v.elem, v.arr, v.len)
    if isinstance(v, VRange):
        n, g = eng.iter_protocol(v, st)
        i = z3.Int(fresh_name("i"))
        return VList(INT, z3.Lambda([i], g(i)), n)
    if isinstance(v, VDict):
        v = VSet(v.key, v.dom)      # list(a_dict): its keys
    if isinstance(v, (VDictItems, VSet)):
        # list(d.items()) / list(a_set): the elements in the (unspecified) iteration order, once each
        n, g = eng.iter_protocol(v, st)
        if getattr(eng, "concrete", False):
            items = [g(z3.IntVal(k)) for k in range(z3.simplify(n).as_long())]
            return eng.const_list(items) if items else ("emptylist",)
        i = z3.Int(fresh_name("i"))
        sample = g(i)
        es = sort_of(sample)
        arr = z3.Array(fresh_name("items.arr"), z3.IntSort(), es.z3sort())
        pats = [arr[i]]
        if eng.last_set_iter is not None:
            pats.append(eng.last_set_iter[0][i])        # the enumeration's own element term: an element of the set is located in the list
        st.assume(forall_pat([i], z3.Implies(z3.And(0 <= i, i < n), arr[i] == to_z3(sample, es)), pats))
        return VList(es, arr, n)
    raise Unsupported("list() of %r" % (v,))


def b_tuple(eng, node, st):
    a = _args(eng, node, st)
    if a and isinstance(a[0], VTuple):
        return a[0]
    if a and isinstance(a[0], VList):
        return a[0]   # immutable view of the same sequence
    if a and isinstance(a[0], VGen):
        return eng.materialize(a[0], st)
    raise Unsupported("tuple()")


def concrete_set(eng, items, key=None):
    key = key or (sort_of(items[0]) if items else INT)
    dom = z3.K(key.z3sort(), z3.BoolVal(False))
    uniq = []
    for x in items:
        xz = to_z3(x, key)
        if not z3.is_true(z3.simplify(dom[xz])):
            uniq.append(x)
            dom = z3.Store(dom, xz, True)
    r = VSet(key, dom)
    r.items = uniq
    return r


def b_set(eng, node, st):
    a = _args(eng, node, st)
    if not a:
        return ("emptyset",)
    v = a[0]
    if getattr(eng, "concrete", False):
        return concrete_set(eng, eng.concrete_items(v, st), getattr(v, "key", None) or getattr(v, "elem", None))
    if isinstance(v, VSet):
        return VSet(v.key, v.dom)
    if isinstance(v, VRange) and isinstance(v.step, int) and v.step == 1:
        k = z3.Int(fresh_name("k"))
        lo, hi = to_z3(v.lo), to_z3(v.hi)
        return VSet(INT, z3.Lambda([k], z3.And(lo <= k, k < hi)))
    if isinstance(v, VList):
        eng.need_value(st, v)
        k = z3.Const(fresh_name("k"), v.elem.z3sort())
        i = z3.Int(fresh_name("i"))
        # the set of the list's elements, skolemised: every element is a member, every member has a witness index
        dom = z3.Array(fresh_name("setof"), v.elem.z3sort(), z3.BoolSort())
        wit = z3.Function(fresh_name("setwit"), v.elem.z3sort(), z3.IntSort())
        st.assume(z3.ForAll([i], z3.Implies(z3.And(i >= 0, i < v.len), dom[v.arr[i]]), patterns=[v.arr[i]]))
        st.assume(z3.ForAll([k], z3.Implies(dom[k], z3.And(wit(k) >= 0, wit(k) < v.len, v.arr[wit(k)] == k)), patterns=[dom[k]]))
        return VSet(v.elem, dom)
    raise Unsupported("set() of %r" % (v,))


def b_sorted(eng, node, st):
    a = _args(eng, node, st)
    if node.keywords:
        raise Unsupported("sorted with key/reverse")
    v = a[0]
    if isinstance(v, VGen):
        v = eng.materialize(v, st)
    if isinstance(v, VTuple):
        # small fixed arity: sorting network semantics via min/max for 2, generic permutation otherwise
        items = v.items
        for x in items:
            if isinstance(x, VOpt):
                eng.oblige(st, "noexc", z3.Or(z3.Not(x.is_none()), z3.BoolVal(len(items) < 2)), "TypeError-sort-None")
        zs = [x.val() if isinstance(x, VOpt) else to_z3(x) for x in items]
        if len(zs) == 2:
            lo = z3.If(zs[0] <= zs[1], zs[0], zs[1])
            hi = z3.If(zs[0] <= zs[1], zs[1], zs[0])
            arr = z3.Store(z3.Store(z3.K(z3.IntSort(), z3.IntVal(0)), 0, lo), 1, hi)
            return VList(INT, arr, z3.IntVal(2))
        raise Unsupported("sorted() of a tuple of arity %d" % len(zs))
    if isinstance(v, VList):
        return sorted_list(eng, st, v)
    if isinstance(v, VSet):
        return sorted_set(eng, st, v)
    raise Unsupported("sorted of %r" % (v,))


def sorted_fn(elem):
    """the uninterpreted function standing for the builtin sorted() on lists of this element sort: (array, length) -> array"""
    es = elem.z3sort()
    arrs = z3.ArraySort(z3.IntSort(), es)
    return z3.Function("SORTED_" + "".join(ch for ch in str(es) if ch.isalnum()), arrs, z3.IntSort(), arrs)


def sorted_list(eng, st, v):
    """sorted(list) = SORTED(list): a function of the argument (array, length) whose value is an ordered permutation of it: ascending, and
    related to the input by a bijection on indices (perm / inverse perm as index maps).  Lists of Optional[int] sort by value and raise
    TypeError when a None meets anything else."""
    es = v.elem.z3sort()
    arrs = z3.ArraySort(z3.IntSort(), es)
    opt = isinstance(v.elem, OPT)
    if not opt and es not in (z3.IntSort(), z3.RealSort()):
        raise Unsupported("sorted() of non-numeric list")
    if opt and v.elem.inner.z3sort() != z3.IntSort():
        raise Unsupported("sorted() of a list of optional non-integers")
    i, j = z3.Ints(fresh_name("i") + " " + fresh_name("j"))
    if opt:
        eng.oblige(st, "noexc", z3.Or(v.len < 2, z3.ForAll([i], z3.Implies(z3.And(i >= 0, i < v.len), z3.Not(v.elem.dt.is_none(v.arr[i]))))), "TypeError-sort-None")
    f = sorted_fn(v.elem)
    r = VList(v.elem, f(v.arr, v.len), v.len)
    key = (lambda e: v.elem.dt.val(e)) if opt else (lambda e: e)
    st.assume(z3.ForAll([i, j], z3.Implies(z3.And(0 <= i, i < j, j < r.len), key(r.arr[i]) <= key(r.arr[j]))))
    p = z3.Function(fresh_name("perm"), z3.IntSort(), z3.IntSort())
    q = z3.Function(fresh_name("iperm"), z3.IntSort(), z3.IntSort())
    st.assume(z3.ForAll([i], z3.Implies(z3.And(0 <= i, i < r.len), z3.And(0 <= p(i), p(i) < r.len, q(p(i)) == i, r.arr[i] == v.arr[p(i)]))))
    st.assume(z3.ForAll([i], z3.Implies(z3.And(0 <= i, i < r.len), z3.And(0 <= q(i), q(i) < r.len, p(q(i)) == i))))
    return r


def sort_by_key(eng, st, v, key, reverse):
    """list.sort(key=lambda, reverse=const): the result is a STABLE ordered permutation of the list -- keys non-decreasing (non-increasing with reverse),
    elements with equal keys in their original order, related to the input by a bijection on indices.  Keys must be numbers."""
    rev = z3.simplify(as_bool(reverse)) if not isinstance(reverse, bool) else z3.BoolVal(reverse)
    if not (z3.is_true(rev) or z3.is_false(rev)):
        raise Unsupported("sort(reverse=<not a constant>)")
    rev = z3.is_true(rev)
    if key is not None and not isinstance(key, VLambda):
        raise Unsupported("sort(key=<not a lambda>)")

    if key is None and isinstance(v.elem, REF) and not getattr(eng, "concrete", False):
        # objects ordered by their own __lt__ (e.g. a NamedTuple / dataclass(order=True)): the result is SOME permutation of the list (its order is not modelled)
        i = z3.Int(fresh_name("i"))
        r = VList(v.elem, z3.Array(fresh_name("sorted.arr"), z3.IntSort(), v.elem.z3sort()), v.len, v.is_str)
        p = z3.Function(fresh_name("perm"), z3.IntSort(), z3.IntSort())
        q = z3.Function(fresh_name("iperm"), z3.IntSort(), z3.IntSort())
        st.assume(forall_pat([i], z3.Implies(z3.And(0 <= i, i < r.len), z3.And(0 <= p(i), p(i) < r.len, q(p(i)) == i, r.arr[i] == v.arr[p(i)])), [p(i), r.arr[i]]))
        st.assume(forall_pat([i], z3.Implies(z3.And(0 <= i, i < r.len), z3.And(0 <= q(i), q(i) < r.len, p(q(i)) == i)), [q(i), v.arr[i]]))
        return r

    def keyof(e):
        val = from_z3(e, v.elem)
        k = eng.apply_lambda(key, [val], st) if key is not None else val
        if not is_numlike(k):
            raise Unsupported("sort key is not a number")
        return to_z3(k)
    if getattr(eng, "concrete", False):
        n = z3.simplify(v.len).as_long()
        elems = [z3.simplify(v.arr[i]) for i in range(n)]
        ks = []
        for e in elems:
            kz = z3.simplify(keyof(e))
            ks.append(kz.as_fraction() if z3.is_rational_value(kz) else kz.as_long())
        order = sorted(range(n), key=lambda i: ks[i], reverse=rev)
        arr = z3.K(z3.IntSort(), elems[0]) if elems else v.arr
        for pos, i in enumerate(order):
            arr = z3.Store(arr, pos, elems[i])
        return VList(v.elem, arr, v.len, v.is_str)
    i, j = z3.Ints(fresh_name("i") + " " + fresh_name("j"))
    r = VList(v.elem, z3.Array(fresh_name("sorted.arr"), z3.IntSort(), v.elem.z3sort()), v.len, v.is_str)
    p = z3.Function(fresh_name("perm"), z3.IntSort(), z3.IntSort())
    q = z3.Function(fresh_name("iperm"), z3.IntSort(), z3.IntSort())
    ki, kj = keyof(r.arr[i]), keyof(r.arr[j])
    inr = z3.And(0 <= i, i < j, j < r.len)
    # triggers: an element of the input (v[i]) is located in the result through q, an element of the result (r[i]) in the input through p
    both = [z3.MultiPattern(r.arr[i], r.arr[j])]
    st.assume(forall_pat([i, j], z3.Implies(inr, (ki >= kj) if rev else (ki <= kj)), both))
    st.assume(forall_pat([i, j], z3.Implies(z3.And(inr, ki == kj), p(i) < p(j)), both))
    st.assume(forall_pat([i], z3.Implies(z3.And(0 <= i, i < r.len), z3.And(0 <= p(i), p(i) < r.len, q(p(i)) == i, r.arr[i] == v.arr[p(i)])), [p(i), r.arr[i]]))
    st.assume(forall_pat([i], z3.Implies(z3.And(0 <= i, i < r.len), z3.And(0 <= q(i), q(i) < r.len, p(q(i)) == i)), [q(i), v.arr[i]]))
    return r


def b_print(eng, node, st):
    fileobj = None
    for kw in node.keywords:
        if kw.arg == "file":
            fileobj = eng.eval(kw.value, st)
    args = _args(eng, node, st)
    if fileobj is None:
        return NONE
    if isinstance(fileobj, VModel):
        kwargs = {kw.arg: eng.eval(kw.value, st) for kw in node.keywords if kw.arg != "file"}
        return fileobj.sym_print(eng, st, args, kwargs, node)
    kwargs = {kw.arg: eng.eval(kw.value, st) for kw in node.keywords if kw.arg != "file"}
    r = eng.model_hook(fileobj, "print", st, args, kwargs)
    if r is not NotImplemented:
        return r
    raise Unsupported("print to %r" % (fileobj,))


def b_isinstance(eng, node, st):
    v = eng.eval(node.args[0], st)
    cls = node.args[1]
    name = cls.id if isinstance(cls, ast.Name) else None
    if name == "str" and isinstance(v, VList):
        return z3.BoolVal(bool(v.is_str))
    if name == "int" and isinstance(v, z3.ExprRef) and v.sort() == z3.IntSort():
        return z3.BoolVal(True)
    raise Unsupported("isinstance(%r, %s)" % (v, ast.unparse(cls)))


def b_dict(eng, node, st):
    if node.args or node.keywords:
        raise Unsupported("dict(...) with arguments")
    return VConstDict([])


BUILTINS = {
    "dict": b_dict, "len": b_len, "range": b_range, "zip": b_zip, "enumerate": b_enumerate, "sum": b_sum, "all": b_all, "any": b_any,
    "max": b_max, "min": b_min, "abs": b_abs, "int": b_int, "bool": b_bool, "list": b_list, "tuple": b_tuple,
    "set": b_set, "frozenset": b_frozenset, "sorted": b_sorted, "print": b_print, "isinstance": b_isinstance,
}


# ------------------------------------------------------------------ methods on values
def method_call(eng, recv, recv_node, name, node, st):
    args = [eng.eval(a, st) for a in node.args]
    kwargs = {k.arg: eng.eval(k.value, st) for k in node.keywords}
    if isinstance(recv, VModel):
        return recv.sym_call_method(eng, st, name, args, kwargs, node)
    r = eng.model_hook(recv, "method", st, name, args, kwargs)
    if r is not NotImplemented:
        return r
    if hasattr(eng, "value_method"):
        r = eng.value_method(recv, name, args, st)
        if r is not NotImplemented:
            return r
    if recv == ("emptylist",) and name == "append":
        v = args[0]
        s = sort_of(v)
        new = VList(s, z3.Store(z3.K(z3.IntSort(), to_z3(v, s)), 0, to_z3(v, s)), z3.IntVal(1))
        eng.assign(recv_node, new, st, True)
        return NONE
    if isinstance(recv, (VList, VDict, VSet)) and name in ("size", "push_back", "pop_back", "at", "erase", "find", "end", "count", "insert", "empty"):
        r = cpp_container_method(eng, recv, recv_node, name, args, st)
        if r is not NotImplemented:
            return r
    if isinstance(recv, VList):
        if name == "sort" and not args:
            _check_alias(eng, recv_node, st)
            eng.assign(recv_node, sort_by_key(eng, st, recv, kwargs.get("key"), kwargs.get("reverse", False)), st, True)
            return NONE
        if name == "append":
            _check_alias(eng, recv_node, st)
            item = args[0]
            if isinstance(item, VOpt) and not isinstance(recv.elem, OPT):
                item = eng.coerce(item, recv.elem, st)       # an Optional value known not to be None here (obligation) stored into a list of plain values
            eng.assign(recv_node, eng.list_append(recv, item), st, True)
            return NONE
        if name == "extend" and len(args) == 1:
            other = args[0]
            if isinstance(other, VGen):
                other = eng.materialize(other, st)
            if not isinstance(other, VList):
                raise Unsupported("list.extend(%r)" % (other,))
            _check_alias(eng, recv_node, st)
            eng.assign(recv_node, eng.list_concat(recv, other), st, True)
            return NONE
        if name == "join" and recv.is_str:
            return str_join(eng, recv, args[0], st)
        if name == "pop" and not args:
            _check_alias(eng, recv_node, st)
            eng.oblige(st, "noexc", recv.len > 0, "IndexError-pop")
            v = from_z3(recv.arr[recv.len - 1], recv.elem)
            eng.assign(recv_node, VList(recv.elem, recv.arr, recv.len - 1, recv.is_str), st, True)
            return v
        if name == "index":
            raise Unsupported("list.index")
    if isinstance(recv, VDict):
        if name == "get":
            kz = to_z3(args[0], recv.key)
            dflt = args[1] if len(args) > 1 else NONE
            val = from_z3(recv.map[kz], recv.val)
            if dflt is NONE:
                if isinstance(recv.val, REF):
                    return VRef(recv.val.cls, z3.If(recv.dom[kz], recv.map[kz], 0))
                o = OPT(recv.val)
                return VOpt(o, z3.If(recv.dom[kz], o.dt.some(recv.map[kz]), o.dt.none))
            return eng.ite(recv.dom[kz], val, dflt)
        if name in ("keys",):
            return VSet(recv.key, recv.dom)
        if name == "items" and not args:
            return VDictItems(recv)
    if isinstance(recv, VSet):
        if name == "add":
            _check_alias(eng, recv_node, st)
            if getattr(eng, "concrete", False):
                eng.assign(recv_node, concrete_set(eng, list(getattr(recv, "items", [])) + [args[0]], recv.key), st, True)
                return NONE
            eng.assign(recv_node, VSet(recv.key, z3.Store(recv.dom, to_z3(args[0], recv.key), True)), st, True)
            return NONE
        if name == "clear" and not args:
            _check_alias(eng, recv_node, st)
            eng.assign(recv_node, VSet(recv.key, z3.K(recv.key.z3sort(), z3.BoolVal(False))), st, True)
            return NONE
        if name == "update" and len(args) == 1:
            _check_alias(eng, recv_node, st)
            other = args[0]
            k = z3.Const(fresh_name("k"), recv.key.z3sort())
            if isinstance(other, VList):
                ii = z3.Int(fresh_name("i"))
                eng.assign(recv_node, VSet(recv.key, z3.Lambda([k], z3.Or(recv.dom[k], z3.Exists([ii], z3.And(ii >= 0, ii < other.len, other.arr[ii] == k))))), st, True)
                return NONE
            if isinstance(other, VSet):
                eng.assign(recv_node, VSet(recv.key, z3.Lambda([k], z3.Or(recv.dom[k], other.dom[k]))), st, True)
                return NONE
            raise Unsupported("set.update(%r)" % (other,))
        if name in ("discard", "remove"):
            _check_alias(eng, recv_node, st)
            kz = to_z3(args[0], recv.key)
            if name == "remove":
                eng.oblige(st, "noexc", recv.dom[kz], "KeyError-remove")
            eng.assign(recv_node, VSet(recv.key, z3.Store(recv.dom, kz, False)), st, True)
            return NONE
    if isinstance(recv, VSet) and name in ("isdisjoint", "issubset", "issuperset", "union", "intersection", "difference") and len(args) == 1:
        other = args[0]
        if isinstance(other, VList):
            kk = z3.Const(fresh_name("k"), other.elem.z3sort())
            ii = z3.Int(fresh_name("i"))
            other = VSet(other.elem, z3.Lambda([kk], z3.Exists([ii], z3.And(ii >= 0, ii < other.len, other.arr[ii] == kk))))
        if isinstance(other, VSet):
            k = z3.Const(fresh_name("k"), recv.key.z3sort())
            if name == "isdisjoint":
                return z3.Not(z3.Exists([k], z3.And(recv.dom[k], other.dom[k])))
            if name == "issubset":
                return z3.ForAll([k], z3.Implies(recv.dom[k], other.dom[k]))
            if name == "issuperset":
                return z3.ForAll([k], z3.Implies(other.dom[k], recv.dom[k]))
            if name == "union":
                return VSet(recv.key, z3.Lambda([k], z3.Or(recv.dom[k], other.dom[k])))
            if name == "intersection":
                return VSet(recv.key, z3.Lambda([k], z3.And(recv.dom[k], other.dom[k])))
            if name == "difference":
                return VSet(recv.key, z3.Lambda([k], z3.And(recv.dom[k], z3.Not(other.dom[k]))))
    if recv == ("emptyset",) and name == "add":
        v = args[0]
        s = sort_of(v)
        eng.assign(recv_node, VSet(s, z3.Store(z3.K(s.z3sort(), False), to_z3(v, s), True)), st, True)
        return NONE
    raise Unsupported("method %s on %r (line %s)" % (name, recv, getattr(node, "lineno", "?")))


def cpp_container_method(eng, recv, recv_node, name, args, st):
    """libcpp vector / unordered_map / unordered_set methods (Cython front end)"""
    from .fe_cython import VIter
    if isinstance(recv, VList):
        if name == "size":
            return recv.len
        if name == "empty":
            return recv.len == 0
        if name == "push_back":
            eng.assign(recv_node, eng.list_append(recv, args[0]), st, True)
            return NONE
        if name == "pop_back":
            eng.oblige(st, "noexc", recv.len > 0, "pop_back-on-empty-vector")
            eng.assign(recv_node, VList(recv.elem, recv.arr, recv.len - 1, recv.is_str), st, True)
            return NONE
        if name == "at":
            return eng.getitem(recv, args[0], st)
    if isinstance(recv, VDict):
        if name == "size":
            return card(eng, st, recv)
        if name == "erase":
            kz = to_z3(args[0], recv.key)
            eng.assign(recv_node, VDict(recv.key, recv.val, z3.Store(recv.dom, kz, False), recv.map), st, True)
            return NONE
        if name == "find":
            return VIter(recv, args[0])
        if name == "end":
            return VIter(recv, end=True)
        if name == "count":
            return z3.If(recv.dom[to_z3(args[0], recv.key)], 1, 0)
    if isinstance(recv, VSet):
        if name == "insert":
            eng.assign(recv_node, VSet(recv.key, z3.Store(recv.dom, to_z3(args[0], recv.key), True)), st, True)
            return NONE
        if name == "erase":
            eng.assign(recv_node, VSet(recv.key, z3.Store(recv.dom, to_z3(args[0], recv.key), False)), st, True)
            return NONE
        if name == "find":
            return VIter(VDict(recv.key, BOOL, recv.dom, None), args[0])
        if name == "end":
            return VIter(VDict(recv.key, BOOL, recv.dom, None), end=True)
        if name == "count":
            return z3.If(recv.dom[to_z3(args[0], recv.key)], 1, 0)
    return NotImplemented


def _check_alias(eng, recv_node, st):
    if isinstance(recv_node, ast.Name) and recv_node.id in st.aliases and recv_node.id not in eng.contract.mutates:
        raise Unsupported("in-place mutation of possibly aliased container %s" % recv_node.id)


def str_join(eng, sep, arg, st):
    """sep.join(gen) for sep == '' and single-character pieces: the result is the sequence of pieces."""
    seplen = z3.simplify(sep.len)
    if getattr(eng, "concrete", False):
        from .crosscheck import to_py
        return eng.str_const(to_py(eng, st, sep).join(to_py(eng, st, x) for x in eng.concrete_items(arg, st)))
    if isinstance(arg, VGen) and getattr(sep, "pystr", None) is not None:
        n, i, c, e = eng.gen_lambda(arg, st)
        if is_z3int(e) and z3.is_true(z3.simplify(c)):
            # pieces that are opaque string values (f-strings): the joined text is an opaque value too, a function of separator, pieces and their number
            f = z3.Function("STRJOIN", z3.IntSort(), z3.ArraySort(z3.IntSort(), z3.IntSort()), z3.IntSort(), z3.IntSort())
            return f(eng.key_of(sep), z3.Lambda([i], to_z3(e)), z3.If(n > 0, n, 0))
    if not (z3.is_int_value(seplen) and seplen.as_long() == 0):
        raise Unsupported("join with non-empty separator")
    if isinstance(arg, VGen):
        n, i, c, e = eng.gen_lambda(arg, st)
        if not z3.is_true(z3.simplify(c)):
            raise Unsupported("filtered join")
        if is_numlike(e) and not isinstance(e, VList):
            raise Unsupported("join of non-strings")
        if not (isinstance(e, VList) and e.is_str):
            raise Unsupported("join of non-strings")
        el = z3.simplify(e.len)
        if not (z3.is_int_value(el) and el.as_long() == 1):
            raise Unsupported("join of pieces that are not single characters")
        return VList(INT, z3.Lambda([i], e.arr[0]), z3.If(n > 0, n, 0), is_str=True)
    raise Unsupported("join of %r" % (arg,))
