"""CPython cross-check of the symbolic semantics (guard against an unsound encoder).

For functions under contract whose inputs can be written down as plain Python values, the *same engine* that generates the verification conditions
is run in concrete mode (every parameter a constant, loops executed, callees of the same file executed) and its result -- value, raised / not raised,
fields of the objects it mutates -- is compared with what CPython computes when the real function (imported from the build of /repo's working tree) is
called with the same inputs.  A disagreement means the encoder does not model Python: it is reported as a machinery error (exit 3), never as a violation.

Cases live next to the contracts: a contract module may define CROSSCHECK = [Case(...), ...].
"""
import random
import traceback

import z3

from . import run as vrun
from .engine import ConcreteRaise, State, Flow
from .values import *  # noqa
from .values import _Real


class Case:
    def __init__(self, qualname, gen, real, params=None, n=60, compare=None, probe=None):
        """gen(rng) -> dict name -> python value (REF params: dict field -> value, plus "__class__"); real(inputs) -> ("ok", value) | ("raise", exc name).
        params: optional override of the contract's param sorts; compare(expected, got) -> bool."""
        self.qualname, self.gen, self.real, self.params, self.n, self.compare, self.probe = qualname, gen, real, params, n, compare, probe


def to_sym(eng, st, v, sort):
    if isinstance(sort, MAYBE):
        if v is None:
            r = sort.inner.fresh("none")
            r.none = z3.BoolVal(True)
            return r
        r = to_sym(eng, st, v, sort.inner)
        r.none = z3.BoolVal(False)
        return r
    if isinstance(sort, SET):
        dom = z3.K(sort.key.z3sort(), z3.BoolVal(False))
        items = []
        for x in sorted(v):
            xs = to_sym(eng, st, x, sort.key)
            dom = z3.Store(dom, to_z3(xs, sort.key), True)
            items.append(xs)
        r = VSet(sort.key, dom)
        r.items = items
        return r
    if isinstance(sort, DICT):
        dom = z3.K(sort.key.z3sort(), z3.BoolVal(False))
        mp = z3.K(sort.key.z3sort(), to_z3(to_sym(eng, st, _default(sort.val), sort.val), sort.val))
        keys = []
        for k, x in v.items():
            ks = to_sym(eng, st, k, sort.key)
            keys.append(ks)
            kz = to_z3(ks, sort.key)
            dom = z3.Store(dom, kz, True)
            mp = z3.Store(mp, kz, to_z3(to_sym(eng, st, x, sort.val), sort.val))
        r = VDict(sort.key, sort.val, dom, mp)
        r.concrete_keys = keys          # CPython iterates a dict in insertion order
        return r
    if isinstance(sort, REF):
        if v is None:
            return VRef(sort.cls, z3.IntVal(0))
        obj = eng.allocate(st, sort.cls)
        obj = VRef(sort.cls, z3.simplify(obj.ref))
        for f, fs in eng.reg.classes[sort.cls].items():
            if f in v:
                eng.store_field(st, obj, f, to_sym(eng, st, v[f], fs))
        return obj
    if isinstance(sort, LIST):
        if isinstance(v, str):
            return eng.str_const(v)
        es = sort.elem
        arr = z3.K(z3.IntSort(), to_z3(to_sym(eng, st, _default(es), es), es))
        for i, x in enumerate(v):
            arr = z3.Store(arr, i, to_z3(to_sym(eng, st, x, es), es))
        return VList(es, arr, z3.IntVal(len(v)), sort.is_str)
    if isinstance(sort, TUPLE):
        return VTuple([to_sym(eng, st, x, s_) for x, s_ in zip(v, sort.items)])
    if isinstance(sort, OPT):
        return VOpt(sort, sort.dt.none if v is None else sort.dt.some(to_z3(to_sym(eng, st, v, sort.inner), sort.inner)))
    if isinstance(v, bool):
        return z3.BoolVal(v)
    if isinstance(v, int):
        return z3.RealVal(v) if isinstance(sort, _Real) else z3.IntVal(v)
    import fractions
    if isinstance(v, fractions.Fraction):
        return z3.RealVal(str(v))           # exact rationals (binary fractions are exact as floats on the CPython side too)
    raise Unsupported("cannot build a constant of sort %r from %r" % (sort, v))


def _default(sort):
    if isinstance(sort, TUPLE):
        return tuple(_default(s_) for s_ in sort.items)
    if isinstance(sort, LIST):
        return []
    if isinstance(sort, OPT):
        return None
    if isinstance(sort, SET):
        return set()
    if isinstance(sort, DICT):
        return {}
    if isinstance(sort, REF):
        return None
    return 0


def to_py(eng, st, v, probe=None):
    if v is NONE:
        return None
    if isinstance(v, VDict):
        if probe is None:
            raise Unsupported("a dict result needs probe keys")
        out = {}
        for k in probe:
            kz = to_z3(k, v.key) if not isinstance(k, int) else z3.IntVal(k)
            if z3.is_true(z3.simplify(v.dom[kz])):
                out[k] = to_py(eng, st, from_z3(z3.simplify(v.map[kz]), v.val))
        return out
    if isinstance(v, VSet):
        if probe is None:
            raise Unsupported("a set result needs probe keys")
        return {k for k in probe if z3.is_true(z3.simplify(v.dom[z3.IntVal(k)]))}
    if isinstance(v, bool) or isinstance(v, int):
        return v
    if isinstance(v, VList):
        n = z3.simplify(v.len).as_long()
        items = [to_py(eng, st, from_z3(z3.simplify(v.arr[i]), v.elem)) for i in range(n)]
        return "".join(chr(c) for c in items) if v.is_str else items
    if isinstance(v, VTuple):
        return tuple(to_py(eng, st, x) for x in v.items)
    if isinstance(v, VOpt):
        e = z3.simplify(v.expr)
        return None if z3.is_true(z3.simplify(v.sort.dt.is_none(e))) else to_py(eng, st, z3.simplify(v.sort.dt.val(e)))
    if isinstance(v, VRef):
        if z3.simplify(v.ref).as_long() == 0:
            return None
        return {f: to_py(eng, st, eng.load_field_raw(st, v, f)) for f, fs in eng.reg.classes.get(v.cls, {}).items()
                if not eng.reg.is_ghost(v.cls, f) and not isinstance(fs, (REF, DICT, SET))}
    if isinstance(v, z3.ExprRef):
        e = z3.simplify(v)
        if z3.is_true(e):
            return True
        if z3.is_false(e):
            return False
        if z3.is_int_value(e):
            return e.as_long()
        if z3.is_rational_value(e):
            return float(e.as_fraction())
        raise Unsupported("result did not evaluate to a constant: %s" % e)
    raise Unsupported("cannot read back %r" % (v,))


def run_case(reg, src, case, rng):
    contract = reg.contracts[case.qualname]
    inputs = case.gen(rng)
    eng = vrun.make_engine(reg, src)
    eng.concrete = True
    eng.contract = contract
    eng.fn = src.functions.get(contract.extra.get("target", contract.qualname))
    if contract.extra.get("desugar_comprehensions"):
        from .engine import desugar_comprehensions
        eng.fn = desugar_comprehensions(eng.fn)
    eng.obligations, eng.counter, eng.paths = [], {}, 0
    st = State()
    st.old = st
    for cls in reg.classes:
        st.alloc[cls] = z3.IntVal(1)          # concrete object identities
    sorts = case.params or contract.params
    names = [a.arg for a in eng.fn.args.args]
    objs = {}
    eng.spec_mode += 1
    try:
        for real_name, (cname, sort) in zip(names, sorts.items()):
            st.env[real_name] = to_sym(eng, st, inputs[cname], sort)
            if isinstance(sort, REF):
                objs[cname] = (st.env[real_name], sort)
    finally:
        eng.spec_mode -= 1
    for cls in reg.classes:
        st.alloc["pre:" + cls] = z3.simplify(st.alloc[cls])
    try:
        outs = list(eng.exec_block(eng.fn.body, st))
        if len(outs) != 1:
            raise Unsupported("concrete run produced %d paths" % len(outs))
        s1, flow = outs[0]
        if flow[0] == Flow.RAISE:
            got = ("raise", flow[1])
        else:
            val = to_py(eng, s1, flow[1] if flow[0] == Flow.RETURN else NONE, probe=case.probe(inputs) if case.probe else None)
            state = {}
            for cname, (obj, sort) in objs.items():
                state[cname] = {f: to_py(eng, s1, eng.load_field_raw(s1, obj, f)) for f in inputs[cname] if f != "__class__"}
            got = ("ok", val, state)
    except ConcreteRaise as e:
        got = ("raise", str(e))
    expected = case.real(inputs)
    if expected[0] == "raise":
        ok = got[0] == "raise"
    elif got[0] != "ok":
        ok = False
    elif case.compare is not None:
        ok = case.compare(expected, got)
    else:
        ok = expected[1] == got[1] and all(expected[2].get(k) == v for k, v in (got[2] or {}).items() if k in (expected[2] if len(expected) > 2 and expected[2] else {}))
    return ok, inputs, expected, got


def run_module(reg, cases, seed=0):
    """-> list of dict(function, runs, skipped, mismatches=[...])"""
    src = vrun.load_source(reg)
    out = []
    for case in cases:
        rng = random.Random("%s/%s" % (seed, case.qualname))
        rec = dict(function="%s:%s" % (reg.file, case.qualname), runs=0, skipped=0, mismatches=[])
        for _ in range(case.n):
            try:
                ok, inputs, expected, got = run_case(reg, src, case, rng)
            except Unsupported as e:
                rec["skipped"] += 1
                rec.setdefault("skip_reasons", set()).add(str(e)[:120])
                continue
            except Exception:
                rec["mismatches"].append(dict(error=traceback.format_exc()[-800:]))
                continue
            rec["runs"] += 1
            if not ok and len(rec["mismatches"]) < 3:
                rec["mismatches"].append(dict(inputs=repr(inputs)[:500], cpython=repr(expected)[:300], encoder=repr(got)[:300]))
        rec["skip_reasons"] = sorted(rec.get("skip_reasons", ()))
        out.append(rec)
    return out
