"""vcgen engine: modular forward symbolic execution of Python-`ast` function bodies against sidecar
contracts, producing named proof obligations (one per path x clause).

The body that is executed is the FunctionDef found in /repo's current source text (re-parsed on
every run by the front ends); contracts, loop invariants, ghost updates and models live in
/verif/contracts.  A call is replaced by the callee's contract (never its body) unless the
callee is declared inline.
"""
import ast
import copy
import z3

from .values import *  # noqa
from .values import _Int, _Bool, _Real

MAX_PATHS = 4000


class Obligation:
    def __init__(self, name, kind, pc, goal, fn, props, note=""):
        self.name, self.kind, self.pc, self.goal, self.fn, self.props, self.note = name, kind, list(pc), goal, fn, props, note

    def smt2(self):
        s = z3.Solver()
        for c in self.pc:
            s.add(c)
        s.add(z3.Not(self.goal))
        return s.to_smt2()


class Contract:
    def __init__(self, file, qualname, params, requires=(), ensures=(), modifies=(), loops=None, returns=None,
                 props=(), inline=False, raises=None, locals=None, ghost_params=None, assumed=False, mutates=(),
                 pure=False, lang="python", extra=None):
        self.file, self.qualname, self.params = file, qualname, params
        self.requires, self.ensures, self.modifies = list(requires), list(ensures), list(modifies)
        self.loops = loops or {}
        self.returns = returns
        self.props = list(props)
        self.inline = inline
        self.raises = raises or {}      # exception name -> condition clause (in pre-state) under which it MAY be raised
        self.locals = locals or {}      # declared sorts of locals (when not inferable)
        self.ghost_params = ghost_params or {}
        self.assumed = assumed          # contract used at call sites but body not verified (trusted / B-checked)
        self.mutates = list(mutates)    # container parameters the function may mutate in place
        self.pure = pure
        self.lang = lang
        self.extra = extra or {}

    @property
    def key(self):
        return (self.file, self.qualname)

    def label(self):
        return "%s:%s" % (self.file, self.qualname)


class State:
    def __init__(self):
        self.env = {}
        self.heap = {}
        self.pc = []
        self.alloc = {}
        self.old = None
        self.aliases = set()
        self.ghost = {}
        self.axioms = set()
        self.trace = []
        self.dirty = set()      # heap fields written since the innermost enclosing loop head (checked against what that loop havocked)

    def copy(self):
        n = State()
        n.env = dict(self.env)
        n.heap = dict(self.heap)
        n.pc = list(self.pc)
        n.alloc = dict(self.alloc)
        n.old = self.old
        n.aliases = set(self.aliases)
        n.ghost = dict(self.ghost)
        n.axioms = set(self.axioms)
        n.trace = list(self.trace)
        n.dirty = set(self.dirty)
        return n

    def assume(self, c):
        if isinstance(c, (list, tuple)):
            for x in c:
                self.assume(x)
        elif c is True:
            return
        elif c is False:
            self.pc.append(z3.BoolVal(False))
        else:
            self.pc.append(c)


_HASQ = {}


def has_quantifier(e):
    k = e.get_id()
    r = _HASQ.get(k)
    if r is None:
        if z3.is_quantifier(e):
            r = True
        elif z3.is_app(e):
            r = any(has_quantifier(c) for c in e.children())
        else:
            r = False
        _HASQ[k] = (r, e)     # keep e alive: ast ids are reused
        return r
    return r[0]


class ConcreteRaise(Exception):
    """concrete cross-check run: the executed code raises here (a false noexc / assert obligation, or a raise statement)"""

    def __init__(self, kind, tag):
        Exception.__init__(self, "%s#%s" % (kind, tag))
        self.kind, self.tag = kind, tag


class Flow:
    NEXT, RETURN, BREAK, CONTINUE, RAISE = "next", "return", "break", "continue", "raise"


def as_bool(v):
    """Python truthiness of a symbolic value."""
    if isinstance(v, bool):
        return z3.BoolVal(v)
    if isinstance(v, int):
        return z3.BoolVal(v != 0)
    if isinstance(v, z3.ExprRef):
        if v.sort() == z3.BoolSort():
            return v
        if v.sort() == z3.IntSort() or v.sort() == z3.RealSort():
            return v != 0
        if isinstance(v.sort(), z3.BitVecSortRef):
            return v != 0
    if isinstance(v, VList):
        if getattr(v, "none", None) is not None:
            return z3.And(z3.Not(v.none), v.len > 0)
        return v.len > 0
    if isinstance(v, VRef):
        return v.ref != 0
    if v is NONE:
        return z3.BoolVal(False)
    if isinstance(v, VOpt):
        return z3.And(z3.Not(v.is_none()), v.val() != 0)
    if isinstance(v, VTuple):
        return z3.BoolVal(len(v.items) > 0)
    if isinstance(v, (VSet, VDict)):
        k = z3.Const(fresh_name("w"), v.key.z3sort())
        nonempty = z3.Exists([k], v.dom[k])
        if getattr(v, "none", None) is not None:
            return z3.And(z3.Not(v.none), nonempty)
        return nonempty
    if isinstance(v, VModel) and hasattr(v, "sym_truth"):
        return v.sym_truth(None, None)
    raise Unsupported("truthiness of %r" % (v,))


def is_z3int(v):
    return isinstance(v, int) and not isinstance(v, bool) or (isinstance(v, z3.ExprRef) and v.sort() == z3.IntSort())


def is_num(v):
    return isinstance(v, (int, float)) and not isinstance(v, bool) or (
        isinstance(v, z3.ExprRef) and (v.sort() == z3.IntSort() or v.sort() == z3.RealSort()))


class Engine:
    def __init__(self, registry, source, file):
        """registry: vcgen.api.Registry; source: FrontEnd result with .functions {qualname: FunctionDef}."""
        self.reg = registry
        self.src = source
        self.file = file
        self.obligations = []
        self.fn = None
        self.contract = None
        self.counter = {}
        self.paths = 0
        self.feas = z3.Solver()
        self.feas.set("timeout", 300)
        self.spec_mode = 0
        self.unsupported = None
        self.assumptions = set()
        self.covered_exits = 0

    # ------------------------------------------------------------------ obligations
    def oblige(self, st, kind, goal, tag=""):
        if self.spec_mode:
            return
        catching = getattr(self, "_catching", None)
        if catching is not None and kind == "noexc" and str(tag).startswith("KeyError") and not getattr(self, "concrete", False):
            # dry run of the first statement of a `try: ... except KeyError:` block: the lookup's success condition is collected, not demanded
            if isinstance(goal, (list, tuple)):
                catching.extend(goal)
            elif goal is not True:
                catching.append(z3.BoolVal(False) if goal is False else goal)
            return
        if getattr(self, "_try_rest", 0) and kind == "noexc" and str(tag).startswith("KeyError") and not getattr(self, "concrete", False):
            g_ = z3.simplify(goal) if z3.is_expr(goal) else goal
            if not (g_ is True or (z3.is_expr(g_) and z3.is_true(g_))) and not self._first_of_try_done(st, goal):
                raise Unsupported("a lookup inside a try block, after its first statement, may raise the KeyError the block catches")
        if getattr(self, "concrete", False):
            # concrete cross-check run: every value is a constant, an obligation evaluates to a truth value; a false `noexc`/`assert` is the point where
            # CPython raises
            if goal is True or goal is False or isinstance(goal, (list, tuple)):
                goals = goal if isinstance(goal, (list, tuple)) else [z3.BoolVal(bool(goal))]
            else:
                goals = [goal]
            if any(z3.is_false(z3.simplify(c)) for c in st.pc if z3.is_expr(c)):
                return       # inside a short-circuited operand / untaken conditional expression: not executed
            for g in goals:
                v = z3.simplify(g)
                if z3.is_false(v):
                    raise ConcreteRaise(kind, tag)
                if not z3.is_true(v):
                    raise Unsupported("concrete run left a symbolic obligation %s#%s: %s" % (kind, tag, str(v)[:300]))
            return
        if goal is True:
            return
        if goal is False:
            goal = z3.BoolVal(False)
        if isinstance(goal, (list, tuple)):
            for i, g in enumerate(goal):
                self.oblige(st, kind, g, "%s.%d" % (tag, i) if tag else str(i))
            return
        base = "%s/%s" % (self.contract.label(), kind + ("#" + tag if tag else ""))
        n = self.counter.get(base, 0)
        self.counter[base] = n + 1
        self.obligations.append(Obligation(base, kind, st.pc, goal, self.contract.label(), self.contract.props,
                                           note="path %d" % n))
        # after asserting, the fact may be assumed on this path (standard assert-then-assume)
        st.assume(goal)

    def oblige_parts(self, st, kind, g, tag):
        """A clause whose spec function returns several conjuncts yields one obligation per conjunct
        (smaller queries; all conjuncts are assumed only after all were asserted)."""
        if isinstance(g, list):
            n = len(st.pc)
            for i, part in enumerate(g):
                self.oblige(st, kind, part, "%s.%d" % (tag, i))
        else:
            self.oblige(st, kind, g, tag)

    def feasible(self, st, extra=None):
        """Path pruning (an optimisation, and the vacuity guard on requires): `False` only if the path condition is unsatisfiable.  Quantified
        conjuncts are tried last and briefly: dropping them weakens the condition, so a path is never pruned wrongly."""
        qf = [c for c in st.pc if not has_quantifier(c)]
        self.feas.push()
        try:
            for c in qf:
                self.feas.add(c)
            if extra is not None:
                self.feas.add(extra)
            r = self.feas.check()
            if r == z3.sat and len(qf) != len(st.pc) and len(st.pc) < 60:
                for c in st.pc:
                    if has_quantifier(c):
                        self.feas.add(c)
                self.feas.set("timeout", 100)
                r = self.feas.check()
                self.feas.set("timeout", 300)
        finally:
            self.feas.pop()
        return r != z3.unsat

    # ------------------------------------------------------------------ heap
    def field_sort(self, cls, field):
        try:
            return self.reg.classes[cls][field]
        except KeyError:
            raise Unsupported("undeclared field %s.%s" % (cls, field))

    def heap_arr(self, st, key, zsort):
        if key not in st.heap:
            st.heap[key] = z3.Array("H0_" + key, z3.IntSort(), zsort)
        return st.heap[key]

    def load_field(self, st, obj, field):
        if not isinstance(obj, VRef):
            raise Unsupported("attribute %s on %r" % (field, obj))
        cls = obj.cls
        s = self.field_sort(cls, field)
        self.oblige(st, "noexc", obj.ref != 0, "None.%s" % field)
        k = "%s.%s" % (cls, field)
        if isinstance(s, LIST):
            arr = self.heap_arr(st, k + "#arr", z3.ArraySort(z3.IntSort(), s.elem.z3sort()))
            ln = self.heap_arr(st, k + "#len", z3.IntSort())
            if not any(k_.startswith("$q:") for k_ in st.env):
                st.assume(ln[obj.ref] >= 0)    # type invariant of a Python list held in a field: every value ever stored has len >= 0
            return VList(s.elem, arr[obj.ref], ln[obj.ref], is_str=s.is_str)
        if isinstance(s, DICT):
            dom = self.heap_arr(st, k + "#dom", z3.ArraySort(s.key.z3sort(), z3.BoolSort()))
            mp = self.heap_arr(st, k + "#map", z3.ArraySort(s.key.z3sort(), s.val.z3sort()))
            return VDict(s.key, s.val, dom[obj.ref], mp[obj.ref])
        if isinstance(s, SET):
            dom = self.heap_arr(st, k + "#dom", z3.ArraySort(s.key.z3sort(), z3.BoolSort()))
            return VSet(s.key, dom[obj.ref])
        arr = self.heap_arr(st, k, s.z3sort())
        return from_z3(arr[obj.ref], s)

    def store_field(self, st, obj, field, val):
        if not isinstance(obj, VRef):
            raise Unsupported("attribute store %s on %r" % (field, obj))
        cls = obj.cls
        s = self.field_sort(cls, field)
        self.oblige(st, "noexc", obj.ref != 0, "None.%s=" % field)
        k = "%s.%s" % (cls, field)
        if not self.spec_mode and self.contract is not None and not self.reg.is_ghost(cls, field):
            if k not in self.contract.modifies:
                # frame: a store outside the declared modifies set is allowed only into an object
                # allocated by this very call
                pre = st.alloc.get("pre:" + cls)
                self.oblige(st, "frame", obj.ref >= pre if pre is not None else z3.BoolVal(False), k)
        st.dirty.add(k)
        hook = self.reg.store_hooks.get(k)
        oldval = None
        if hook is not None:
            oldval = self.load_field_raw(st, obj, field)
        if isinstance(s, LIST):
            if not isinstance(val, VList):
                raise Unsupported("store non-list into list field")
            arr = self.heap_arr(st, k + "#arr", z3.ArraySort(z3.IntSort(), s.elem.z3sort()))
            ln = self.heap_arr(st, k + "#len", z3.IntSort())
            st.heap[k + "#arr"] = z3.Store(arr, obj.ref, val.arr)
            st.heap[k + "#len"] = z3.Store(ln, obj.ref, val.len)
        elif isinstance(s, DICT):
            dom = self.heap_arr(st, k + "#dom", z3.ArraySort(s.key.z3sort(), z3.BoolSort()))
            mp = self.heap_arr(st, k + "#map", z3.ArraySort(s.key.z3sort(), s.val.z3sort()))
            st.heap[k + "#dom"] = z3.Store(dom, obj.ref, val.dom)
            st.heap[k + "#map"] = z3.Store(mp, obj.ref, val.map)
        elif isinstance(s, SET):
            dom = self.heap_arr(st, k + "#dom", z3.ArraySort(s.key.z3sort(), z3.BoolSort()))
            st.heap[k + "#dom"] = z3.Store(dom, obj.ref, val.dom)
        else:
            arr = self.heap_arr(st, k, s.z3sort())
            st.heap[k] = z3.Store(arr, obj.ref, to_z3(val, s))
        if hook is not None:
            hook(self, st, obj, oldval, val)

    def load_field_raw(self, st, obj, field):
        sm = self.spec_mode
        self.spec_mode += 1
        try:
            return self.load_field(st, obj, field)
        finally:
            self.spec_mode = sm

    def allocate(self, st, cls):
        cur = st.alloc.get(cls)
        if cur is None:
            cur = z3.Int("alloc0_" + cls)
            st.alloc[cls] = cur
            st.assume(cur >= 1)
        st.alloc[cls] = cur + 1
        return VRef(cls, cur)

    def alloc_bound(self, st, cls):
        cur = st.alloc.get(cls)
        if cur is None:
            cur = z3.Int("alloc0_" + cls)
            st.alloc[cls] = cur
            st.assume(cur >= 1)
        return cur

    # ------------------------------------------------------------------ top level
    def verify(self, contract):
        """Generate the obligations of one function under contract. Returns list of Obligation."""
        self.contract = contract
        self.fn = self.src.functions.get(contract.extra.get("target", contract.qualname))     # "target": a second contract of the same function
        if self.fn is None:
            raise KeyError("target %s not found in %s" % (contract.qualname, self.file))
        if contract.extra.get("desugar_comprehensions"):
            self.fn = desugar_comprehensions(self.fn)
        self.obligations = []
        self.counter = {}
        self.paths = 0
        self.covered_exits = 0
        st = State()
        if contract.extra.get("defaults"):
            # the default values the contract declares (used at call sites that leave the argument out) must be the ones in the source
            a = self.fn.args
            src_defaults = {}
            for arg, d in zip(a.args[len(a.args) - len(a.defaults):], a.defaults):
                if isinstance(d, ast.Constant):
                    src_defaults[arg.arg] = d.value
            for n, v in contract.extra["defaults"].items():
                if n not in src_defaults or src_defaults[n] != v:
                    raise Unsupported("default value of parameter %s is %r in the source, %r in the contract" % (n, src_defaults.get(n), v))
        self.slice_ordinal = contract.extra.get("loop_slice")
        if self.slice_ordinal is not None:
            # LOOP-BODY CONTRACT: the unit under verification is loop k of the function; its free variables are the contract's params (arbitrary values
            # of the declared sorts satisfying `requires`); the invariant is assumed at the head, one arbitrary iteration is executed (inv-preserve,
            # noexc, pre@call obligations) and `ensures` is checked at the loop's exit.  Nothing before or after the loop is looked at.
            self.bind_free_variables(st, contract)
        else:
            self.bind_params(st, contract, self.fn)
        pre = st.copy()
        st.old = pre
        for cls, a in list(st.alloc.items()):
            st.alloc["pre:" + cls] = a
        # requires (assumed)
        self.spec_mode += 1
        try:
            for cl in contract.requires:
                st.assume(self.eval_clause(st, cl))
        finally:
            self.spec_mode -= 1
        for cl in contract.extra.get("assume", []):
            # definitional instances / background facts assumed for this function only (listed in the evidence)
            self.spec_mode += 1
            try:
                st.assume(self.eval_clause(st, cl))
            finally:
                self.spec_mode -= 1
            self.assumptions.add("assumed in %s: %s" % (contract.qualname, cl if isinstance(cl, str) else getattr(cl, "__name__", "clause")))
        for fact in contract.extra.get("uses_lemmas", []):
            # statements of lemmas that are discharged as L-obligations of the same contract module: hypotheses here
            st.assume(fact(self, st))
            self.assumptions.add("%s uses %s, discharged separately as lemma obligations (induction principle meta-level)" % (contract.qualname, fact.__name__))
        if contract.extra.get("yields") is not None:
            # a generator: the sequence of values yielded so far is the ghost list __yielded__
            ys = contract.extra["yields"]
            st.env["__yielded__"] = VList(ys, z3.K(z3.IntSort(), to_z3(ys.fresh("dflt"), ys)), z3.IntVal(0))
        for cls in self.reg.classes:
            st.alloc["pre:" + cls] = self.alloc_bound(st, cls)
        pre.pc = list(st.pc)
        pre.alloc = dict(st.alloc)
        pre.heap = dict(st.heap)
        st.old = pre
        # vacuity guard: requires must be satisfiable
        self.cover_requires = self.feasible(st)
        if self.slice_ordinal is not None:
            loops = self.all_loops()
            if self.slice_ordinal >= len(loops):
                raise Unsupported("loop %d of %s not found" % (self.slice_ordinal, contract.qualname))
            self.assumptions.add("%s: loop-body contract for loop %d only -- initialisation of the invariant and the code around the loop are not verified" % (contract.qualname, self.slice_ordinal))
            for out, flow in self.exec_stmt(loops[self.slice_ordinal], st):
                self.finish_path(out, flow)
            return self.obligations
        for out, flow in self.exec_block(self.fn.body, st):
            self.finish_path(out, flow)
        return self.obligations

    def bind_free_variables(self, st, contract):
        for name, sort in contract.params.items():
            if isinstance(sort, VModel):
                st.env[name] = sort            # a model object given directly (e.g. a callable standing for a local function)
                continue
            v = sort.fresh(name)
            st.env[name] = v
            if isinstance(sort, REF):
                b = self.alloc_bound(st, sort.cls)
                st.assume(z3.And(v.ref >= 0 if contract.extra.get("nullable", {}).get(name) else v.ref > 0, v.ref < b))
            if isinstance(sort, LIST):
                st.assume(v.len >= 0)
                st.aliases.add(name)
        st.env["__params__"] = list(contract.params)

    def bind_params(self, st, contract, fn):
        names = [a.arg for a in fn.args.args]
        declared = list(contract.params.items())
        # positional resolution: a renamed parameter keeps its contract sort and contract name
        if len(declared) != len(names):
            raise Unsupported("arity of %s changed: %r vs contract %r" % (contract.qualname, names, [d[0] for d in declared]))
        for (cname, sort), real in zip(declared, names):
            v = sort if isinstance(sort, VModel) else sort.fresh(cname)       # a model object given directly (a value the function only reads through the model's operations)
            st.env[real] = v
            if real != cname:
                st.env[cname] = v
            if isinstance(sort, REF):
                b = self.alloc_bound(st, sort.cls)
                if not contract.extra.get("nullable", {}).get(cname):
                    st.assume(z3.And(v.ref > 0, v.ref < b))
                else:
                    st.assume(z3.And(v.ref >= 0, v.ref < b))
            if isinstance(sort, LIST):
                st.assume(v.len >= 0)
                st.aliases.add(real)
        for g, sort in contract.ghost_params.items():
            st.env[g] = sort.fresh(g)
        st.env["__params__"] = names

    def finish_path(self, st, flow):
        self.paths += 1
        c = self.contract
        if flow[0] == Flow.RAISE:
            exc = flow[1]
            cond = c.raises.get(exc)
            if cond is None:
                self.oblige(st, "noexc", z3.BoolVal(False), "raise-" + exc)
            else:
                self.oblige(st, "raises", self.eval_in_pre(st, cond), exc + "-only-if")
            return
        if flow[0] in (Flow.BREAK, Flow.CONTINUE):
            raise Unsupported("break/continue outside loop")
        result = flow[1] if flow[0] == Flow.RETURN else NONE
        if result is NONE and isinstance(c.returns, (REF, OPT, MAYBE)):
            result = self.coerce(result, c.returns, st)        # `return None` of a function declared to return an object / optional value
        st.env["result"] = result
        for m in c.mutates:
            st.env["new_" + m] = st.env[m]        # container parameters mutated in place: their final value, as the caller sees it
        self.covered_exits += 1
        for exc, cond in c.raises.items():
            # "raises exc iff cond": a normal return is only allowed when cond was false in the pre-state
            self.oblige(st, "raises", z3.Not(self.eval_in_pre(st, cond)), exc + "-if")
        for i, cl in enumerate(c.ensures):
            tag = cl[0] if isinstance(cl, tuple) else str(i)
            text = cl[1] if isinstance(cl, tuple) else cl
            self.spec_mode += 1
            try:
                g = self.eval_clause(st, text, split=True)
            finally:
                self.spec_mode -= 1
            self.oblige_parts(st, "ensures", g, tag)

    def eval_in_pre(self, st, clause):
        """a clause evaluated over the pre-state (parameters and heap at entry) under the current path condition"""
        tmp = State()
        o = st.old
        tmp.env, tmp.heap, tmp.alloc, tmp.ghost = dict(o.env), dict(o.heap), dict(o.alloc), o.ghost
        tmp.pc = st.pc
        tmp.old = o
        self.spec_mode += 1
        try:
            return self.eval_clause(tmp, clause)
        finally:
            self.spec_mode -= 1

    # ------------------------------------------------------------------ clauses (spec expressions)
    def eval_clause(self, st, clause, split=False):
        if isinstance(clause, tuple):
            clause = clause[1]
        if callable(clause):
            r = clause(self, st)
        else:
            node = ast.parse(clause.strip(), mode="eval").body
            r = self.eval(node, st)
        if split and isinstance(r, (list, tuple)) and len(r) > 1:
            return [self.clause_to_bool(x) for x in r]
        return self.clause_to_bool(r)

    def clause_to_bool(self, r):
        if isinstance(r, (list, tuple)):
            xs = [self.clause_to_bool(x) for x in r]
            return z3.And(*xs) if xs else z3.BoolVal(True)
        return as_bool(r)

    # ------------------------------------------------------------------ statements
    def exec_block(self, stmts, st):
        """Yield (state, flow) for every path through stmts."""
        if not stmts:
            yield st, (Flow.NEXT,)
            return
        first, rest = stmts[0], stmts[1:]
        for s1, flow in self.exec_stmt(first, st):
            if flow[0] == Flow.NEXT:
                yield from self.exec_block(rest, s1)
            else:
                yield s1, flow

    def exec_stmt(self, node, st):
        if self.paths > MAX_PATHS:
            raise Unsupported("path explosion (> %d paths)" % MAX_PATHS)
        m = getattr(self, "stmt_" + type(node).__name__, None)
        if m is None:
            raise Unsupported("statement %s at line %d" % (type(node).__name__, node.lineno))
        yield from m(node, st)

    def stmt_Pass(self, node, st):
        yield st, (Flow.NEXT,)

    def stmt_Expr(self, node, st):
        if isinstance(node.value, ast.Constant):
            yield st, (Flow.NEXT,)  # docstring
            return
        if isinstance(node.value, (ast.Yield, ast.YieldFrom)):
            yield from self.stmt_yield(node.value, st)
            return
        self.eval(node.value, st)
        yield st, (Flow.NEXT,)

    def stmt_yield(self, node, st):
        v = self.eval(node.value, st) if node.value is not None else NONE
        out = st.env.get("__yielded__")
        if out is None:
            raise Unsupported("yield in a function without a declared yield sort")
        st.env["__yielded__"] = self.list_append(out, v)
        yield st, (Flow.NEXT,)

    def stmt_Return(self, node, st):
        v = self.eval(node.value, st) if node.value is not None else NONE
        yield st, (Flow.RETURN, v)

    def stmt_Break(self, node, st):
        yield st, (Flow.BREAK,)

    def stmt_Continue(self, node, st):
        yield st, (Flow.CONTINUE,)

    def stmt_Try(self, node, st):
        """try: S0; S1...  except KeyError: H  [else: E]   where only the lookups of the FIRST statement S0 can raise KeyError and S0 has no effect before them
        (an assignment / expression statement whose evaluation is pure up to the lookups).  Then the block is `if <all lookups of S0 succeed>: S0; S1...; E
        else: H`.  The success condition is collected by a dry run of S0 on a copy of the state; a KeyError obligation arising in S1... stays an obligation
        (it would be caught in Python: reported Unsupported instead, see below)."""
        if node.finalbody or len(node.handlers) != 1 or not isinstance(node.handlers[0].type, ast.Name) or node.handlers[0].type.id != "KeyError" \
                or node.handlers[0].name is not None or not node.body:
            raise Unsupported("try statement other than `try ... except KeyError:` (line %d)" % node.lineno)
        if getattr(self, "concrete", False):
            try:
                outs = list(self.exec_block(node.body + node.orelse, st))
            except ConcreteRaise as e:
                if not str(e.tag).startswith("KeyError"):
                    raise
                outs = list(self.exec_block(node.handlers[0].body, st))
            yield from outs
            return
        first = node.body[0]
        if not isinstance(first, (ast.Assign, ast.Expr)) or (isinstance(first, ast.Assign) and not all(self._plain_target(t) for t in first.targets)):
            raise Unsupported("try block whose first statement is not a plain assignment or expression (line %d)" % node.lineno)
        probe = st.copy()
        n_obl, saved_counter = len(self.obligations), dict(self.counter)
        self._catching = conds = []
        try:
            list(self.exec_stmt(first, probe))
        finally:
            self._catching = None
            del self.obligations[n_obl:]
            self.counter = saved_counter
        ok = z3.And(*conds) if conds else z3.BoolVal(True)
        s_ok, s_fail = st, st.copy()
        s_ok.assume(ok)
        s_fail.assume(z3.Not(ok))
        if self.feasible(s_ok):
            self._try_rest = getattr(self, "_try_rest", 0) + 1
            try:
                outs = list(self.exec_block(node.body, s_ok))
            finally:
                self._try_rest -= 1
            for s1, flow in outs:
                if flow[0] == Flow.NEXT:
                    yield from self.exec_block(node.orelse, s1)
                else:
                    yield s1, flow
        if conds and self.feasible(s_fail):
            yield from self.exec_block(node.handlers[0].body, s_fail)

    def _first_of_try_done(self, st, goal):
        # the success condition of the first statement was assumed on this path: its own lookups are known to succeed
        return any(z3.is_expr(c) and (c.eq(goal) or (z3.is_and(c) and any(ch.eq(goal) for ch in c.children()))) for c in st.pc[-8:])

    def _plain_target(self, t):
        if isinstance(t, ast.Name):
            return True
        if isinstance(t, (ast.Tuple, ast.List)):
            return all(self._plain_target(x) for x in t.elts)
        return False

    def stmt_Raise(self, node, st):
        name = "Exception"
        if node.exc is not None:
            e = node.exc
            if isinstance(e, ast.Call):
                e = e.func
            if isinstance(e, ast.Name):
                name = e.id
            elif isinstance(e, ast.Attribute):
                name = e.attr
        yield st, (Flow.RAISE, name)

    def stmt_Assert(self, node, st):
        k = self.rel_line(node)
        if self.contract is not None and k in self.contract.extra.get("assume_asserts", ()):
            # a checked precondition: executions on which it fails raise AssertionError at this point and are outside the
            # contract (partial correctness on the non-raising executions); recorded in the evidence
            self.assumptions.add("%s: executions failing `assert %s` raise AssertionError there and are outside the contract" % (self.contract.qualname, ast.unparse(node.test)))
            try:
                st.assume(self.truth(node.test, st))
            except Unsupported:
                pass
            yield st, (Flow.NEXT,)
            return
        c = self.truth(node.test, st)
        self.oblige(st, "assert", c, "L%d" % k)
        yield st, (Flow.NEXT,)

    def rel_line(self, node):
        # ordinal of this assert among the function's asserts (stable under line shifts)
        asserts = [n for n in ast.walk(self.fn) if isinstance(n, ast.Assert)]
        asserts.sort(key=lambda n: (n.lineno, n.col_offset))
        for i, a in enumerate(asserts):
            if a is node:
                return i
        return -1

    def stmt_Assign(self, node, st):
        v = self.eval(node.value, st)
        fresh = not isinstance(node.value, (ast.Name, ast.Attribute, ast.Subscript))
        for t in node.targets:
            self.assign(t, v, st, fresh)
        yield st, (Flow.NEXT,)

    def stmt_AnnAssign(self, node, st):
        if node.value is None:
            # C declaration without initialiser (Cython front end): declare sort only
            sort = self.annotation_sort(node.annotation)
            if sort is not None and isinstance(node.target, ast.Name):
                st.env[node.target.id] = sort.fresh(node.target.id)
            yield st, (Flow.NEXT,)
            return
        v = self.eval(node.value, st)
        self.assign(node.target, v, st, True)
        yield st, (Flow.NEXT,)

    def annotation_sort(self, ann):
        return None

    def stmt_AugAssign(self, node, st):
        cur = self.eval(node.target, st)
        rhs = self.eval(node.value, st)
        if isinstance(cur, (VList, VSet, VDict)) and isinstance(node.target, ast.Name) and node.target.id in st.aliases:
            raise Unsupported("in-place %s on possibly aliased container %s (line %d)" % (
                type(node.op).__name__, node.target.id, node.lineno))
        v = self.binop(node.op, cur, rhs, st, node)
        self.assign(node.target, v, st, True)
        yield st, (Flow.NEXT,)

    def stmt_Delete(self, node, st):
        for t in node.targets:
            if isinstance(t, ast.Subscript):
                base = self.eval(t.value, st)
                key = self.eval(t.slice, st)
                if isinstance(base, VDict):
                    kz = to_z3(key, base.key)
                    self.oblige(st, "noexc", base.dom[kz], "KeyError")
                    self.assign(t.value, VDict(base.key, base.val, z3.Store(base.dom, kz, False), base.map), st, True)
                    continue
                if isinstance(base, VModel):
                    base.sym_delitem(self, st, key)
                    continue
            raise Unsupported("del at line %d" % node.lineno)
        yield st, (Flow.NEXT,)

    def assign(self, target, v, st, fresh=True):
        if isinstance(target, ast.Name):
            if isinstance(v, (VList, VDict, VSet)) and not fresh:
                st.aliases.add(target.id)
            elif target.id in st.aliases and fresh:
                st.aliases.discard(target.id)
            decl = self.contract.locals.get(target.id) if self.contract is not None else None
            if decl is not None:
                v = self.coerce(v, decl, st, target.id)
            st.env[target.id] = v
        elif isinstance(target, ast.Attribute):
            obj = self.eval(target.value, st)
            if isinstance(obj, VModel):
                obj.sym_setattr(self, st, target.attr, v)
            elif self.model_hook(obj, "setattr", st, target.attr, v) is not NotImplemented:
                pass
            elif isinstance(obj, VTuple) and target.attr in self.PAIR_FIELDS and len(obj.items) == 2:
                items = list(obj.items)
                items[self.PAIR_FIELDS[target.attr]] = v
                self.assign(target.value, VTuple(items), st, True)      # struct field store: write the updated pair back
            else:
                if isinstance(obj, VRef) and target.attr in self.reg.classes.get(obj.cls, {}):
                    v = self.coerce(v, self.field_sort(obj.cls, target.attr), st)
                self.store_field(st, obj, target.attr, v)
        elif isinstance(target, ast.Subscript):
            base = self.eval(target.value, st)
            if isinstance(target.value, ast.Name) and target.value.id in st.aliases and isinstance(base, (VList, VDict, VSet)) \
                    and target.value.id not in (self.contract.mutates if self.contract else ()):
                raise Unsupported("item store into possibly aliased container %s" % target.value.id)
            key = self.eval(target.slice, st)
            if isinstance(base, VModel):
                r = base.sym_setitem(self, st, key, v)
                if isinstance(r, VModel) and isinstance(target.value, ast.Name):
                    st.env[target.value.id] = r          # a model with value semantics returns its updated self
                return
            if self.model_hook(base, "setitem", st, key, v) is not NotImplemented:
                return
            new = self.store_item(base, key, v, st)
            self.assign(target.value, new, st, True)
        elif isinstance(target, (ast.Tuple, ast.List)):
            items = self.unpack(v, len(target.elts), st)
            for t, x in zip(target.elts, items):
                self.assign(t, x, st, fresh)
        else:
            raise Unsupported("assignment target %s" % type(target).__name__)

    def coerce(self, v, sort, st, name=""):
        if isinstance(v, VModel) and hasattr(v, "as_value") and not isinstance(sort, VModel):
            v = v.as_value()
        if v is NONE and isinstance(sort, REF):
            return VRef(sort.cls, z3.IntVal(0))
        if v is NONE and isinstance(sort, OPT):
            return VOpt(sort, sort.dt.none)
        if isinstance(sort, OPT) and not isinstance(v, VOpt):
            return VOpt(sort, sort.dt.some(to_z3(v, sort.inner)))
        if isinstance(sort, _Real) and is_z3int(v):
            return to_z3(v, sort)
        if v is NONE and isinstance(sort, MAYBE):
            r = sort.inner.fresh("none")
            r.none = z3.BoolVal(True)
            return r
        if isinstance(sort, MAYBE):
            r = self.coerce(v, sort.inner, st, name)
            if isinstance(r, (VList, VDict, VSet)) and getattr(r, "none", None) is None:
                r.none = z3.BoolVal(False)
            return r
        if isinstance(v, VOpt) and isinstance(sort, (_Int, _Real)):
            return self.unopt(st, v, "TypeError-None-argument")
        if isinstance(sort, _Int) and isinstance(v, VList) and getattr(v, "pystr", None) is not None:
            return self.key_of(v)        # a constant string held in a variable declared as a string id
        if isinstance(v, tuple) and v == ("emptyset",) and isinstance(sort, SET):
            return VSet(sort.key, z3.K(sort.key.z3sort(), z3.BoolVal(False)))
        if isinstance(v, tuple) and v == ("emptylist",) and isinstance(sort, LIST):
            return VList(sort.elem, z3.K(z3.IntSort(), to_z3(sort.elem.fresh("dflt"), sort.elem)), z3.IntVal(0), sort.is_str)
        if isinstance(v, VConstDict) and isinstance(sort, DICT):
            d = VDict(sort.key, sort.val, z3.K(sort.key.z3sort(), z3.BoolVal(False)), z3.K(sort.key.z3sort(), to_z3(sort.val.fresh("dflt"), sort.val)))
            for k, x in v.items:
                d = self.store_item(d, k, x, st)
            return d
        return v

    def unpack(self, v, n, st):
        if isinstance(v, VTuple):
            if len(v.items) != n:
                self.oblige(st, "noexc", z3.BoolVal(False), "unpack")
            return v.items
        if isinstance(v, VList):
            self.oblige(st, "noexc", v.len == n, "unpack")
            return [from_z3(v.arr[i], v.elem) for i in range(n)]
        raise Unsupported("unpack of %r" % (v,))

    def store_item(self, base, key, v, st):
        if isinstance(base, VList):
            k = to_z3(key)
            idx = z3.If(k < 0, k + base.len, k)
            self.oblige(st, "noexc", z3.And(idx >= 0, idx < base.len), "IndexError=")
            return VList(base.elem, z3.Store(base.arr, idx, to_z3(v, base.elem)), base.len, base.is_str)
        if isinstance(base, VDict):
            kz = to_z3(key, base.key)
            v = self.coerce(v, base.val, st)         # e.g. an empty dict()/{} stored as a value of a dict of dicts
            return VDict(base.key, base.val, z3.Store(base.dom, kz, True), z3.Store(base.map, kz, to_z3(v, base.val)))
        raise Unsupported("item store on %r" % (base,))

    def stmt_If(self, node, st):
        c = self.truth(node.test, st)
        c = z3.simplify(c)
        if z3.is_true(c):
            yield from self.exec_block(node.body, st)
            return
        if z3.is_false(c):
            yield from self.exec_block(node.orelse, st)
            return
        if getattr(self, "concrete", False):
            raise Unsupported("concrete run reached an undetermined branch condition: %s" % c)
        st2 = st.copy()
        if self.feasible(st, c):
            st.assume(c)
            yield from self.exec_block(node.body, st)
        if self.feasible(st2, z3.Not(c)):
            st2.assume(z3.Not(c))
            yield from self.exec_block(node.orelse, st2)

    # ---- loops
    def all_loops(self):
        loops = []

        def visit(stmts):       # source (pre-)order: a loop before the loops nested in it, independent of line numbers (synthetic in the Cython front end)
            for s_ in stmts:
                if isinstance(s_, (ast.For, ast.While)):
                    loops.append(s_)
                for f in ("body", "orelse", "finalbody"):
                    sub = getattr(s_, f, None)
                    if isinstance(sub, list) and not isinstance(s_, (ast.FunctionDef, ast.ClassDef)):
                        visit(sub)
                for h in getattr(s_, "handlers", []) or []:
                    visit(h.body)
        visit(self.fn.body)
        return loops

    def loop_ordinal(self, node):
        node = getattr(node, "_else_of", node)
        for i, l in enumerate(self.all_loops()):
            if l is node:
                return i
        raise Unsupported("loop not found")

    def assigned_in(self, stmts, receivers=None):
        names, fields, calls = set(), set(), []
        for s in stmts:
            for n in ast.walk(s):
                if isinstance(n, (ast.Assign, ast.AugAssign, ast.AnnAssign, ast.For, ast.Delete, ast.With)):
                    tg = n.targets if isinstance(n, (ast.Assign, ast.Delete)) else (
                        [i.optional_vars for i in n.items if i.optional_vars is not None] if isinstance(n, ast.With) else [n.target])
                    for t in tg:
                        self._targets(t, names, fields)
                elif isinstance(n, ast.Call):
                    calls.append(n)
                    # method calls that mutate their receiver in place
                    if isinstance(n.func, ast.Attribute) and n.func.attr in MUTATING_METHODS:
                        if receivers is not None and isinstance(n.func.value, ast.Name):
                            receivers.add(n.func.value.id)       # recorded apart: only a CONTAINER held in that name changes value by such a call
                        else:
                            self._targets(n.func.value, names, fields)
                elif isinstance(n, (ast.Yield,)):
                    names.add("__yielded__")
        return names, fields, calls

    def _targets(self, t, names, fields):
        if isinstance(t, ast.Name):
            names.add(t.id)
        elif isinstance(t, ast.Attribute):
            fields.add(t.attr)
            # storing into a container held in a field: a.b[i] = v  -> field b
        elif isinstance(t, ast.Subscript):
            self._targets(t.value, names, fields)
        elif isinstance(t, (ast.Tuple, ast.List)):
            for e in t.elts:
                self._targets(e, names, fields)
        elif isinstance(t, ast.Starred):
            self._targets(t.value, names, fields)

    def havoc_for_loop(self, st, body_stmts, extra_names=(), spec=None):
        receivers = set()
        names, fields, calls = self.assigned_in(body_stmts, receivers)
        # x.append(...) / x.write(...): the NAME x is rebound (value semantics) only when it holds a container; an object reference or a model object keeps
        # its identity (the object's fields are havocked through `modifies`)
        names |= {n for n in receivers if not isinstance(st.env.get(n), VRef)}
        names |= set(extra_names)
        # names the loop contract declares as not rebound by the body although the syntactic scan cannot tell (e.g. `ws[i].write(x)` on a list of
        # objects): not havocked; run_loop checks after every body path that the variable still holds the very same value
        names -= set((spec or {}).get("preserves", ()))
        for n in sorted(names):
            if n in st.env:
                v = st.env[n]
                if isinstance(v, VModel):
                    st.env[n] = v.havoc(self, st, n)
                    continue
                if v is NONE:
                    decl = self.contract.locals.get(n)
                    if decl is None:
                        raise Unsupported("loop modifies %s which holds None before the loop; declare its sort" % n)
                    st.env[n] = decl.fresh(n)
                    continue
                decl = self.contract.locals.get(n)
                st.env[n] = (decl or sort_of(v)).fresh(n)
                if isinstance(st.env[n], VList):
                    st.assume(st.env[n].len >= 0)
                if isinstance(st.env[n], VRef):
                    st.assume(z3.And(st.env[n].ref >= 0, st.env[n].ref < self.alloc_bound(st, st.env[n].cls)))
        # heap fields stored in the body (by attribute name, any class) and fields modified by callees
        mod = set()
        for cls, fs in self.reg.classes.items():
            for f in fs:
                if f in fields:
                    mod.add("%s.%s" % (cls, f))
        for call in calls:
            cc = self.resolve_contract(call, st, quiet=True)
            if cc is not None:
                mod |= set(cc.modifies)
        # model objects (files, ...) used in the body declare which heap fields their operations modify
        for s in body_stmts:
            for n in ast.walk(s):
                if isinstance(n, ast.Name) and isinstance(st.env.get(n.id), VModel):
                    mod |= set(getattr(st.env[n.id], "modifies_fields", ()))
        mod |= set((spec or {}).get("modifies", ()))       # declared by the loop contract (operations of object models)
        for k in sorted(mod):
            self.havoc_field(st, k)
        # allocation in the body: earlier iterations may have allocated objects of these classes and initialised their fields.  The
        # allocation counter moves to an unknown later value and the fields are havocked *above the counter's value at loop entry*
        # (objects that existed before the loop keep their fields unless those are in `mod` anyway).
        alloc_classes = set((spec or {}).get("allocates", ()))
        for call in calls:
            if isinstance(call.func, ast.Name) and call.func.id in self.reg.classes and call.func.id not in st.env:
                alloc_classes.add(call.func.id)
                ic = self.reg.contracts.get(call.func.id + ".__init__")
                if ic is not None:
                    alloc_classes |= set(ic.extra.get("allocates", ()))
            cc = self.resolve_contract(call, st, quiet=True)
            if cc is not None:
                alloc_classes |= set(cc.extra.get("allocates", ()))
        for cls in sorted(alloc_classes):
            a = self.alloc_bound(st, cls)
            na = z3.Int(fresh_name("alloc_" + cls))
            st.assume(na >= a)
            st.alloc[cls] = na
            for f in self.reg.classes.get(cls, {}):
                k = "%s.%s" % (cls, f)
                if k in mod:
                    continue
                n_ = z3.Int(fresh_name("n"))
                for g in [k] + [x for x in self.reg.ghost_deps.get(k, ()) if x not in mod]:
                    for hk, zs in self.heap_keys(g):
                        oldarr = self.heap_arr(st, hk, zs)
                        newarr = z3.Array(fresh_name("H_" + hk), z3.IntSort(), zs)
                        st.assume(z3.ForAll([n_], z3.Implies(n_ < a, newarr[n_] == oldarr[n_]), patterns=[newarr[n_]]))
                        st.heap[hk] = newarr
                st.dirty.add(k)
                mod.add(k)
        return names, mod

    def heap_keys(self, k):
        """All heap array keys (with z3 range sorts) that represent field k = 'Cls.field'."""
        cls, f = k.split(".")
        s = self.field_sort(cls, f)
        if isinstance(s, LIST):
            return [(k + "#arr", z3.ArraySort(z3.IntSort(), s.elem.z3sort())), (k + "#len", z3.IntSort())]
        if isinstance(s, DICT):
            return [(k + "#dom", z3.ArraySort(s.key.z3sort(), z3.BoolSort())), (k + "#map", z3.ArraySort(s.key.z3sort(), s.val.z3sort()))]
        if isinstance(s, SET):
            return [(k + "#dom", z3.ArraySort(s.key.z3sort(), z3.BoolSort()))]
        return [(k, s.z3sort())]

    def havoc_field(self, st, k):
        st.dirty.add(k)
        for g in [k] + list(self.reg.ghost_deps.get(k, ())):
            for hk, zs in self.heap_keys(g):
                self.heap_arr(st, hk, zs)   # make sure the pre-havoc array exists under its stable name
                st.heap[hk] = z3.Array(fresh_name("H_" + hk), z3.IntSort(), zs)

    def loop_spec(self, node):
        o = self.loop_ordinal(node)
        spec = self.contract.loops.get(o)
        if spec is None:
            if getattr(self, "concrete", False):
                return o, {}
            raise Unsupported("loop %d of %s has no invariant" % (o, self.contract.qualname))
        return o, spec

    def check_invariant(self, st, spec, o, kind):
        self.spec_mode += 1
        try:
            goals = [(cl[0] if isinstance(cl, tuple) else str(i), self.eval_clause(st, cl, split=True)) for i, cl in enumerate(spec.get("inv", []))]
        finally:
            self.spec_mode -= 1
        for tag, g in goals:
            self.oblige_parts(st, kind, g, "L%d.%s" % (o, tag))

    def assume_invariant(self, st, spec):
        self.spec_mode += 1
        try:
            for cl in spec.get("inv", []):
                st.assume(self.eval_clause(st, cl))
        finally:
            self.spec_mode -= 1

    def eval_variant(self, st, spec):
        if "variant" not in spec:
            return None
        self.spec_mode += 1
        try:
            return to_z3(self.eval(ast.parse(spec["variant"], mode="eval").body, st))
        finally:
            self.spec_mode -= 1

    def stmt_While(self, node, st):
        if node.orelse:
            raise Unsupported("while-else")
        o, spec = self.loop_spec(node)
        yield from self.run_loop(st, o, spec, node.body,
                                 guard=lambda s: self.truth(node.test, s),
                                 pre_body=None, post_body=None, extra_havoc=(), auto_variant=None)

    def run_loop(self, st, o, spec, body, guard, pre_body, post_body, extra_havoc, auto_variant, implicit_inv=None):
        if getattr(self, "concrete", False):
            # concrete cross-check run: the loop is simply executed
            for _ in range(100000):
                g = z3.simplify(guard(st))
                if z3.is_false(g):
                    yield st, (Flow.NEXT,)
                    return
                if not z3.is_true(g):
                    raise Unsupported("concrete run reached an undetermined loop condition")
                if pre_body:
                    pre_body(st)
                outs = list(self.exec_block(body, st))
                if len(outs) != 1:
                    raise Unsupported("concrete run forked")
                st, flow = outs[0]
                if flow[0] == Flow.BREAK:
                    yield st, (Flow.NEXT, "broke")
                    return
                if flow[0] not in (Flow.NEXT, Flow.CONTINUE):
                    yield st, flow
                    return
                if post_body:
                    post_body(st)
            raise Unsupported("concrete run: loop bound exceeded")
        # ghost snapshot: values at loop entry are available to invariants as entry(<name>)
        entry = st.copy()
        st.env["__entry%d__" % o] = entry
        if getattr(self, "slice_ordinal", None) != o:
            if implicit_inv is not None:
                for tag, g in implicit_inv(st):
                    self.oblige(st, "inv-init", g, "L%d.%s" % (o, tag))
            self.check_invariant(st, spec, o, "inv-init")
        outer_dirty = set(st.dirty)
        _names, havocked = self.havoc_for_loop(st, body, extra_havoc, spec)
        havocked = set(havocked)
        for k in list(havocked):
            havocked |= set(self.reg.ghost_deps.get(k, ()))
        st.dirty = set()
        if implicit_inv is not None:
            for tag, g in implicit_inv(st):
                st.assume(g)
        self.assume_invariant(st, spec)
        head = st
        g = z3.simplify(guard(head))
        # --- exit without entering
        exit_st = head.copy()
        exit_st.dirty = outer_dirty | havocked
        if not z3.is_true(g) and self.feasible(exit_st, z3.Not(g)):
            exit_st.assume(z3.Not(g))
            yield exit_st, (Flow.NEXT,)
        # --- one arbitrary iteration
        body_st = head.copy()
        if z3.is_false(g) or not self.feasible(body_st, g):
            return
        body_st.assume(g)
        v0 = auto_variant(body_st) if auto_variant else self.eval_variant(body_st, spec)
        if pre_body:
            pre_body(body_st)
        for s1, flow in self.exec_block(body, body_st):
            missed = {k for k in s1.dirty if k not in havocked and not self.reg.is_ghost(*k.split("."))}
            if missed:
                # soundness guard of the loop rule: everything the body writes must have been havocked at the loop head
                raise Unsupported("loop %d of %s writes %s which the loop rule did not havoc" % (o, self.contract.qualname, sorted(missed)))
            s1.dirty = s1.dirty | outer_dirty | havocked
            for n_ in spec.get("preserves", ()):
                if s1.env.get(n_) is not head.env.get(n_):
                    raise Unsupported("loop %d of %s rebinds %s which its contract declares preserved" % (o, self.contract.qualname, n_))
            if flow[0] in (Flow.NEXT, Flow.CONTINUE):
                if post_body:
                    post_body(s1)
                if implicit_inv is not None:
                    for tag, gg in implicit_inv(s1):
                        self.oblige(s1, "inv-preserve", gg, "L%d.%s" % (o, tag))
                self.check_invariant(s1, spec, o, "inv-preserve")
                if v0 is not None:
                    v1 = auto_variant(s1) if auto_variant else self.eval_variant(s1, spec)
                    if isinstance(v0, z3.BitVecRef):
                        self.oblige(s1, "variant", z3.ULT(v1, v0), "L%d" % o)   # unsigned machine integers are well-founded under <
                    else:
                        self.oblige(s1, "variant", z3.And(v0 >= 0, v1 < v0), "L%d" % o)
                self.paths += 1
            elif flow[0] == Flow.BREAK:
                yield s1, (Flow.NEXT, "broke")
            else:
                yield s1, flow

    def stmt_For(self, node, st):
        if node.orelse:
            # for ... else: the else block runs when the loop ends without `break`.  The loop itself is executed without its else clause; its exits carry a
            # mark saying whether they came from a break.
            plain = ast.For(target=node.target, iter=node.iter, body=node.body, orelse=[], type_comment=None)
            ast.copy_location(plain, node)
            plain._else_of = node
            for s1, flow in self.stmt_For(plain, st):
                if flow == (Flow.NEXT, "broke"):
                    yield s1, (Flow.NEXT,)
                elif flow[0] == Flow.NEXT:
                    yield from self.exec_block(node.orelse, s1)
                else:
                    yield s1, flow
            return
        it = self.eval(node.iter, st)
        if isinstance(it, VTuple):
            # a loop over a fixed-length tuple/constant collection is unrolled: no invariant needed
            yield from self.unroll(node, it.items, 0, st)
            return
        if isinstance(it, VCount):
            o, spec = self.loop_spec(node)
            idx = spec.get("index", "__i%d" % o)
            st.env[idx] = z3.IntVal(0)
            start, step = to_z3(it.start), to_z3(it.step)

            def implicit(s):
                return [("index", s.env[idx] >= 0)]

            def pre_body(s):
                self.assign(node.target, start + s.env[idx] * step, s, True)

            def post_body(s):
                s.env[idx] = s.env[idx] + 1
            yield from self.run_loop(st, o, spec, node.body, guard=lambda s: z3.BoolVal(True), pre_body=pre_body, post_body=post_body,
                                     extra_havoc=(idx,), auto_variant=None, implicit_inv=implicit)
            return
        o, spec = self.loop_spec(node)
        idx = spec.get("index", "__i%d" % o)
        if isinstance(it, VRef) and it.cls in self.reg.iterator_models:
            # an iterator object: every iteration takes items[cursor] and advances the cursor BEFORE the body runs (a return/break in the body leaves
            # the element consumed), exhaustion leaves cursor == len(items)
            items_f, cur_f = self.reg.iterator_models[it.cls]
            items = self.load_field(st, it, items_f)
            st.env[idx] = to_z3(self.load_field(st, it, cur_f))
            spec = dict(spec, modifies=list(spec.get("modifies", ())) + ["%s.%s" % (it.cls, cur_f)])
            start = st.env[idx]

            def implicit(s):
                i = s.env[idx]
                return [("cursor", z3.And(i >= start, i <= items.len, to_z3(self.load_field_raw(s, it, cur_f)) == i))]

            def pre_body(s):
                self.store_field(s, it, cur_f, s.env[idx] + 1)
                self.assign(node.target, from_z3(items.arr[s.env[idx]], items.elem), s, True)

            def post_body(s):
                s.env[idx] = s.env[idx] + 1
            yield from self.run_loop(st, o, spec, node.body, guard=lambda s: s.env[idx] < items.len, pre_body=pre_body, post_body=post_body,
                                     extra_havoc=(idx,), auto_variant=lambda s: items.len - s.env[idx], implicit_inv=implicit)
            return
        if isinstance(it, VRange):
            if not (isinstance(it.step, int) and it.step == 1):
                raise Unsupported("range step")
            lo, hi = to_z3(it.lo), to_z3(it.hi)
            if not isinstance(node.target, ast.Name):
                raise Unsupported("for target")
            tgt = node.target.id
            st.env[idx] = lo

            def implicit(s):
                i = s.env[idx]
                return [("range", z3.And(i >= lo, z3.Or(i <= hi, i == lo)))]

            def pre_body(s):
                s.env[tgt] = s.env[idx]

            def post_body(s):
                s.env[idx] = s.env[idx] + 1
            yield from self.run_loop(st, o, spec, node.body, guard=lambda s: s.env[idx] < hi, pre_body=pre_body,
                                     post_body=post_body, extra_havoc=(idx, ), auto_variant=lambda s: hi - s.env[idx],
                                     implicit_inv=implicit)
            return
        if isinstance(it, VList):
            st.env["__seq%d__" % o] = it          # invariants refer to the sequence a loop iterates over as seq(<loop>)
        self.last_set_iter = None
        seqlen, getter = self.iter_protocol(it, st)
        if seqlen is None:
            raise Unsupported("for over %r" % (it,))
        if self.last_set_iter is not None:
            st.env["__setiter%d__" % o] = (self.last_set_iter, idx)      # invariants refer to the elements already visited as visited(<loop>, v)
        st.env[idx] = z3.IntVal(0)

        def implicit(s):
            i = s.env[idx]
            return [("index", z3.And(i >= 0, i <= seqlen))]

        def pre_body(s):
            self.assign(node.target, getter(s.env[idx]), s, True)

        def post_body(s):
            s.env[idx] = s.env[idx] + 1
        # the loop target is bound per iteration; make sure it is havocked consistently
        yield from self.run_loop(st, o, spec, node.body, guard=lambda s: s.env[idx] < seqlen, pre_body=pre_body,
                                 post_body=post_body, extra_havoc=(idx, ), auto_variant=lambda s: seqlen - s.env[idx],
                                 implicit_inv=implicit)

    def unroll(self, node, items, k, st):
        if k >= len(items):
            yield st, (Flow.NEXT,)
            return
        self.assign(node.target, items[k], st, True)
        for s1, flow in self.exec_block(node.body, st):
            if flow[0] in (Flow.NEXT, Flow.CONTINUE):
                yield from self.unroll(node, items, k + 1, s1)
            elif flow[0] == Flow.BREAK:
                yield s1, (Flow.NEXT, "broke")
            else:
                yield s1, flow

    def unopt(self, st, v, what):
        """an Optional value used where a plain one is needed: None raises (TypeError / KeyError with a None key)"""
        if isinstance(v, VOpt):
            self.oblige(st, "noexc", z3.Not(v.is_none()), what)
            return from_z3(v.val(), v.sort.inner)
        return v

    def need_value(self, st, v):
        """a MAYBE(container) used as a container: TypeError if it is None"""
        if getattr(v, "none", None) is not None:
            self.oblige(st, "noexc", z3.Not(v.none), "TypeError-None-container")

    def iter_protocol(self, it, st):
        """(length, getter(index)->value) of an indexable iterable captured at loop entry."""
        self.need_value(st, it)
        if isinstance(it, VList):
            return it.len, (lambda i: from_z3(it.arr[i], it.elem))
        if isinstance(it, VTuple):
            raise Unsupported("for over tuple")
        if isinstance(it, VZip):
            parts = [self.iter_protocol(p, st) for p in it.parts]
            if any(p[0] is None for p in parts):
                return None, None
            n = parts[0][0]
            for p in parts[1:]:
                n = z3.If(p[0] < n, p[0], n)
            return n, (lambda i: VTuple([p[1](i) for p in parts]))
        if isinstance(it, VEnumerate):
            n, g = self.iter_protocol(it.inner, st)
            if n is None:
                return None, None
            return n, (lambda i: VTuple([i + it.start, g(i)]))
        if isinstance(it, VRange):
            if not (isinstance(it.step, int) and it.step == 1):
                return None, None
            lo, hi = to_z3(it.lo), to_z3(it.hi)
            return z3.If(hi > lo, hi - lo, 0), (lambda i: lo + i)
        if isinstance(it, VModel) and hasattr(it, "sym_iter"):
            return it.sym_iter(self, st)
        if isinstance(it, VRef) and it.cls in self.reg.iter_fields:
            seq = self.model_hook(it, "getattr", st, self.reg.iter_fields[it.cls])
            if seq is NotImplemented:
                seq = self.load_field(st, it, self.reg.iter_fields[it.cls])
            return self.iter_protocol(seq, st)
        if isinstance(it, VDictItems) and getattr(self, "concrete", False) and hasattr(it.d, "concrete_keys"):
            d = it.d
            items = [VTuple([k, from_z3(z3.simplify(d.map[to_z3(k, d.key)]), d.val)]) for k in d.concrete_keys]
            return z3.IntVal(len(items)), (lambda j: items[z3.simplify(j).as_long()])
        if isinstance(it, VDict):
            return self.iter_protocol(VSet(it.key, it.dom), st)       # iterating a dict iterates its keys
        if isinstance(it, VDictItems):
            d = it.d
            n, getter = self.iter_protocol(VSet(d.key, d.dom), st)
            return n, (lambda j: VTuple([getter(j), from_z3(d.map[to_z3(getter(j), d.key)], d.val)]))
        if isinstance(it, VSet) and getattr(self, "concrete", False):
            if not hasattr(it, "items"):
                raise Unsupported("concrete run: iteration over a set whose elements are not known")
            items = list(it.items)
            return z3.IntVal(len(items)), (lambda j: items[z3.simplify(j).as_long()])
        if isinstance(it, VSet):
            # a (finite) set is iterated in SOME order without repetition: an enumeration `ord` of its elements, unknown to the proof.  Iterating the very
            # same (unmodified) set value again gives the same order, as in CPython: the enumeration is cached per set expression along the path.
            zs = it.key.z3sort()
            cache = st.env.setdefault("__set_enums__", {})
            hit = cache.get(it.dom.get_id())
            if hit is not None and hit[3].dom.eq(it.dom):
                ordr, pos, n, _ = hit
                self.last_set_iter = hit
                return n, (lambda j: from_z3(ordr[j], it.key))
            n = z3.Int(fresh_name("setlen"))
            ordr = z3.Array(fresh_name("setord"), z3.IntSort(), zs)
            pos = z3.Function(fresh_name("setpos"), zs, z3.IntSort())
            i = z3.Int(fresh_name("i"))
            k = z3.Const(fresh_name("k"), zs)
            st.assume(n >= 0)
            st.assume(z3.ForAll([i], z3.Implies(z3.And(i >= 0, i < n), z3.And(it.dom[ordr[i]], pos(ordr[i]) == i)), patterns=[ordr[i]]))
            st.assume(forall_pat([k], z3.Implies(it.dom[k], z3.And(pos(k) >= 0, pos(k) < n, ordr[pos(k)] == k)), [pos(k), it.dom[k]]))
            self.assumptions.add("sets are finite and iterated once per element in an unspecified order")
            cache = dict(cache)
            cache[it.dom.get_id()] = (ordr, pos, n, it)
            st.env["__set_enums__"] = cache
            self.last_set_iter = (ordr, pos, n, it)
            return n, (lambda j: from_z3(ordr[j], it.key))
        return None, None

    def stmt_With(self, node, st):
        for item in node.items:
            v = self.eval(item.context_expr, st)
            if isinstance(v, VModel) and hasattr(v, "sym_enter"):
                v = v.sym_enter(self, st)
            if item.optional_vars is not None:
                self.assign(item.optional_vars, v, st, True)
        for s1, flow in self.exec_block(node.body, st):
            yield s1, flow

    # ------------------------------------------------------------------ expressions
    def eval(self, node, st):
        m = getattr(self, "expr_" + type(node).__name__, None)
        if m is None:
            raise Unsupported("expression %s at line %s" % (type(node).__name__, getattr(node, "lineno", "?")))
        return m(node, st)

    def expr_Constant(self, node, st):
        v = node.value
        if v is None:
            return NONE
        if isinstance(v, bool):
            return z3.BoolVal(v)
        if isinstance(v, int):
            return z3.IntVal(v)
        if isinstance(v, float):
            return z3.RealVal(repr(v))
        if isinstance(v, str):
            return self.str_const(v)
        raise Unsupported("constant %r" % (v,))

    def str_const(self, s):
        arr = z3.K(z3.IntSort(), z3.IntVal(0))
        for i, ch in enumerate(s):
            arr = z3.Store(arr, i, ord(ch))
        r = VList(INT, arr, z3.IntVal(len(s)), is_str=True)
        r.pystr = s
        return r

    def key_of(self, v):
        """integer key standing for a value used as a dictionary/set key in an object model: constant strings are interned"""
        if isinstance(v, VList) and getattr(v, "pystr", None) is not None:
            import hashlib
            return z3.IntVal(int.from_bytes(hashlib.sha1(v.pystr.encode()).digest()[:5], "big"))
        if isinstance(v, VList):
            raise Unsupported("non-constant string used as a key of an object model")
        return to_z3(v)

    def module_constant(self, name):
        """value of a module-level constant of the file under verification (read from the real source): literals, tuples and
        frozenset/set/tuple(...) of literals; sets become tuples in sorted order (only iteration and membership are supported on them)"""
        tree = getattr(self.src, "tree", None)
        if tree is None:
            return None
        for n in tree.body:
            if isinstance(n, ast.Assign) and len(n.targets) == 1 and isinstance(n.targets[0], ast.Name) and n.targets[0].id == name:
                v = n.value
                if isinstance(v, ast.Call) and isinstance(v.func, ast.Name) and v.func.id in ("frozenset", "set", "tuple", "list") and len(v.args) == 1:
                    try:
                        items = ast.literal_eval(v.args[0])
                    except Exception:
                        return None
                    if v.func.id in ("frozenset", "set"):
                        items = sorted(set(items))
                    return self.py_const(tuple(items))
                try:
                    return self.py_const(ast.literal_eval(v))
                except Exception:
                    return None
        return None

    def py_const(self, v):
        if isinstance(v, bool):
            return z3.BoolVal(v)
        if isinstance(v, int):
            return z3.IntVal(v)
        if isinstance(v, str):
            return self.str_const(v)
        if isinstance(v, (tuple, list)):
            return VTuple([self.py_const(x) for x in v])
        if isinstance(v, (set, frozenset)):
            return VTuple([self.py_const(x) for x in sorted(v)])
        raise Unsupported("module constant %r" % (v,))

    def expr_Name(self, node, st):
        if node.id in st.env:
            return st.env[node.id]
        if node.id in ("True", "False"):
            return z3.BoolVal(node.id == "True")
        if node.id in self.reg.constants:
            return self.reg.constants[node.id]
        if self.spec_mode and node.id in self.reg.spec_functions:
            return ("specfn", node.id)
        mc = self.module_constant(node.id)
        if mc is not None:
            return mc
        raise Unsupported("unbound name %s (line %s)" % (node.id, getattr(node, "lineno", "?")))

    PAIR_FIELDS = {"first": 0, "second": 1}

    def expr_Attribute(self, node, st):
        obj = self.eval(node.value, st)
        if isinstance(obj, VModel):
            return obj.sym_getattr(self, st, node.attr)
        if isinstance(obj, VTuple) and node.attr in self.PAIR_FIELDS and len(obj.items) == 2:
            return obj.items[self.PAIR_FIELDS[node.attr]]      # std::pair
        r = self.model_hook(obj, "getattr", st, node.attr)
        if r is not NotImplemented:
            return r
        return self.load_field(st, obj, node.attr)

    def model_hook(self, obj, hook, st, *args):
        """operations on objects of an axiomatised library class (Registry.object_models)"""
        if isinstance(obj, VRef):
            m = self.reg.object_models.get(obj.cls)
            fn = getattr(m, hook, None) if m is not None else None
            if fn is not None:
                if not self.spec_mode:
                    self.oblige(st, "noexc", obj.ref != 0, "None.%s" % hook)
                return fn(self, st, obj, *args)
        return NotImplemented

    def expr_Tuple(self, node, st):
        return VTuple([self.eval(e, st) for e in node.elts])

    def expr_List(self, node, st):
        items = [self.eval(e, st) for e in node.elts]
        if not items:
            return ("emptylist",)
        s = sort_of(items[0])
        arr = z3.K(z3.IntSort(), to_z3(items[0], s)) if True else None
        for i, x in enumerate(items):
            arr = z3.Store(arr, i, to_z3(x, s))
        return VList(s, arr, z3.IntVal(len(items)))

    def expr_Set(self, node, st):
        # a set display of constants/tuples: kept as the collection of its items (membership and iteration)
        return VTuple([self.eval(e, st) for e in node.elts])

    def expr_JoinedStr(self, node, st):
        """f-string: an opaque string value (an integer id) that is a function of the template text and of its integer-valued arguments"""
        import hashlib
        tmpl, argv = [], []
        for part in node.values:
            if isinstance(part, ast.Constant):
                tmpl.append(str(part.value))
            elif isinstance(part, ast.FormattedValue):
                v = self.eval(part.value, st)
                if not is_z3int(v):
                    raise Unsupported("f-string argument that is not an integer")
                tmpl.append("{%s}" % (ast.unparse(part.format_spec) if part.format_spec is not None else ""))
                argv.append(to_z3(v))
            else:
                raise Unsupported("f-string part")
        name = "FSTRING_" + hashlib.sha1("".join(tmpl).encode()).hexdigest()[:10]
        if not argv:
            return self.str_const("".join(tmpl))
        f = z3.Function(name, *([z3.IntSort()] * (len(argv) + 1)))
        return f(*argv)

    def expr_Lambda(self, node, st):
        return VLambda(node)

    def apply_lambda(self, lam, args, st):
        a = lam.node.args
        if a.vararg or a.kwarg or a.kwonlyargs or a.defaults or len(a.args) != len(args):
            raise Unsupported("lambda signature")
        saved = {p.arg: st.env.get(p.arg, self) for p in a.args}
        for p, v in zip(a.args, args):
            st.env[p.arg] = v
        try:
            return self.eval(lam.node.body, st)
        finally:
            for k, v in saved.items():
                if v is self:
                    st.env.pop(k, None)
                else:
                    st.env[k] = v

    def expr_Dict(self, node, st):
        items = []
        for k, v in zip(node.keys, node.values):
            if k is None:
                raise Unsupported("dict unpacking")
            items.append((self.eval(k, st), self.eval(v, st)))
        return VConstDict(items)

    def char_of(self, v):
        """code point of a one-character constant string (strings iterate as code points)"""
        if isinstance(v, VList) and v.is_str:
            n = z3.simplify(v.len)
            if z3.is_int_value(n) and n.as_long() == 1:
                return z3.simplify(v.arr[0])
        return None

    def truth(self, node, st):
        """truth value of an expression in a boolean context (if / while / assert / conditional expression tests): for `a and b`, `a or b`, `not a` only the
        truthiness of the operands matters, whatever their sorts"""
        if isinstance(node, ast.BoolOp):
            acc = None
            for v in node.values:
                if acc is None:
                    xb = self.truth(v, st)
                else:
                    xb = self.guarded(st, acc if isinstance(node.op, ast.And) else z3.Not(acc), lambda v=v: self.truth(v, st))
                acc = xb if acc is None else (z3.And(acc, xb) if isinstance(node.op, ast.And) else z3.Or(acc, xb))
            return acc
        if isinstance(node, ast.UnaryOp) and isinstance(node.op, ast.Not):
            return z3.Not(self.truth(node.operand, st))
        return as_bool(self.eval(node, st))

    def expr_IfExp(self, node, st):
        c = self.truth(node.test, st)
        a = self.guarded(st, c, lambda: self.eval(node.body, st))
        b = self.guarded(st, z3.Not(c), lambda: self.eval(node.orelse, st))
        return self.ite(c, a, b)

    def ite(self, c, a, b):
        if isinstance(a, VList) and isinstance(b, VList):
            return VList(a.elem, z3.If(c, a.arr, b.arr), z3.If(c, a.len, b.len), a.is_str)
        if isinstance(a, VTuple) and isinstance(b, VTuple) and len(a.items) == len(b.items):
            return VTuple([self.ite(c, x, y) for x, y in zip(a.items, b.items)])
        if isinstance(a, VRef) or isinstance(b, VRef):
            r = a if isinstance(a, VRef) else b
            return VRef(r.cls, z3.If(c, to_z3(a, REF(r.cls)), to_z3(b, REF(r.cls))))
        if isinstance(a, VOpt) or isinstance(b, VOpt):
            r = a if isinstance(a, VOpt) else b
            return VOpt(r.sort, z3.If(c, to_z3(self.coerce(a, r.sort, None), r.sort), to_z3(self.coerce(b, r.sort, None), r.sort)))
        if (a is NONE or b is NONE) and isinstance(b if a is NONE else a, (VList, VDict, VSet)):
            # `container if cond else None`: the container with a None flag (MAYBE)
            import copy as _copy
            v = _copy.copy(b if a is NONE else a)
            was = getattr(v, "none", None)
            was = was if was is not None else z3.BoolVal(False)
            v.none = z3.If(c, z3.BoolVal(True), was) if a is NONE else z3.If(c, was, z3.BoolVal(True))
            return v
        if a is NONE or b is NONE:
            raise Unsupported("conditional expression mixing None and a value of undeclared sort")
        az, bz = to_z3(a), to_z3(b)
        if az.sort() != bz.sort():
            if az.sort() == z3.IntSort() and bz.sort() == z3.RealSort():
                az = z3.ToReal(az)
            elif bz.sort() == z3.IntSort() and az.sort() == z3.RealSort():
                bz = z3.ToReal(bz)
            else:
                raise Unsupported("conditional expression of mixed sorts")
        return z3.If(c, az, bz)

    def guarded(self, st, cond, thunk):
        """Evaluate thunk with cond temporarily on the path condition (short-circuit semantics for noexc)."""
        n = len(st.pc)
        st.pc.append(cond)
        try:
            return thunk()
        finally:
            # obligations emitted inside copied the pc; facts assumed inside stay valid only under cond
            extra = st.pc[n + 1:]
            del st.pc[n:]
            for e in extra:
                st.pc.append(z3.Implies(cond, e))

    def expr_BoolOp(self, node, st):
        vals = []
        acc = None
        for i, v in enumerate(node.values):
            if acc is None:
                x = self.eval(v, st)
            else:
                x = self.guarded(st, acc if isinstance(node.op, ast.And) else z3.Not(acc), lambda: self.eval(v, st))
            xb = as_bool(x)
            vals.append((x, xb))
            acc = xb if acc is None else (z3.And(acc, xb) if isinstance(node.op, ast.And) else z3.Or(acc, xb))
        # value semantics of and/or only matter when the result is used as a non-bool; return the bool
        if all(isinstance(x, z3.ExprRef) and x.sort() == z3.BoolSort() or isinstance(x, bool) for x, _ in vals):
            return acc
        # general: a and b -> b if a else a
        res = vals[-1][0]
        for x, xb in reversed(vals[:-1]):
            res = self.ite(xb, res, x) if isinstance(node.op, ast.And) else self.ite(xb, x, res)
        return res

    def expr_UnaryOp(self, node, st):
        v = self.eval(node.operand, st)
        if isinstance(node.op, ast.Not):
            return z3.Not(as_bool(v))
        if isinstance(node.op, ast.USub):
            return -to_z3(v)
        if isinstance(node.op, ast.UAdd):
            return to_z3(v)
        if isinstance(node.op, ast.Invert):
            z = to_z3(v)
            if isinstance(z.sort(), z3.BitVecSortRef):
                return ~z
            return -z - 1
        raise Unsupported("unary op")

    def expr_BinOp(self, node, st):
        a = self.eval(node.left, st)
        b = self.eval(node.right, st)
        return self.binop(node.op, a, b, st, node)

    def binop(self, op, a, b, st, node=None):
        if isinstance(a, VList) and isinstance(b, VList) and isinstance(op, ast.Add):
            return self.list_concat(a, b)
        if isinstance(a, tuple) and a == ("emptylist",) and isinstance(op, ast.Add):
            return b
        if isinstance(a, VList) and isinstance(op, ast.Mult):
            n = to_z3(b)
            if z3.is_int_value(z3.simplify(a.len)) and z3.simplify(a.len).as_long() == 1:
                self.note_assumption(None)
                return VList(a.elem, z3.K(z3.IntSort(), a.arr[0]), z3.If(n > 0, n, 0), a.is_str)
            raise Unsupported("list repetition")
        if isinstance(a, VSet) and isinstance(b, VSet):
            k = z3.Const(fresh_name("k"), a.key.z3sort())
            if isinstance(op, ast.Sub):
                return VSet(a.key, z3.Lambda([k], z3.And(a.dom[k], z3.Not(b.dom[k]))))
            if isinstance(op, ast.BitOr):
                return VSet(a.key, z3.Lambda([k], z3.Or(a.dom[k], b.dom[k])))
            if isinstance(op, ast.BitAnd):
                return VSet(a.key, z3.Lambda([k], z3.And(a.dom[k], b.dom[k])))
        if isinstance(a, VOpt) or isinstance(b, VOpt):
            a, b = self.unopt(st, a, "TypeError-None-arithmetic"), self.unopt(st, b, "TypeError-None-arithmetic")
        if not (is_numlike(a) and is_numlike(b)):
            raise Unsupported("binop %s on %r, %r" % (type(op).__name__, a, b))
        az, bz = to_z3(a), to_z3(b)
        if isinstance(az.sort(), z3.BitVecSortRef) or isinstance(bz.sort(), z3.BitVecSortRef):
            return self.bv_binop(op, az, bz, st)
        if az.sort() == z3.BoolSort():
            az = z3.If(az, 1, 0)
        if bz.sort() == z3.BoolSort():
            bz = z3.If(bz, 1, 0)
        if isinstance(op, ast.Add):
            return az + bz
        if isinstance(op, ast.Sub):
            return az - bz
        if isinstance(op, ast.Mult):
            return az * bz
        if isinstance(op, ast.FloorDiv):
            self.oblige(st, "noexc", bz != 0, "ZeroDivision")
            if az.sort() == z3.RealSort() or bz.sort() == z3.RealSort():
                raise Unsupported("float floor division")
            return self.floordiv(az, bz)
        if isinstance(op, ast.Mod):
            self.oblige(st, "noexc", bz != 0, "ZeroDivision")
            return az - bz * self.floordiv(az, bz)
        if isinstance(op, ast.Div):
            self.oblige(st, "noexc", bz != 0, "ZeroDivision")
            return z3.ToReal(az) / z3.ToReal(bz) if az.sort() == z3.IntSort() and bz.sort() == z3.IntSort() else az / bz
        if isinstance(op, ast.Pow):
            if z3.is_int_value(bz) and 0 <= bz.as_long() <= 4:
                r = z3.IntVal(1)
                for _ in range(bz.as_long()):
                    r = r * az
                return r
            raise Unsupported("pow")
        if isinstance(op, (ast.BitAnd, ast.BitOr, ast.BitXor, ast.LShift, ast.RShift)):
            return self.int_bitop(op, az, bz, st)
        raise Unsupported("binop %s" % type(op).__name__)

    def int_bitop(self, op, az, bz, st):
        """&, |, ^ on Python ints: exact on operands in {0, 1} (flags and bits, the only use in the functions under contract); for any other operands the
        result is an unspecified integer -- an under-specification (true facts only), so clauses that would need more stay undecided"""
        if not isinstance(op, (ast.BitAnd, ast.BitOr, ast.BitXor)):
            raise Unsupported("shift on mathematical integers")
        a_, b_ = z3.simplify(az), z3.simplify(bz)
        if z3.is_int_value(a_) and z3.is_int_value(b_):
            x, y = a_.as_long(), b_.as_long()
            return z3.IntVal(x & y if isinstance(op, ast.BitAnd) else (x | y if isinstance(op, ast.BitOr) else x ^ y))
        name = {ast.BitAnd: "PYAND", ast.BitOr: "PYOR", ast.BitXor: "PYXOR"}[type(op)]
        f = z3.Function(name, z3.IntSort(), z3.IntSort(), z3.IntSort())
        r = f(az, bz)
        bits = z3.And(0 <= az, az <= 1, 0 <= bz, bz <= 1)
        exact = {ast.BitAnd: az * bz, ast.BitOr: z3.If(az + bz >= 1, 1, 0), ast.BitXor: z3.If(az == bz, 0, 1)}[type(op)]
        st.assume(z3.Implies(bits, r == exact))
        return r

    def bv_binop(self, op, az, bz, st):
        raise Unsupported("bit-vector arithmetic outside the clang front end")

    @staticmethod
    def floordiv(a, b):
        # Python floor division on ints.  z3's integer div is Euclidean (0 <= remainder), which is floor
        # division for a positive divisor; for a negative divisor floor(a/b) = floor((-a)/(-b)).
        return z3.If(b > 0, a / b, (-a) / (-b))

    def expr_Compare(self, node, st):
        left = self.eval(node.left, st)
        res = None
        for op, rnode in zip(node.ops, node.comparators):
            if res is None:
                right = self.eval(rnode, st)
            else:
                right = self.guarded(st, res, lambda: self.eval(rnode, st))
            c = self.compare(op, left, right, st)
            res = c if res is None else z3.And(res, c)
            left = right
        return res

    def compare(self, op, a, b, st):
        self._cur_state = st
        if isinstance(op, (ast.Is, ast.IsNot)):
            r = self.identical(a, b)
            return r if isinstance(op, ast.Is) else z3.Not(r)
        if isinstance(op, (ast.In, ast.NotIn)):
            r = self.contains(b, a, st)
            return r if isinstance(op, ast.In) else z3.Not(r)
        if isinstance(op, (ast.Eq, ast.NotEq)):
            r = self.equal(a, b)
            return r if isinstance(op, ast.Eq) else z3.Not(r)
        # ordering
        if isinstance(a, VOpt) or isinstance(b, VOpt) or a is NONE or b is NONE:
            ok = z3.BoolVal(True)
            if isinstance(a, VOpt):
                ok = z3.And(ok, z3.Not(a.is_none()))
                a = a.val()
            if isinstance(b, VOpt):
                ok = z3.And(ok, z3.Not(b.is_none()))
                b = b.val()
            if a is NONE or b is NONE:
                ok = z3.BoolVal(False)
            self.oblige(st, "noexc", ok, "TypeError-None-order")
            if a is NONE or b is NONE:
                return z3.BoolVal(False)
        if isinstance(a, VRef) and isinstance(b, VRef) and a.cls == b.cls and a.cls in getattr(self.reg, "order_keys", {}):
            # objects ordered by a key field (declared in the contract file, e.g. variants by position)
            fld = self.reg.order_keys[a.cls]
            a, b = self.load_field(st, a, fld), self.load_field(st, b, fld)
        if isinstance(a, VTuple) and isinstance(b, VTuple):
            return self.tuple_order(op, a, b, st)
        if isinstance(a, VList) and isinstance(b, VList):
            fn = self.reg.constants.get("__list_lt__")
            raise Unsupported("ordering of lists")
        az, bz = to_z3(a), to_z3(b)
        if az.sort() != bz.sort():
            if az.sort() == z3.IntSort() and bz.sort() == z3.RealSort():
                az = z3.ToReal(az)
            elif bz.sort() == z3.IntSort() and az.sort() == z3.RealSort():
                bz = z3.ToReal(bz)
        return self.order(op, az, bz)

    def order(self, op, az, bz):
        if isinstance(op, ast.Lt):
            return az < bz
        if isinstance(op, ast.LtE):
            return az <= bz
        if isinstance(op, ast.Gt):
            return az > bz
        if isinstance(op, ast.GtE):
            return az >= bz
        raise Unsupported("compare op")

    def tuple_order(self, op, a, b, st):
        n = min(len(a.items), len(b.items))
        strict = isinstance(op, (ast.Lt, ast.Gt))
        lt = ast.Lt() if isinstance(op, (ast.Lt, ast.LtE)) else ast.Gt()
        # lexicographic
        res = z3.BoolVal((len(a.items) < len(b.items)) if isinstance(lt, ast.Lt) else (len(a.items) > len(b.items))) if len(a.items) != len(b.items) \
            else z3.BoolVal(not strict)
        for i in reversed(range(n)):
            x, y = a.items[i], b.items[i]
            res = z3.If(self.equal(x, y), res, self.compare(lt, x, y, st))
        return res

    def identical(self, a, b):
        if a is NONE and b is NONE:
            return z3.BoolVal(True)
        if a is NONE or b is NONE:
            x = b if a is NONE else a
            if isinstance(x, VRef):
                return x.ref == 0
            if isinstance(x, VOpt):
                return x.is_none()
            if isinstance(x, (z3.ExprRef, VList, VTuple, VDict, VSet, int, VModel)):
                if isinstance(x, VModel) and hasattr(x, "sym_is_none"):
                    return x.sym_is_none()
                if getattr(x, "none", None) is not None:
                    return x.none
                return z3.BoolVal(False)
            raise Unsupported("is None on %r" % (x,))
        if isinstance(a, VRef) and isinstance(b, VRef):
            return a.ref == b.ref
        if isinstance(a, z3.ExprRef) and isinstance(b, z3.ExprRef) and a.sort() == z3.BoolSort():
            return a == b
        raise Unsupported("identity comparison of %r and %r" % (a, b))

    def equal(self, a, b):
        if a is NONE or b is NONE:
            return self.identical(a, b)
        if isinstance(a, VRef) and isinstance(b, VRef):
            m = self.reg.object_models.get(a.cls) if a.cls == b.cls else None
            if m is not None and hasattr(m, "equal") and getattr(self, "_cur_state", None) is not None:
                return m.equal(self, self._cur_state, a, b)      # a class that defines __eq__ (modelled in the contract file)
            return a.ref == b.ref   # default object equality is identity
        if isinstance(a, VTuple) and isinstance(b, VTuple):
            if len(a.items) != len(b.items):
                return z3.BoolVal(False)
            return z3.And(*[self.equal(x, y) for x, y in zip(a.items, b.items)]) if a.items else z3.BoolVal(True)
        if isinstance(a, VList) and isinstance(b, VList):
            i = z3.Int(fresh_name("i"))
            return z3.And(a.len == b.len, z3.ForAll([i], z3.Implies(z3.And(i >= 0, i < a.len), a.arr[i] == b.arr[i])))
        if isinstance(a, VOpt) and isinstance(b, VOpt):
            return a.expr == b.expr
        if isinstance(a, VOpt) or isinstance(b, VOpt):
            o, x = (a, b) if isinstance(a, VOpt) else (b, a)
            return z3.And(z3.Not(o.is_none()), o.val() == to_z3(x, o.sort.inner))
        if isinstance(a, VSet) and isinstance(b, VSet):
            k = z3.Const(fresh_name("k"), a.key.z3sort())
            return z3.ForAll([k], a.dom[k] == b.dom[k])
        if isinstance(a, VTuple) or isinstance(b, VTuple) or isinstance(a, VList) or isinstance(b, VList):
            lst, other = (a, b) if isinstance(a, VList) else (b, a)
            ch = self.char_of(lst) if isinstance(lst, VList) else None
            if isinstance(lst, VList) and getattr(lst, "pystr", None) is not None and getattr(other, "interned", False):
                return to_z3(other) == self.key_of(lst)      # a string held by a library object (modelled by its interned id) vs. a literal
            if ch is not None and is_z3int(other):
                return to_z3(other) == ch      # a character obtained by iterating a string vs. a one-character literal
            return z3.BoolVal(False) if (is_numlike(a) or is_numlike(b)) else self._uns("equality %r %r" % (a, b))
        az, bz = to_z3(a), to_z3(b)
        if az.sort() != bz.sort():
            if az.sort() == z3.IntSort() and bz.sort() == z3.RealSort():
                az = z3.ToReal(az)
            elif bz.sort() == z3.IntSort() and az.sort() == z3.RealSort():
                bz = z3.ToReal(bz)
            elif az.sort() == z3.BoolSort() and bz.sort() == z3.IntSort():
                az = z3.If(az, 1, 0)
            elif bz.sort() == z3.BoolSort() and az.sort() == z3.IntSort():
                bz = z3.If(bz, 1, 0)
            else:
                raise Unsupported("equality of sorts %s, %s" % (az.sort(), bz.sort()))
        return az == bz

    def _uns(self, msg):
        raise Unsupported(msg)

    def contains(self, container, x, st):
        self.need_value(st, container)
        r = self.model_hook(container, "contains", st, x)
        if r is not NotImplemented:
            return r
        if isinstance(container, VDict):
            return container.dom[to_z3(x, container.key)]
        if isinstance(container, VSet):
            return container.dom[to_z3(x, container.key)]
        if isinstance(container, VList):
            i = z3.Int(fresh_name("i"))
            return z3.Exists([i], z3.And(i >= 0, i < container.len, container.arr[i] == to_z3(x, container.elem)))
        if isinstance(container, VTuple):
            return z3.Or(*[self.equal(x, y) for y in container.items]) if container.items else z3.BoolVal(False)
        if isinstance(container, VModel):
            return container.sym_contains(self, st, x)
        raise Unsupported("in on %r" % (container,))

    def expr_Subscript(self, node, st):
        base = self.eval(node.value, st)
        if isinstance(node.slice, ast.Slice):
            return self.slice(base, node.slice, st)
        key = self.eval(node.slice, st)
        return self.getitem(base, key, st)

    def getitem(self, base, key, st):
        self.need_value(st, base)
        r = self.model_hook(base, "getitem", st, key)
        if r is not NotImplemented:
            return r
        if isinstance(base, VModel) and hasattr(base, "sym_getitem"):
            return base.sym_getitem(self, st, key)
        if isinstance(base, VList):
            k = to_z3(key)
            if self.spec_mode:
                # specification language: s[i] is the i-th element (no wrap-around of a symbolic index: `If` terms make quantifier triggers
                # unusable); literal negative indices count from the end as in Python
                ks = z3.simplify(k)
                idx = (k + base.len) if (z3.is_int_value(ks) and ks.as_long() < 0) else k
                return from_z3(base.arr[idx], base.elem)
            idx = z3.If(k < 0, k + base.len, k)
            self.oblige(st, "noexc", z3.And(idx >= 0, idx < base.len), "IndexError")
            return from_z3(base.arr[idx], base.elem)
        if isinstance(base, VTuple):
            k = z3.simplify(to_z3(key))
            if z3.is_int_value(k):
                i = k.as_long()
                if -len(base.items) <= i < len(base.items):
                    return base.items[i]
                self.oblige(st, "noexc", z3.BoolVal(False), "IndexError-tuple")
                return base.items[0] if base.items else NONE
            raise Unsupported("symbolic tuple index")
        if isinstance(base, VDict):
            if isinstance(key, VOpt) and not isinstance(base.key, OPT):
                key = self.unopt(st, key, "KeyError-None-key")
            kz = to_z3(key, base.key)
            self.oblige(st, "noexc", base.dom[kz], "KeyError")
            return from_z3(base.map[kz], base.val)
        if isinstance(base, VConstDict):
            kz = key if not isinstance(key, VList) else self.char_of(key)
            if kz is None:
                raise Unsupported("dict literal lookup with a non-character key")
            conds = []
            for k, v in base.items:
                kk = self.char_of(k) if isinstance(k, VList) else to_z3(k)
                if kk is None:
                    raise Unsupported("dict literal with multi-character string keys")
                conds.append((to_z3(kz) == kk, v))
            self.oblige(st, "noexc", z3.Or(*[c for c, _ in conds]) if conds else z3.BoolVal(False), "KeyError-literal")
            res = conds[-1][1]
            for c, v in reversed(conds[:-1]):
                res = self.ite(c, v, res)
            return res
        if isinstance(base, VModel):
            return base.sym_getitem(self, st, key)
        raise Unsupported("subscript on %r" % (base,))

    def slice(self, base, sl, st):
        if not isinstance(base, VList):
            if isinstance(base, VModel) and hasattr(base, "sym_slice"):
                return base.sym_slice(self, st, sl)
            raise Unsupported("slice of %r" % (base,))
        if sl.step is not None:
            raise Unsupported("slice step")
        self.need_value(st, base)
        n = base.len

        def clamp(v, default):
            if v is None:
                return default
            z = to_z3(self.eval(v, st))
            z = z3.If(z < 0, z + n, z)
            return z3.If(z < 0, 0, z3.If(z > n, n, z))
        lo = clamp(sl.lower, z3.IntVal(0))
        hi = clamp(sl.upper, n)
        i = z3.Int(fresh_name("i"))
        r = VList(base.elem, z3.Lambda([i], base.arr[i + lo]), z3.If(hi > lo, hi - lo, 0), base.is_str)
        r.view = (base.arr, lo)      # r[j] is base[j + lo]: consumers (min/max) state their facts over the base indices, which gives usable triggers
        return r

    def list_concat(self, a, b):
        i = z3.Int(fresh_name("i"))
        return VList(a.elem, z3.Lambda([i], z3.If(i < a.len, a.arr[i], b.arr[i - a.len])), a.len + b.len, a.is_str)

    def list_append(self, a, v):
        return VList(a.elem, z3.Store(a.arr, a.len, to_z3(v, a.elem)), a.len + 1, a.is_str)

    # ---- comprehensions
    def expr_GeneratorExp(self, node, st):
        return VGen(node, None)

    def expr_ListComp(self, node, st):
        return self.materialize(VGen(node, None), st)

    def gen_parts(self, gen, st):
        """For a single-`for` comprehension: (length n, bind(i, st2) -> None, elt node, [if nodes])."""
        node = gen.node
        if len(node.generators) != 1:
            raise Unsupported("nested comprehension")
        g = node.generators[0]
        it = self.eval(g.iter, st)
        n, getter = self.iter_protocol(it, st)
        if n is None:
            raise Unsupported("comprehension over %r" % (it,))
        return n, getter, g.target, node.elt, g.ifs

    def with_bound(self, st, target, value, thunk):
        saved = dict(st.env)
        try:
            self.assign(target, value, st, True)
            return thunk()
        finally:
            st.env = saved

    def gen_lambda(self, gen, st, elt_fn=None):
        """(n, i, cond(i), elem(i)) with i a fresh z3 Int bound variable."""
        n, getter, target, elt, ifs = self.gen_parts(gen, st)
        i = z3.Int(fresh_name("gi"))
        inrange = z3.And(i >= 0, i < n)

        def body():
            c = z3.BoolVal(True)
            for f in ifs:
                c = z3.And(c, as_bool(self.guarded(st, z3.And(inrange, c), lambda: self.eval(f, st))))
            e = self.guarded(st, z3.And(inrange, c), lambda: self.eval(elt, st))
            return c, e
        c, e = self.with_bound(st, target, getter(i), body)
        return n, i, c, e

    def concrete_items(self, v, st):
        """concrete cross-check run: the items of an iterable as a Python list of constants (comprehensions are evaluated element by element)"""
        if isinstance(v, VTuple):
            return list(v.items)
        if isinstance(v, VGen):
            n, getter, target, elt, ifs = self.gen_parts(v, st)
            n = z3.simplify(n).as_long()
            out = []
            saved = dict(st.env)
            try:
                for k in range(n):
                    self.assign(target, getter(z3.IntVal(k)), st, True)
                    keep = True
                    for f in ifs:
                        c = z3.simplify(as_bool(self.eval(f, st)))
                        if not (z3.is_true(c) or z3.is_false(c)):
                            raise Unsupported("concrete run: undetermined comprehension filter")
                        keep = keep and z3.is_true(c)
                        if not keep:
                            break
                    if keep:
                        out.append(self.eval(elt, st))
            finally:
                st.env = saved
            return out
        n, getter = self.iter_protocol(v, st)
        if n is None:
            raise Unsupported("concrete run: items of %r" % (v,))
        return [getter(z3.IntVal(k)) for k in range(z3.simplify(n).as_long())]

    def const_list(self, items, elem=None):
        if not items and elem is None:
            return ("emptylist",)
        s_ = elem or sort_of(items[0])
        if isinstance(s_, LIST) and s_.is_str:
            s_ = STR
        arr = z3.K(z3.IntSort(), to_z3(items[0], s_) if items else to_z3(s_.fresh("d"), s_))
        for k, x in enumerate(items):
            arr = z3.Store(arr, k, to_z3(x, s_))
        return VList(s_, arr, z3.IntVal(len(items)))

    def materialize(self, gen, st):
        if getattr(self, "concrete", False):
            items = self.concrete_items(gen, st)
            return self.const_list(items, elem=None if items else INT)
        n, i, c, e = self.gen_lambda(gen, st)
        s = sort_of(e)
        if not z3.is_true(z3.simplify(c)):
            # the filtered list is the subsequence of the elements passing the filter: src(j) is the source index of result element j
            # (strictly increasing, onto the passing indices via dst)
            m = z3.Int(fresh_name("flen"))
            arr = z3.Array(fresh_name("farr"), z3.IntSort(), s.z3sort())
            src = z3.Function(fresh_name("fsrc"), z3.IntSort(), z3.IntSort())
            dst = z3.Function(fresh_name("fdst"), z3.IntSort(), z3.IntSort())
            j, j2 = z3.Int(fresh_name("j")), z3.Int(fresh_name("j"))
            ez = to_z3(e, s)
            at = lambda t, x: z3.substitute(t, (i, x))
            st.assume(z3.And(m >= 0, m <= n))
            st.assume(z3.ForAll([j], z3.Implies(z3.And(j >= 0, j < m), z3.And(src(j) >= 0, src(j) < n, at(c, src(j)), arr[j] == at(ez, src(j)), dst(src(j)) == j)),
                                patterns=[src(j), arr[j]]))
            st.assume(z3.ForAll([j, j2], z3.Implies(z3.And(j >= 0, j < j2, j2 < m), src(j) < src(j2)), patterns=[z3.MultiPattern(src(j), src(j2))]))
            pats = [dst(i)]
            if not z3.eq(at(ez, z3.IntVal(0)), ez) and not z3.is_var(ez) and z3.is_app(ez) and ez.num_args() > 0:
                pats.append(ez)       # the element term of source index i also triggers "passing elements occur in the result"
            st.assume(z3.ForAll([i], z3.Implies(z3.And(i >= 0, i < n, c), z3.And(dst(i) >= 0, dst(i) < m, src(dst(i)) == i)), patterns=pats))
            r = VList(s, arr, m, is_str=False)
            r.filter_src, r.filter_dst = src, dst
            return r
        return VList(s, z3.Lambda([i], to_z3(e, s)), n, is_str=False)

    # ---- calls
    def expr_Call(self, node, st):
        from . import builtins_model
        return builtins_model.call(self, node, st)

    def resolve_contract(self, call, st, quiet=False):
        """Contract of the callee of an ast.Call, or None."""
        f = call.func
        name = None
        if isinstance(f, ast.Name):
            name = f.id
        elif isinstance(f, ast.Attribute):
            name = f.attr
        if name is None:
            return None
        return self.reg.lookup_callee(self.file, self.contract.qualname if self.contract else "", name)

    def call_contract(self, cc, args, st, node):
        """Modular call: assert requires, havoc modifies, assume ensures."""
        call_st = State()
        call_st.heap = st.heap   # shared dict view for evaluating requires
        call_st.alloc = st.alloc
        call_st.pc = st.pc
        call_st.ghost = st.ghost
        names = list(cc.params)
        if len(args) != len(names):
            raise Unsupported("call of %s with %d args (contract has %d)" % (cc.qualname, len(args), len(names)))
        for n, a in zip(names, args):
            call_st.env[n] = self.coerce(a, cc.params[n], st)
        for g in cc.ghost_params:
            if g in st.env:
                call_st.env[g] = st.env[g]
        # requires -> obligations at the call site
        self.spec_mode += 1
        try:
            reqs = [(cl[0] if isinstance(cl, tuple) else str(i), self.eval_clause(call_st, cl, split=True)) for i, cl in enumerate(cc.requires)]
        finally:
            self.spec_mode -= 1
        ord_ = self.call_ordinal(node)
        if cc is self.contract and cc.extra.get("decreases") is not None:
            # recursive call: the measure strictly decreases and is bounded below (termination)
            self.spec_mode += 1
            try:
                m_call = to_z3(self.eval(ast.parse(cc.extra["decreases"], mode="eval").body, call_st))
                entry = State()
                entry.env, entry.heap, entry.alloc, entry.pc = dict(st.old.env), dict(st.old.heap), dict(st.old.alloc), st.pc
                m_entry = to_z3(self.eval(ast.parse(cc.extra["decreases"], mode="eval").body, entry))
            finally:
                self.spec_mode -= 1
            self.oblige(st, "decreases", z3.And(m_call >= 0, m_call < m_entry), "%s@%d" % (cc.qualname.split(".")[-1], ord_))
        for exc, cond in cc.raises.items():
            self.spec_mode += 1
            try:
                g = self.eval_clause(call_st, cond)
            finally:
                self.spec_mode -= 1
            self.oblige(st, "pre@call", z3.Not(g), "%s@%d.no-%s" % (cc.qualname.split(".")[-1].split("::")[-1], self.call_ordinal(node), exc))
        for tag, g in reqs:
            self.oblige_parts(st, "pre@call", g, "%s@%d.%s" % (cc.qualname.split(".")[-1], ord_, tag))
        # snapshot for old()
        pre = State()
        pre.env = dict(call_st.env)
        pre.heap = dict(st.heap)
        pre.alloc = dict(st.alloc)
        for cls, a in list(st.alloc.items()):
            if not cls.startswith("pre:"):
                pre.alloc["pre:" + cls] = a      # the callee's "on entry" allocation counters are those of the call, not of the caller's entry
        pre.pc = st.pc
        # havoc
        for k in cc.modifies:
            self.havoc_field(st, k)
        for cls in cc.extra.get("allocates", ()):
            a = self.alloc_bound(st, cls)
            na = z3.Int(fresh_name("alloc_" + cls))
            st.assume(na >= a)
            st.alloc[cls] = na
        post = State()
        post.env = dict(call_st.env)
        post.heap = st.heap
        post.alloc = st.alloc
        post.pc = st.pc
        post.old = pre
        post.ghost = st.ghost
        ret = cc.returns.fresh("ret_" + cc.qualname.split(".")[-1]) if cc.returns is not None else NONE
        if cc.extra.get("yields") is not None:
            # a generator under contract, consumed by the caller: the sequence of yielded values (eager reading: sound when the consumer's effects do not
            # interfere with the generator's state, which the caller's frame conditions have to show)
            ret = LIST(cc.extra["yields"]).fresh("yielded_" + cc.qualname.split(".")[-1])
            post.env["__yielded__"] = ret
        if cc.extra.get("result_is") is not None:
            # the callee is verified to return a value equal (on its index range) to this spec term; list elements outside
            # [0, len) are unobservable (every read carries an index obligation), so the spec term itself may stand for the result
            ret = cc.extra["result_is"](self, post, [call_st.env[n] for n in names])
        if isinstance(ret, VRef):
            st.assume(z3.And(ret.ref >= 0, ret.ref < self.alloc_bound(st, ret.cls)))
        if isinstance(ret, VList):
            st.assume(ret.len >= 0)
        post.env["result"] = ret
        for m in cc.mutates:
            newv = sort_of(call_st.env[m]).fresh("new_" + m)
            post.env["new_" + m] = newv
        self.spec_mode += 1
        try:
            for cl in cc.extra.get("ghost_definitions", []):
                # equations that DEFINE ghost names (uninterpreted functions used by the callers' specifications) in terms of the callee's result: assumed at the
                # call, no obligation of the callee (a definitional extension, recorded as such)
                st.assume(self.eval_clause(post, cl))
                self.assumptions.add("ghost names defined at the call of %s: %s" % (cc.qualname, cl[0] if isinstance(cl, tuple) else "clause"))
            for cl in cc.ensures:
                st.assume(self.eval_clause(post, cl))
        finally:
            self.spec_mode -= 1
        st.heap = post.heap
        self.assumptions.add("callee contract used at call site: %s" % cc.label())
        # mutated container arguments: rebind caller-side names
        for m in cc.mutates:
            argnode = node.args[names.index(m) - (1 if names and names[0] == "self" and isinstance(node.func, ast.Attribute) else 0)]
            if isinstance(argnode, (ast.Name, ast.Attribute, ast.Subscript)):
                self.assign(argnode, post.env["new_" + m], st, True)      # a temporary (e.g. set(x)) is mutated too, but nobody sees it
        return ret

    def call_ordinal(self, node):
        calls = [n for n in ast.walk(self.fn) if isinstance(n, ast.Call)]
        calls.sort(key=lambda n: (n.lineno, n.col_offset))
        same = [c for c in calls if ast.dump(c.func) == ast.dump(node.func)]
        for i, c in enumerate(same):
            if c is node:
                return i
        return 0

    def note_assumption(self, text):
        if text:
            self.assumptions.add(text)


def desugar_comprehensions(fn):
    """Statement-level dict/list/set comprehensions (the whole right-hand side of an assignment or the returned value) rewritten into the
    loop they abbreviate, so that a loop invariant can be attached and calls in the element expression go through contracts:
        T = {k: v for x in it if c}   ==>   __compN = {} ; for x in it: (if c:) __compN[k] = v ; T = __compN
    (list: .append(v); set: .add(v)).  Only comprehensions whose element / key / value / filter contains a call are rewritten (the others are
    pure and evaluated by the comprehension model).  Python evaluates a comprehension exactly as this loop, in a scope of its own: the loop variable is
    renamed apart when it would shadow a name used elsewhere in the function.  Loop ordinals count the introduced loops in source order."""
    fn = copy.deepcopy(fn)
    counter = [0]
    used = {n.id for n in ast.walk(fn) if isinstance(n, ast.Name)} | {a.arg for a in fn.args.args}

    def rewrite_block(body):
        out = []
        for stmt in body:
            for f in ("body", "orelse", "finalbody"):
                if hasattr(stmt, f) and isinstance(getattr(stmt, f), list) and not isinstance(stmt, (ast.FunctionDef, ast.ClassDef)):
                    setattr(stmt, f, rewrite_block(getattr(stmt, f)))
            val = stmt.value if isinstance(stmt, (ast.Assign, ast.Return, ast.AnnAssign)) else None
            def effectful(c):
                parts = ([c.key, c.value] if isinstance(c, ast.DictComp) else [c.elt]) + list(c.generators[0].ifs)
                return any(isinstance(n, ast.Call) for p_ in parts for n in ast.walk(p_))
            if isinstance(val, (ast.DictComp, ast.ListComp, ast.SetComp)) and len(val.generators) == 1 and not val.generators[0].is_async and (effectful(val) or isinstance(val, ast.DictComp)):
                g = val.generators[0]
                # comprehension variables live in a scope of their own: rename them apart when the name occurs anywhere else in the function
                inside = {id(n) for n in ast.walk(val)} - {id(n) for n in ast.walk(g.iter)}
                outside_names = {n.id for n in ast.walk(fn) if isinstance(n, ast.Name) and id(n) not in inside} | {a.arg for a in fn.args.args}
                bound = {n.id for n in ast.walk(g.target) if isinstance(n, ast.Name)}
                ren = {b: "__c%d_%s" % (counter[0], b) for b in bound if b in outside_names}
                if ren:
                    for n in ast.walk(val):
                        if isinstance(n, ast.Name) and id(n) in inside and n.id in ren:
                            n.id = ren[n.id]
                tmp = "__comp%d" % counter[0]
                counter[0] += 1
                acc = ast.Name(id=tmp, ctx=ast.Load())
                if isinstance(val, ast.DictComp):
                    init = ast.Dict(keys=[], values=[])
                    step = ast.Assign(targets=[ast.Subscript(value=acc, slice=val.key, ctx=ast.Store())], value=val.value)
                elif isinstance(val, ast.ListComp):
                    init = ast.List(elts=[], ctx=ast.Load())
                    step = ast.Expr(value=ast.Call(func=ast.Attribute(value=acc, attr="append", ctx=ast.Load()), args=[val.elt], keywords=[]))
                else:
                    init = ast.Call(func=ast.Name(id="set", ctx=ast.Load()), args=[], keywords=[])
                    step = ast.Expr(value=ast.Call(func=ast.Attribute(value=acc, attr="add", ctx=ast.Load()), args=[val.elt], keywords=[]))
                inner = [step]
                for c in reversed(g.ifs):
                    inner = [ast.If(test=c, body=inner, orelse=[])]
                loop = ast.For(target=g.target, iter=g.iter, body=inner, orelse=[])
                pre = [ast.Assign(targets=[ast.Name(id=tmp, ctx=ast.Store())], value=init), loop]
                for n in pre:
                    ast.copy_location(n, stmt)
                    ast.fix_missing_locations(n)
                stmt.value = ast.copy_location(ast.Name(id=tmp, ctx=ast.Load()), val)
                out += pre
            out.append(stmt)
        return out
    fn.body = rewrite_block(fn.body)
    return fn


MUTATING_METHODS = {"append", "add", "update", "pop", "remove", "discard", "clear", "extend", "sort", "insert",
                    "popitem", "setdefault", "push_back", "erase", "write"}


def is_numlike(v):
    if isinstance(v, (bool, int, float)):
        return True
    if isinstance(v, z3.ExprRef):
        s = v.sort()
        return s in (z3.IntSort(), z3.RealSort(), z3.BoolSort()) or isinstance(s, z3.BitVecSortRef)
    return False
