"""C++ front end: `clang++-14 -Xclang -ast-dump=json` of the real source file (re-run on every check), lowered
to Python `ast` nodes with explicitly typed pseudo-calls, executed by CppEngine over fixed-width bit-vectors.

Modelled: built-in integer types as bit-vectors of their width, C++ conversions exactly as clang made them explicit
(ImplicitCastExpr / CompoundAssignOperator compute types), member fields of *this and of by-reference objects, if/while/for/
break/return, assert (live: the build is -UNDEBUG), throw, out-parameters through pointers.
Dropped / not modelled (a function using them is reported unsupported): templates, iterators, std containers, streams,
exceptions' unwinding beyond 'a throw ends the path', allocation, floating point.
Undefined behaviour checked as obligations: shift count >= width, signed overflow of + - *.
"""
import ast
import hashlib
import json
import os
import subprocess

import z3

from .api import REPO
from .engine import Engine, as_bool
from .values import *  # noqa
from .values import Sort, _Bool

TYPE_MAP = {
    "unsigned int": (32, False), "int": (32, True), "unsigned long": (64, False), "long": (64, True),
    "unsigned long long": (64, False), "long long": (64, True), "unsigned short": (16, False), "short": (16, True),
    "unsigned char": (8, False), "char": (8, True), "signed char": (8, True), "bool": (1, False),
}


def tyname(node):
    t = node.get("type", {})
    q = t.get("desugaredQualType") or t.get("qualType") or ""
    q = q.replace("const ", "").replace(" const", "").replace("volatile ", "").strip()
    q = q.rstrip("&").strip()
    return q


def parse_ty(q):
    q = q.replace("const ", "").replace(" const", "").strip().rstrip("&").strip()
    alias = {"size_t": "unsigned long", "uint64_t": "unsigned long", "uint32_t": "unsigned int", "GrayCodes::int_t": "unsigned int",
             "int_t": "unsigned int", "std::size_t": "unsigned long", "int64_t": "long", "int32_t": "int"}
    q = alias.get(q, q)
    if q in TYPE_MAP:
        return TYPE_MAP[q]
    if q.endswith("*"):
        return ("ptr", q[:-1].strip())
    return None


class _Lowering:
    def __init__(self):
        self.counter = 0

    def tick(self):
        self.counter += 1
        return self.counter

    def loc(self, n):
        n.lineno = self.tick()
        n.col_offset = 0
        n.end_lineno = n.lineno
        n.end_col_offset = 0
        return n

    def C(self, v):
        return self.loc(ast.Constant(value=v))

    def call(self, name, *args):
        return self.loc(ast.Call(func=self.loc(ast.Name(id=name, ctx=ast.Load())), args=list(args), keywords=[]))

    # ------------------------------------------------------------------ statements
    def stmts(self, node):
        k = node.get("kind")
        if k is None:
            return []
        if k == "CompoundStmt":
            out = []
            for c in node.get("inner", []):
                out += self.stmts(c)
            return out
        if k == "DeclStmt":
            out = []
            for d in node.get("inner", []):
                if d["kind"] != "VarDecl":
                    raise Unsupported("declaration %s" % d["kind"])
                t = tyname(d)
                if parse_ty(t) is None:
                    raise Unsupported("local of type %s" % t)
                init = [c for c in d.get("inner", []) if "kind" in c and not c["kind"].endswith("Comment")]
                val = self.expr(init[0]) if init else None
                tgt = self.loc(ast.Name(id=d["name"], ctx=ast.Store()))
                out.append(self.loc(ast.AnnAssign(target=tgt, annotation=self.C(t), value=val, simple=1)))
            return out
        if k == "IfStmt":
            inner = [c for c in node.get("inner", [])]
            cond = self.cond(inner[0])
            then = self.stmts(inner[1])
            els = self.stmts(inner[2]) if len(inner) > 2 else []
            return [self.loc(ast.If(test=cond, body=then or [self.loc(ast.Pass())], orelse=els))]
        if k == "WhileStmt":
            inner = node["inner"]
            w = self.loc(ast.While(test=None, body=None, orelse=[]))
            w.test = self.cond(inner[0])
            w.body = self.stmts(inner[1]) or [self.loc(ast.Pass())]
            return [w]
        if k == "ForStmt":
            init, condvar, cond, inc, body = (node["inner"] + [{}] * 5)[:5]
            out = self.stmts(init) if init.get("kind") else []
            w = self.loc(ast.While(test=None, body=None, orelse=[]))
            w.test = self.cond(cond) if cond.get("kind") else self.C(True)
            b = self.stmts(body)
            if any(isinstance(x, ast.Continue) for s in b for x in ast.walk(s)):
                raise Unsupported("continue inside a for loop")
            w.body = b + (self.stmts(inc) if inc.get("kind") else []) or [self.loc(ast.Pass())]
            return out + [w]
        if k == "ReturnStmt":
            inner = node.get("inner", [])
            return [self.loc(ast.Return(value=self.expr(inner[0]) if inner else None))]
        if k == "BreakStmt":
            return [self.loc(ast.Break())]
        if k == "ContinueStmt":
            return [self.loc(ast.Continue())]
        if k == "NullStmt":
            return []
        # expression statements
        return self.expr_stmt(node)

    def is_assert(self, node):
        # assert(e) without NDEBUG:  ParenExpr > ConditionalOperator(e, (void)0, __assert_fail(...))   (possibly wrapped in a cast to void)
        n = node
        while n.get("kind") in ("ParenExpr", "CStyleCastExpr", "ImplicitCastExpr", "ExprWithCleanups"):
            n = n["inner"][0]
        if n.get("kind") == "ConditionalOperator":
            txt = json.dumps(n["inner"][2])
            if "__assert_fail" in txt:
                return n["inner"][0]
        return None

    def expr_stmt(self, node):
        k = node["kind"]
        a = self.is_assert(node)
        if a is not None:
            return [self.loc(ast.Assert(test=self.cond(a), msg=None))]
        if k in ("ExprWithCleanups", "ParenExpr"):
            return self.expr_stmt(node["inner"][0])
        if k == "CXXThrowExpr":
            return [self.loc(ast.Raise(exc=self.loc(ast.Name(id="runtime_error", ctx=ast.Load())), cause=None))]
        if k == "BinaryOperator" and node["opcode"] == "=":
            lhs, rhs = node["inner"]
            return [self.loc(ast.Assign(targets=[self.lvalue(lhs)], value=self.expr(rhs)))]
        if k == "CompoundAssignOperator":
            lhs, rhs = node["inner"]
            op = node["opcode"][:-1]
            lt = tyname(lhs)
            clt = (node.get("computeLHSType", {}).get("desugaredQualType") or node.get("computeLHSType", {}).get("qualType") or lt)
            crt = (node.get("computeResultType", {}).get("desugaredQualType") or node.get("computeResultType", {}).get("qualType") or clt)
            cur = self.call("__cast__", self.expr_rvalue_of_lvalue(lhs), self.C(lt), self.C(clt))
            val = self.call("__bin__", self.C(op), cur, self.expr(rhs), self.C(crt))
            return [self.loc(ast.Assign(targets=[self.lvalue(lhs)], value=self.call("__cast__", val, self.C(crt), self.C(lt))))]
        if k == "UnaryOperator" and node["opcode"] in ("++", "--"):
            (lhs,) = node["inner"]
            lt = tyname(lhs)
            one = self.call("__lit__", self.C(1), self.C(lt))
            val = self.call("__bin__", self.C("+" if node["opcode"] == "++" else "-"), self.expr_rvalue_of_lvalue(lhs), one, self.C(lt))
            return [self.loc(ast.Assign(targets=[self.lvalue(lhs)], value=val))]
        if k in ("CallExpr", "CXXMemberCallExpr"):
            return [self.loc(ast.Expr(value=self.expr(node)))]
        raise Unsupported("statement %s" % k)

    def expr_rvalue_of_lvalue(self, node):
        return self.expr(node)

    def lvalue(self, node):
        k = node["kind"]
        if k == "DeclRefExpr":
            return self.loc(ast.Name(id=node["referencedDecl"]["name"], ctx=ast.Store()))
        if k == "MemberExpr":
            base = node["inner"][0] if node.get("inner") else {"kind": "CXXThisExpr"}
            return self.loc(ast.Attribute(value=self.expr(base), attr=node["name"], ctx=ast.Store()))
        if k == "UnaryOperator" and node["opcode"] == "*":
            p = node["inner"][0]
            while p["kind"] in ("ImplicitCastExpr", "ParenExpr"):
                p = p["inner"][0]
            if p["kind"] == "DeclRefExpr":
                return self.loc(ast.Name(id=p["referencedDecl"]["name"] + "__pointee", ctx=ast.Store()))
        if k == "ParenExpr":
            return self.lvalue(node["inner"][0])
        raise Unsupported("assignment to %s" % k)

    # ------------------------------------------------------------------ expressions
    def cond(self, node):
        e = self.expr(node)
        t = tyname(node)
        if t == "bool":
            return e
        return self.call("__tobool__", e, self.C(t))

    def expr(self, node):
        k = node["kind"]
        if k == "IntegerLiteral":
            return self.call("__lit__", self.C(int(node["value"])), self.C(tyname(node)))
        if k == "CXXBoolLiteralExpr":
            return self.C(bool(node["value"]))
        if k == "CXXNullPtrLiteralExpr" or k == "GNUNullExpr":
            return self.call("__lit__", self.C(0), self.C("unsigned long"))
        if k == "DeclRefExpr":
            return self.loc(ast.Name(id=node["referencedDecl"]["name"], ctx=ast.Load()))
        if k == "CXXThisExpr":
            return self.loc(ast.Name(id="self", ctx=ast.Load()))
        if k == "MemberExpr":
            base = node["inner"][0] if node.get("inner") else {"kind": "CXXThisExpr"}
            return self.loc(ast.Attribute(value=self.expr(base), attr=node["name"], ctx=ast.Load()))
        if k in ("ParenExpr", "ExprWithCleanups", "MaterializeTemporaryExpr", "CXXBindTemporaryExpr", "ConstantExpr"):
            return self.expr(node["inner"][0])
        if k in ("ImplicitCastExpr", "CStyleCastExpr", "CXXStaticCastExpr", "CXXFunctionalCastExpr"):
            inner = node["inner"][0]
            ck = node.get("castKind")
            if ck in ("LValueToRValue", "NoOp", "FunctionToPointerDecay", "ArrayToPointerDecay", "UncheckedDerivedToBase", "ConstructorConversion"):
                return self.expr(inner)
            if ck == "IntegralCast":
                return self.call("__cast__", self.expr(inner), self.C(tyname(inner)), self.C(tyname(node)))
            if ck in ("IntegralToBoolean", "PointerToBoolean"):
                return self.call("__tobool__", self.expr(inner), self.C(tyname(inner)))
            if ck == "NullToPointer":
                return self.call("__lit__", self.C(0), self.C("unsigned long"))
            if ck == "ToVoid":
                return self.expr(inner)
            raise Unsupported("cast kind %s" % ck)
        if k == "UnaryOperator":
            op = node["opcode"]
            (x,) = node["inner"]
            if op == "!":
                return self.loc(ast.UnaryOp(op=ast.Not(), operand=self.cond(x) if tyname(x) != "bool" else self.expr(x)))
            if op in ("~", "-", "+"):
                return self.call("__un__", self.C(op), self.expr(x), self.C(tyname(node)))
            if op == "*":
                p = x
                while p["kind"] in ("ImplicitCastExpr", "ParenExpr"):
                    p = p["inner"][0]
                if p["kind"] == "DeclRefExpr":
                    return self.loc(ast.Name(id=p["referencedDecl"]["name"] + "__pointee", ctx=ast.Load()))
            raise Unsupported("unary operator %s in expression" % op)
        if k == "BinaryOperator":
            op = node["opcode"]
            l, r = node["inner"]
            if op in ("&&", "||"):
                return self.loc(ast.BoolOp(op=ast.And() if op == "&&" else ast.Or(), values=[self.cond(l), self.cond(r)]))
            if op in ("<", "<=", ">", ">=", "==", "!="):
                return self.call("__cmp__", self.C(op), self.expr(l), self.expr(r), self.C(tyname(l)))
            if op in ("+", "-", "*", "/", "%", "<<", ">>", "&", "|", "^"):
                return self.call("__bin__", self.C(op), self.expr(l), self.expr(r), self.C(tyname(node)))
            raise Unsupported("binary operator %s in expression" % op)
        if k == "ConditionalOperator":
            c, a, b = node["inner"]
            return self.loc(ast.IfExp(test=self.cond(c), body=self.expr(a), orelse=self.expr(b)))
        if k == "CXXMemberCallExpr":
            callee = node["inner"][0]
            args = [self.expr(a) for a in node["inner"][1:] if a.get("kind") != "CXXDefaultArgExpr"]
            if callee["kind"] == "MemberExpr":
                base = callee["inner"][0] if callee.get("inner") else {"kind": "CXXThisExpr"}
                f = self.loc(ast.Attribute(value=self.expr(base), attr=callee["name"], ctx=ast.Load()))
                return self.loc(ast.Call(func=f, args=args, keywords=[]))
            raise Unsupported("member call")
        if k == "CallExpr":
            callee = node["inner"][0]
            while callee["kind"] in ("ImplicitCastExpr", "ParenExpr"):
                callee = callee["inner"][0]
            if callee["kind"] != "DeclRefExpr":
                raise Unsupported("indirect call")
            args = [self.expr(a) for a in node["inner"][1:] if a.get("kind") != "CXXDefaultArgExpr"]
            return self.loc(ast.Call(func=self.loc(ast.Name(id=callee["referencedDecl"]["name"], ctx=ast.Load())), args=args, keywords=[]))
        raise Unsupported("expression %s" % k)


class _FnMap:
    def __init__(self, src):
        self.src = src
        self.cache = {}

    def get(self, qualname, default=None):
        if qualname not in self.cache:
            self.cache[qualname] = self.src.load(qualname)
        return self.cache[qualname] or default


class CppSource:
    def __init__(self, relpath, repo=None):
        self.repo = repo or REPO
        self.rel = relpath
        self.path = os.path.join(self.repo, relpath)
        with open(self.path, "rb") as f:
            data = f.read()
        self.sha = hashlib.sha256(data).hexdigest()[:16]
        self.functions = _FnMap(self)
        self.raw = {}

    def dump(self, name):
        cmd = ["clang++-14", "-std=c++11", "-I", os.path.join(self.repo, "src"), "-fsyntax-only", "-Xclang", "-ast-dump=json",
               "-Xclang", "-ast-dump-filter=" + name, self.path]
        p = subprocess.run(cmd, stdout=subprocess.PIPE, stderr=subprocess.PIPE, text=True)
        data = p.stdout
        dec = json.JSONDecoder()
        i, docs = 0, []
        while i < len(data):
            while i < len(data) and data[i].isspace():
                i += 1
            if i >= len(data):
                break
            obj, j = dec.raw_decode(data, i)
            docs.append(obj)
            i = j
        return docs

    def load(self, qualname):
        short = qualname.split("::")[-1]
        docs = self.dump(qualname)
        want = getattr(self, "want_params", None)
        cands = []
        for d in docs:
            if d.get("kind") in ("CXXMethodDecl", "FunctionDecl", "CXXConstructorDecl") and d.get("name") == short:
                if [c for c in d.get("inner", []) if c.get("kind") == "CompoundStmt"]:
                    cands.append(d)
        if want is not None and len(cands) > 1:
            # several definitions share this name (e.g. operator== of std templates pulled in by headers): take the one whose
            # parameter names are those of the contract
            named = [d for d in cands if [p.get("name") for p in d.get("inner", []) if p.get("kind") == "ParmVarDecl"] == want]
            if named:
                cands = named
        for d in cands[:1]:
            if True:
                body = [c for c in d.get("inner", []) if c.get("kind") == "CompoundStmt"]
                self.raw[qualname] = d
                low = _Lowering()
                params = [c for c in d.get("inner", []) if c.get("kind") == "ParmVarDecl"]
                args = []   # `this` is bound by the contract (param "self"), not a syntactic parameter
                ptypes = {}
                for p in params:
                    args.append(ast.arg(arg=p.get("name", "_unnamed")))
                    ptypes[p.get("name", "_unnamed")] = tyname(p)
                # member initialisers of constructors are lowered as assignments
                pre = []
                for c in d.get("inner", []):
                    if c.get("kind") == "CXXCtorInitializer" and "anyInit" in c:
                        tgt = low.loc(ast.Attribute(value=low.loc(ast.Name(id="self", ctx=ast.Load())), attr=c["anyInit"]["name"], ctx=ast.Store()))
                        pre.append(low.loc(ast.Assign(targets=[tgt], value=low.expr(c["inner"][0]))))
                fn = ast.FunctionDef(name=short, args=ast.arguments(posonlyargs=[], args=args, kwonlyargs=[], kw_defaults=[], defaults=[]),
                                     body=pre + low.stmts(body[0]) or [ast.Pass()], decorator_list=[], returns=None)
                fn.lineno = 0
                fn.col_offset = 0
                fn._ptypes = ptypes
                fn._ret = (d.get("type", {}).get("qualType", "").split("(")[0].strip())
                ast.fix_missing_locations(fn)
                return fn
        return None

    def fn_hash(self, qualname):
        d = self.raw.get(qualname)
        if d is None:
            return None

        def strip(n):
            if isinstance(n, dict):
                return {k: strip(v) for k, v in n.items() if k not in ("id", "loc", "range", "previousDecl", "parentDeclContextId", "mangledName")}
            if isinstance(n, list):
                return [strip(x) for x in n]
            return n
        return hashlib.sha256(json.dumps(strip(d), sort_keys=True).encode()).hexdigest()[:12]


def _w(ty):
    t = parse_ty(ty)
    if t is None or t[0] == "ptr":
        if t is not None:
            return 64, False
        raise Unsupported("type %s" % ty)
    return t


class CppEngine(Engine):
    """Engine over bit-vectors.  Integer-typed values are z3 BitVecs; bool is z3 Bool."""

    def verify(self, contract):
        self.src.want_params = [p for p in contract.params if p != "self"]
        self.src.functions.cache.pop(contract.qualname, None)
        return super().verify(contract)

    def bind_params(self, st, contract, fn):
        params = dict(contract.params)
        if "self" in params:
            sort = params.pop("self")
            v = sort.fresh("self")
            st.env["self"] = v
            b = self.alloc_bound(st, sort.cls)
            st.assume(z3.And(v.ref > 0, v.ref < b))
        names = [a.arg for a in fn.args.args]
        if len(names) != len(params):
            raise Unsupported("arity of %s changed: %r vs contract %r" % (contract.qualname, names, list(params)))
        for (cname, sort), real in zip(params.items(), names):
            v = sort.fresh(cname)
            st.env[real] = v
            if real != cname:
                st.env[cname] = v
            if isinstance(sort, REF):
                st.assume(z3.And(v.ref > 0, v.ref < self.alloc_bound(st, sort.cls)))
        for g, sort in contract.ghost_params.items():
            st.env[g] = sort.fresh(g)

    def annotation_sort(self, ann):
        w, s = _w(ann.value)
        return CBOOL() if ann.value == "bool" else BV(w, s)

    def stmt_AnnAssign(self, node, st):
        if node.value is None:
            st.env[node.target.id] = self.annotation_sort(node.annotation).fresh(node.target.id)
        else:
            st.env[node.target.id] = self.eval(node.value, st)
        st.env["__type__" + node.target.id] = node.annotation.value
        yield st, ("next",)

    def expr_Call(self, node, st):
        f = node.func
        if isinstance(f, ast.Name) and f.id.startswith("__") and f.id.endswith("__") and f.id in CPP_FORMS:
            return CPP_FORMS[f.id](self, node, st)
        return super().expr_Call(node, st)

    def eval_variant(self, st, spec):
        v = spec.get("variant")
        if v is None:
            return None
        if callable(v):
            self.spec_mode += 1
            try:
                return v(self, st)
            finally:
                self.spec_mode -= 1
        return super().eval_variant(st, spec)


def _bv(eng, node, st, i):
    return eng.eval(node.args[i], st)


def f_lit(eng, node, st):
    v, ty = node.args[0].value, node.args[1].value
    if ty == "bool":
        return z3.BoolVal(bool(v))
    w, s = _w(ty)
    return z3.BitVecVal(v, w)


def f_cast(eng, node, st):
    x = eng.eval(node.args[0], st)
    fr, to = node.args[1].value, node.args[2].value
    return cast(x, fr, to)


def cast(x, fr, to):
    if to == "bool":
        return x if z3.is_bool(x) else x != 0
    tw, ts = _w(to)
    if z3.is_bool(x):
        return z3.If(x, z3.BitVecVal(1, tw), z3.BitVecVal(0, tw))
    fw, fs = _w(fr)
    if x.size() != fw:
        fw = x.size()
    if tw == fw:
        return x
    if tw < fw:
        return z3.Extract(tw - 1, 0, x)
    return z3.SignExt(tw - fw, x) if fs else z3.ZeroExt(tw - fw, x)


def f_tobool(eng, node, st):
    x = eng.eval(node.args[0], st)
    return x if z3.is_bool(x) else x != 0


def f_un(eng, node, st):
    op, ty = node.args[0].value, node.args[2].value
    x = eng.eval(node.args[1], st)
    if op == "~":
        return ~x
    if op == "-":
        w, s = _w(ty)
        if s:
            eng.oblige(st, "noexc", x != z3.BitVecVal(1 << (w - 1), w), "signed-overflow-neg")
        return -x
    return x


def f_bin(eng, node, st):
    op, ty = node.args[0].value, node.args[3].value
    a = eng.eval(node.args[1], st)
    b = eng.eval(node.args[2], st)
    w, s = _w(ty)
    if z3.is_bool(a):
        a = z3.If(a, z3.BitVecVal(1, w), z3.BitVecVal(0, w))
    if z3.is_bool(b):
        b = z3.If(b, z3.BitVecVal(1, w), z3.BitVecVal(0, w))
    if op in ("<<", ">>"):
        # shift count has its own type; bring to width w for z3
        if b.size() < w:
            b = z3.ZeroExt(w - b.size(), b)
        elif b.size() > w:
            b = z3.Extract(w - 1, 0, b)
        eng.oblige(st, "noexc", z3.ULT(b, z3.BitVecVal(w, w)), "shift-count")
        if op == "<<":
            return a << b
        return z3.LShR(a, b) if not s else a >> b
    if a.size() != w or b.size() != w:
        raise Unsupported("operand widths %d,%d for %s at type %s" % (a.size(), b.size(), op, ty))
    if op == "+":
        if s:
            eng.oblige(st, "noexc", z3.And(z3.BVAddNoOverflow(a, b, True), z3.BVAddNoUnderflow(a, b)), "signed-overflow-add")
        return a + b
    if op == "-":
        if s:
            eng.oblige(st, "noexc", z3.And(z3.BVSubNoOverflow(a, b), z3.BVSubNoUnderflow(a, b, True)), "signed-overflow-sub")
        return a - b
    if op == "*":
        if s:
            eng.oblige(st, "noexc", z3.And(z3.BVMulNoOverflow(a, b, True), z3.BVMulNoUnderflow(a, b)), "signed-overflow-mul")
        return a * b
    if op == "/":
        eng.oblige(st, "noexc", b != 0, "division-by-zero")
        return a / b if s else z3.UDiv(a, b)
    if op == "%":
        eng.oblige(st, "noexc", b != 0, "division-by-zero")
        return z3.SRem(a, b) if s else z3.URem(a, b)
    if op == "&":
        return a & b
    if op == "|":
        return a | b
    if op == "^":
        return a ^ b
    raise Unsupported("binary op %s" % op)


def f_cmp(eng, node, st):
    op, ty = node.args[0].value, node.args[3].value
    a = eng.eval(node.args[1], st)
    b = eng.eval(node.args[2], st)
    if z3.is_bool(a) or z3.is_bool(b):
        if op == "==":
            return as_bool(a) == as_bool(b)
        if op == "!=":
            return as_bool(a) != as_bool(b)
        raise Unsupported("ordering of bools")
    w, s = _w(ty)
    if op == "==":
        return a == b
    if op == "!=":
        return a != b
    if s:
        return {"<": a < b, "<=": a <= b, ">": a > b, ">=": a >= b}[op]
    return {"<": z3.ULT(a, b), "<=": z3.ULE(a, b), ">": z3.UGT(a, b), ">=": z3.UGE(a, b)}[op]


CPP_FORMS = {"__lit__": f_lit, "__cast__": f_cast, "__tobool__": f_tobool, "__un__": f_un, "__bin__": f_bin, "__cmp__": f_cmp}
