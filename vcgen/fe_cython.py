"""Cython front end: the .pyx file of /repo's working tree is parsed with Cython's own parser (Cython.Compiler.Parsing, no code generation)
on every run and every function is lowered to Python `ast`, which the common engine executes.

Modelled: cdef/def functions and methods of cdef classes; `cdef T x [= e]` declarations (sort taken from the contract file's C type table);
C integer locals as mathematical integers (range assumptions are stated in the contracts); `vector[T]` as a sequence, `unordered_map` as a finite
map, `pair` as a 2-tuple with fields first/second, `ptr[0]` as the pointee value and `ptr.at/size/push_back` as operations on the pointee vector,
`new T()` as an allocation (model in the contract file), NULL as None; `char*` into a bytes object as (sequence, offset) with pointer arithmetic on the
offset and every read an in-bounds obligation; typed memoryviews as sequences; `with nogil` as its body; `//` and `%` with Python semantics (Cython's
default cdivision=False).
Dropped: pointer identity and ownership (new/del: a pointee is an immutable value), `nogil`, `boundscheck(False)` (every index is an obligation),
memoryview layout, exceptions other than `raise X(...)` ending a path.
"""
import ast
import hashlib
import os

import z3

from .api import REPO
from .engine import Engine
from .values import *  # noqa


def _parse(path, modname):
    from Cython.Compiler.Main import Context, CompilationOptions, default_options
    from Cython.Compiler.Scanning import FileSourceDescriptor, PyrexScanner
    from Cython.Compiler.Symtab import ModuleScope
    from Cython.Compiler import Parsing
    from Cython.Utils import open_source_file
    opts = CompilationOptions(default_options, language_level=3, cplus=True)
    ctx = Context.from_options(opts)
    src = FileSourceDescriptor(path)
    f = open_source_file(path)
    try:
        scope = ModuleScope(modname, None, ctx)
        s = PyrexScanner(f, src, source_encoding=f.encoding, scope=scope, context=ctx)
        return Parsing.p_module(s, 0, modname)
    finally:
        f.close()


class _Lower:
    def __init__(self):
        self.n = 0

    def loc(self, node, src=None):
        self.n += 1
        node.lineno = self.n
        node.col_offset = 0
        node.end_lineno = self.n
        node.end_col_offset = 0
        if src is not None and getattr(src, "pos", None):
            node.src_line = src.pos[1]
        return node

    # ---------------------------------------------------------------- helpers
    def decl_name(self, d):
        while d is not None and not hasattr(d, "name"):
            d = getattr(d, "base", None)
        if d is None:
            return ""
        if type(d).__name__ != "CNameDeclaratorNode" and hasattr(d, "base"):
            return self.decl_name(d.base)
        return d.name

    def type_name(self, bt):
        t = type(bt).__name__
        if t == "CSimpleBaseTypeNode":
            # signedness and length are part of the type: `unsigned char` is not `char`, `long long` is not `int`
            pre = {0: "unsigned ", 2: "signed "}.get(getattr(bt, "signed", 1), "") if getattr(bt, "is_basic_c_type", False) else ""
            pre += {-1: "short ", 1: "long ", 2: "long long "}.get(getattr(bt, "longness", 0), "") if getattr(bt, "is_basic_c_type", False) else ""
            return (pre + bt.name) if bt.name is not None else None
        if t == "MemoryViewSliceTypeNode":
            return self.type_name(bt.base_type_node) + "[%s]" % ",".join(":" for _ in bt.axes)
        if t == "TemplatedTypeNode":
            return self.type_name(bt.base_type_node) + "[...]"
        if t == "CNestedBaseTypeNode":
            return self.type_name(bt.base_type) + "." + bt.name
        if t == "CConstOrVolatileTypeNode":
            return self.type_name(bt.base_type)
        return t

    def args_of(self, declarator_args):
        out = []
        for a in declarator_args:
            name = self.decl_name(a.declarator)
            tname = self.type_name(a.base_type) if a.base_type is not None else None
            if not name:
                name, tname = tname, None        # untyped argument: the "type" position holds its name
            arg = ast.arg(arg=name)
            arg.ctype = tname
            out.append(arg)
        return out

    # ---------------------------------------------------------------- statements
    def body(self, node):
        if node is None:
            return []
        t = type(node).__name__
        if t == "StatListNode":
            out = []
            for s in node.stats:
                out += self.body(s)
            return out
        return self.stmt(node)

    def stmt(self, n):
        t = type(n).__name__
        L = lambda x: self.loc(x, n)
        if t == "PassStatNode":
            return [L(ast.Pass())]
        if t == "ExprStatNode":
            return [L(ast.Expr(value=self.expr(n.expr)))]
        if t == "SingleAssignmentNode":
            return [L(ast.Assign(targets=[self.expr(n.lhs, store=True)], value=self.expr(n.rhs)))]
        if t == "CascadedAssignmentNode":
            return [L(ast.Assign(targets=[self.expr(x, store=True) for x in n.lhs_list], value=self.expr(n.rhs)))]
        if t == "InPlaceAssignmentNode":
            return [L(ast.AugAssign(target=self.expr(n.lhs, store=True), op=BINOPS[n.operator](), value=self.expr(n.rhs)))]
        if t == "CVarDefNode":
            out = []
            tname = self.type_name(n.base_type) or "object"
            for d in n.declarators:
                name = self.decl_name(d)
                dd = d
                while dd is not None and type(dd).__name__ != "CNameDeclaratorNode":
                    tname_ptr = True
                    dd = getattr(dd, "base", None)
                default = getattr(dd, "default", None)
                ann = L(ast.Constant(value=tname + ("*" if type(d).__name__ == "CPtrDeclaratorNode" else "")))
                out.append(L(ast.AnnAssign(target=L(ast.Name(id=name, ctx=ast.Store())), annotation=ann,
                                           value=self.expr(default) if default is not None else None, simple=1)))
            return out
        if t == "IfStatNode":
            res = self.body(n.else_clause) if n.else_clause is not None else []
            for clause in reversed(n.if_clauses):
                res = [L(ast.If(test=self.expr(clause.condition), body=self.body(clause.body) or [L(ast.Pass())], orelse=res))]
            return res
        if t == "WhileStatNode":
            if n.else_clause is not None:
                raise Unsupported("while-else")
            return [L(ast.While(test=self.expr(n.condition), body=self.body(n.body) or [L(ast.Pass())], orelse=[]))]
        if t == "ForInStatNode":
            if n.else_clause is not None:
                raise Unsupported("for-else")
            seq = n.iterator.sequence if hasattr(n.iterator, "sequence") else n.iterator
            return [L(ast.For(target=self.expr(n.target, store=True), iter=self.expr(seq), body=self.body(n.body) or [L(ast.Pass())], orelse=[]))]
        if t == "ReturnStatNode":
            return [L(ast.Return(value=self.expr(n.value) if n.value is not None else None))]
        if t == "AssertStatNode":
            cond = getattr(n, "condition", None) or getattr(n, "cond", None)
            return [L(ast.Assert(test=self.expr(cond), msg=None))]
        if t == "RaiseStatNode":
            e = n.exc_type
            exc = self.expr(e) if e is not None else None
            return [L(ast.Raise(exc=exc, cause=None))]
        if t == "BreakStatNode":
            return [L(ast.Break())]
        if t == "ContinueStatNode":
            return [L(ast.Continue())]
        if t == "GILStatNode":
            return self.body(n.body)
        if t == "DelStatNode":
            # `del ptr` frees a C++ object: ownership is not modelled
            return [L(ast.Pass())]
        if t in ("CFuncDefNode", "DefNode"):
            raise Unsupported("nested function")
        raise Unsupported("Cython statement %s" % t)

    # ---------------------------------------------------------------- expressions
    def expr(self, n, store=False):
        t = type(n).__name__
        L = lambda x: self.loc(x, n)
        ctx = ast.Store() if store else ast.Load()
        if t == "NameNode":
            return L(ast.Name(id=n.name, ctx=ctx))
        if t == "IntNode":
            return L(ast.Constant(value=int(n.value.rstrip("UuLl") or 0, 0)))
        if t == "BoolNode":
            return L(ast.Constant(value=bool(n.value)))
        if t == "NoneNode":
            return L(ast.Constant(value=None))
        if t == "NullNode":
            return L(ast.Constant(value=None))
        if t in ("UnicodeNode", "StringNode", "BytesNode"):
            v = n.value
            return L(ast.Constant(value=str(v)))
        if t == "FloatNode":
            return L(ast.Constant(value=float(n.value)))
        if t == "AttributeNode":
            return L(ast.Attribute(value=self.expr(n.obj), attr=n.attribute, ctx=ctx))
        if t == "IndexNode":
            return L(ast.Subscript(value=self.expr(n.base), slice=self.expr(n.index), ctx=ctx))
        if t == "SimpleCallNode" and type(n.function).__name__ == "NewExprNode":
            # `new T(args)`: one call __new__("T", args)
            inner = self.expr(n.function)
            inner.args += [self.expr(a) for a in n.args]
            return inner
        if t == "SimpleCallNode":
            return L(ast.Call(func=self.expr(n.function), args=[self.expr(a) for a in n.args], keywords=[]))
        if t == "GeneralCallNode":
            args = [self.expr(a) for a in n.positional_args.args]
            kws = []
            if n.keyword_args is not None:
                for item in n.keyword_args.key_value_pairs:
                    kws.append(ast.keyword(arg=str(item.key.value), value=self.expr(item.value)))
            return L(ast.Call(func=self.expr(n.function), args=args, keywords=kws))
        if t == "PrimaryCmpNode":
            ops, comps = [CMPOPS[n.operator]()], [self.expr(n.operand2)]
            c = n.cascade
            while c is not None:
                ops.append(CMPOPS[c.operator]())
                comps.append(self.expr(c.operand2))
                c = c.cascade
            return L(ast.Compare(left=self.expr(n.operand1), ops=ops, comparators=comps))
        if t == "BoolBinopNode":
            return L(ast.BoolOp(op=ast.And() if n.operator == "and" else ast.Or(), values=[self.expr(n.operand1), self.expr(n.operand2)]))
        if t == "NotNode":
            return L(ast.UnaryOp(op=ast.Not(), operand=self.expr(n.operand)))
        if t == "UnaryMinusNode":
            return L(ast.UnaryOp(op=ast.USub(), operand=self.expr(n.operand)))
        if t == "UnaryPlusNode":
            return self.expr(n.operand)
        if t == "TildeNode":
            return L(ast.UnaryOp(op=ast.Invert(), operand=self.expr(n.operand)))
        if hasattr(n, "operator") and hasattr(n, "operand1") and hasattr(n, "operand2") and n.operator in BINOPS:
            return L(ast.BinOp(left=self.expr(n.operand1), op=BINOPS[n.operator](), right=self.expr(n.operand2)))
        if t == "TupleNode":
            return L(ast.Tuple(elts=[self.expr(a, store) for a in n.args], ctx=ctx))
        if t == "ListNode":
            return L(ast.List(elts=[self.expr(a) for a in n.args], ctx=ctx))
        if t == "CondExprNode":
            return L(ast.IfExp(test=self.expr(getattr(n, 'condition', None) or n.test), body=self.expr(n.true_val), orelse=self.expr(n.false_val)))
        if t == "TypecastNode":
            return self.expr(n.operand)
        if t in ("SizeofTypeNode", "SizeofVarNode"):
            return L(ast.Constant(value=0))        # sizeof(T) only ever parameterises an allocation whose element size is not modelled
        if t == "YieldExprNode":
            return L(ast.Yield(value=self.expr(n.arg) if n.arg is not None else None))
        if t == "JoinedStrNode":
            # f-string: only ever used for messages in the functions under contract; kept as an opaque string constant
            return L(ast.Constant(value="<f-string>"))
        if t == "NewExprNode":
            return L(ast.Call(func=L(ast.Name(id="__new__", ctx=ast.Load())), args=[L(ast.Constant(value=self.type_name(n.cppclass)))], keywords=[]))
        if t == "ComprehensionNode":
            # [e for x in it if c] / {k: v for ...} / {e for ...}: one generator, optional conditions (nested IfStatNodes) around the append node
            loop = n.loop
            if type(loop).__name__ != "ForInStatNode":
                raise Unsupported("comprehension over %s" % type(loop).__name__)
            seq = loop.iterator.sequence if hasattr(loop.iterator, "sequence") else loop.iterator
            body, ifs = loop.body, []
            while type(body).__name__ == "IfStatNode" and len(body.if_clauses) == 1 and body.else_clause is None:
                ifs.append(self.expr(body.if_clauses[0].condition))
                body = body.if_clauses[0].body
            gen = ast.comprehension(target=self.expr(loop.target, store=True), iter=self.expr(seq), ifs=ifs, is_async=0)
            bt = type(body).__name__
            if bt == "DictComprehensionAppendNode":
                di = getattr(body, "dict_item", None)
                return L(ast.DictComp(key=self.expr(di.key if di is not None else body.key_expr), value=self.expr(di.value if di is not None else body.value_expr), generators=[gen]))
            if bt == "ComprehensionAppendNode":
                kind = str(getattr(n, "type", ""))
                elt = self.expr(body.expr)
                return L(ast.SetComp(elt=elt, generators=[gen])) if "set" in kind else L(ast.ListComp(elt=elt, generators=[gen]))
            raise Unsupported("comprehension body %s" % bt)
        if t == "SliceIndexNode":
            return L(ast.Subscript(value=self.expr(n.base), slice=L(ast.Slice(lower=self.expr(n.start) if n.start is not None else None,
                                                                               upper=self.expr(n.stop) if n.stop is not None else None, step=None)), ctx=ctx))
        raise Unsupported("Cython expression %s" % t)


BINOPS = {"+": ast.Add, "-": ast.Sub, "*": ast.Mult, "/": ast.Div, "//": ast.FloorDiv, "%": ast.Mod, "**": ast.Pow, "<<": ast.LShift, ">>": ast.RShift,
          "&": ast.BitAnd, "|": ast.BitOr, "^": ast.BitXor}
CMPOPS = {"<": ast.Lt, "<=": ast.LtE, ">": ast.Gt, ">=": ast.GtE, "==": ast.Eq, "!=": ast.NotEq, "is": ast.Is, "is_not": ast.IsNot, "is not": ast.IsNot,
          "in": ast.In, "not_in": ast.NotIn, "not in": ast.NotIn}


class CySource:
    def __init__(self, relpath, repo=None):
        self.repo = repo or REPO
        self.path = os.path.join(self.repo, relpath)
        with open(self.path, "rb") as f:
            data = f.read()
        self.sha = hashlib.sha256(data).hexdigest()[:16]
        cwd = os.getcwd()
        os.chdir(self.repo)     # so that .pxd cimports resolve like in the build
        try:
            tree = _parse(self.path, relpath[:-4].replace("/", "."))
        finally:
            os.chdir(cwd)
        self.functions = {}
        self.errors = {}
        self._collect(tree.body, "")

    def _collect(self, node, prefix):
        t = type(node).__name__
        if t == "StatListNode":
            for s in node.stats:
                self._collect(s, prefix)
        elif t in ("CFuncDefNode", "DefNode"):
            low = _Lower()
            try:
                if t == "CFuncDefNode":
                    d = node.declarator
                    while type(d).__name__ != "CFuncDeclaratorNode":
                        d = d.base
                    name = low.decl_name(d.base)
                    args = low.args_of(d.args)
                else:
                    name = node.name
                    args = low.args_of(node.args)
                fn = ast.FunctionDef(name=name, args=ast.arguments(posonlyargs=[], args=args, kwonlyargs=[], kw_defaults=[], defaults=[]),
                                     body=low.body(node.body) or [ast.Pass()], decorator_list=[], returns=None)
                fn.lineno = 0
                fn.col_offset = 0
                ast.fix_missing_locations(fn)
                self.functions[prefix + name] = fn
            except (Unsupported, AttributeError, KeyError, TypeError) as e:
                try:
                    nm = node.name if t == "DefNode" else low.decl_name(node.declarator)
                except Exception:
                    nm = "?"
                self.errors[prefix + str(nm)] = "%s: %s" % (type(e).__name__, e)
        elif t in ("CClassDefNode", "PyClassDefNode"):
            cname = getattr(node, "class_name", None) or getattr(node, "name", "?")
            self._collect(node.body, prefix + cname + ".")
        elif t in ("IfStatNode",):
            pass

    def fn_hash(self, qualname):
        n = self.functions.get(qualname)
        if n is None:
            return None
        return hashlib.sha256(ast.dump(n).encode()).hexdigest()[:12]


class VIter(VModel):
    """result of unordered_map.find(k) / .end(); `container is None`: a declared, not yet assigned iterator"""

    def __init__(self, container, key=None, end=False):
        self.container, self.key, self.end = container, key, end

    def havoc(self, eng, st, name):
        # an iterator local assigned in a loop body is only ever used after that assignment within the same iteration
        return VIter(None)


class VDeref:
    """ptr[0] for a pointer to a C++ vector: the pointee, viewed as a sequence (field `data` of the pointee class)"""

    def __init__(self, ref):
        self.ref = ref


class CPtr(VModel):
    """`char*` into a bytes object: (the byte sequence, offset).  p + k / p += k move the offset, p[k] reads sequence[offset + k]; every read is an
    in-bounds obligation (Cython's boundscheck does not apply to pointers; the terminating NUL of a bytes buffer is not modelled as readable)."""

    def __init__(self, base, off):
        self.base, self.off = base, off

    def sym_getitem(self, eng, st, key):
        k = self.off + to_z3(key)
        eng.oblige(st, "noexc", z3.And(k >= 0, k < self.base.len), "out-of-bounds-pointer-read")
        return from_z3(self.base.arr[k], self.base.elem)

    def sym_binop(self, eng, st, op, other):
        if isinstance(op, ast.Add):
            return CPtr(self.base, self.off + to_z3(other))
        if isinstance(op, ast.Sub):
            return CPtr(self.base, self.off - to_z3(other))
        raise Unsupported("pointer arithmetic %s" % type(op).__name__)

    def havoc(self, eng, st, name):
        return CPtr(self.base, z3.Int(fresh_name(name + ".off")))


class CyEngine(Engine):
    def cdecl(self):
        d = self.__dict__.setdefault("_cdecl", {})
        return d.setdefault(id(self.fn), {})

    def assign(self, target, v, st, fresh=True):
        if isinstance(target, ast.Name) and isinstance(v, VList) and self.cdecl().get(target.id) == "char*":
            v = CPtr(v, z3.IntVal(0))        # `char* p = bytes_object`: pointer to its first byte
        return super().assign(target, v, st, fresh)

    def binop(self, op, a, b, st, node=None):
        if isinstance(a, CPtr):
            return a.sym_binop(self, st, op, b)
        return super().binop(op, a, b, st, node)

    def annotation_sort(self, ann):
        name = ann.value
        s = self.reg.ctypes.get(name) if hasattr(self.reg, "ctypes") else None
        if s is None:
            raise Unsupported("C type %s has no sort in the contract file" % name)
        return s

    def stmt_AnnAssign(self, node, st):
        self.cdecl()[node.target.id] = node.annotation.value
        if node.value is None and node.annotation.value == "char*":
            st.env[node.target.id] = NONE        # uninitialised pointer: any use before an assignment is an error of the engine's None handling
            yield st, ("next",)
            return
        if node.annotation.value.endswith("]") and "[:" in node.annotation.value and node.annotation.value not in getattr(self.reg, "ctypes", {}):
            # a typed memoryview: the element type decides what a stored value becomes (an `unsigned char[:]` wraps at 256), so it needs a declared sort
            raise Unsupported("typed memoryview %s has no sort in the contract file" % node.annotation.value)
        if node.value is not None and node.annotation.value not in getattr(self.reg, "ctypes", {}):
            # a declared-and-initialised local of a C type without a sort (e.g. an iterator): its value is whatever the initialiser yields
            st.env[node.target.id] = self.eval(node.value, st)
            yield st, ("next",)
            return
        if node.value is None and node.annotation.value not in getattr(self.reg, "ctypes", {}) and "iterator" in node.annotation.value:
            st.env[node.target.id] = VIter(None)        # an uninitialised C++ iterator: assigned before its first use
            yield st, ("next",)
            return
        sort = self.annotation_sort(node.annotation)
        if node.value is None:
            st.env[node.target.id] = sort.fresh(node.target.id)
        else:
            st.env[node.target.id] = self.coerce(self.eval(node.value, st), sort, st)
        yield st, ("next",)

    def getitem(self, base, key, st):
        if isinstance(base, VRef) and self.reg.classes.get(base.cls) is not None and self.reg.is_pointee(base.cls):
            # ptr[0]: dereference; the pointee is an immutable value identified with its reference
            k = z3.simplify(to_z3(key))
            if not (z3.is_int_value(k) and k.as_long() == 0):
                raise Unsupported("pointer arithmetic / ptr[i] with i != 0")
            self.oblige(st, "noexc", base.ref != 0, "NULL-dereference")
            return VDeref(base)
        if isinstance(base, VDeref):
            return super().getitem(self.load_field(st, base.ref, "data"), key, st)
        return super().getitem(base, key, st)

    def value_method(self, recv, name, args, st):
        if isinstance(recv, VDeref):
            data = self.load_field(st, recv.ref, "data")
            if name == "size":
                return data.len
            if name == "at":
                return super().getitem(data, args[0], st)
        if isinstance(recv, VRef) and self.reg.is_pointee(recv.cls) and name in ("at", "size", "push_back"):
            # ptr.method(): Cython dereferences the pointer; the pointee is a C++ vector (field `data`)
            self.oblige(st, "noexc", recv.ref != 0, "NULL-dereference")
            data = self.load_field(st, recv, "data")
            if name == "size":
                return data.len
            if name == "at":
                i = to_z3(args[0])
                self.oblige(st, "noexc", z3.And(i >= 0, i < data.len), "vector.at-out-of-range")
                return from_z3(data.arr[i], data.elem)
            self.store_field(st, recv, "data", self.list_append(data, args[0]))
            return NONE
        if isinstance(recv, VList) and name == "encode" and not args:
            self.assumptions.add("str.encode() taken as the identity on the sequence of code units: inputs are bytes or ASCII str "
                                 "(for non-ASCII str the UTF-8 length differs from len())")
            return recv
        return NotImplemented

    def compare(self, op, a, b, st):
        if isinstance(a, VIter) or isinstance(b, VIter):
            it, other = (a, b) if isinstance(a, VIter) and not a.end else (b, a)
            if not (isinstance(other, VIter) and other.end) or it.container is None:
                raise Unsupported("iterator comparison")
            present = it.container.dom[to_z3(it.key, it.container.key)]
            if isinstance(op, ast.Eq):
                return z3.Not(present)
            if isinstance(op, ast.NotEq):
                return present
            raise Unsupported("iterator ordering")
        return super().compare(op, a, b, st)
