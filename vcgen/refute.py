"""Finite-instance counter-model search for obligations the complete back ends leave undecided.

z3 proves our quantified obligations in milliseconds but answers `unknown` instead of `sat` when one is
false.  Here every quantifier over integers (object references are integers as well) is expanded over a
small carrier {-1 .. N}; the result is quantifier-free over arrays/uninterpreted functions, where `sat`
is easy.  A model found this way is a *candidate*: the hypotheses were only instantiated on the carrier, so it
is reported as `refuted(finite-instance)` only if the same expansion of the same clause was `unsat` on the
unchanged tree (recorded in expected_obligations.json), and it never replaces the replay on the real code.
"""
import itertools
import time
import z3


def expand(e, dom, cache):
    k = e.get_id()
    if k in cache:
        return cache[k]
    if z3.is_quantifier(e):
        n = e.num_vars()
        sorts = [e.var_sort(i) for i in range(n)]
        body = e.body()
        if all(s == z3.IntSort() for s in sorts) and not e.is_lambda():
            parts = []
            for vals in itertools.product(dom, repeat=n):
                # de Bruijn: variable 0 is the innermost = last bound
                inst = z3.substitute_vars(body, *reversed([z3.IntVal(v) for v in vals]))
                parts.append(expand(inst, dom, cache))
            r = z3.And(*parts) if e.is_forall() else z3.Or(*parts)
        elif e.is_lambda():
            r = e  # lambdas (array comprehensions) are kept; z3 handles them by beta reduction on select
        else:
            # quantifier over a non-integer sort (array-valued axiom schemata): dropped (only weakens hypotheses
            # when it occurs positively; our generator emits such quantifiers only as background axioms)
            r = z3.BoolVal(True) if e.is_forall() else z3.BoolVal(False)
        cache[k] = r
        return r
    if z3.is_app(e) and e.num_args() > 0:
        args = [expand(a, dom, cache) for a in e.children()]
        r = e.decl()(*args)
        cache[k] = r
        return r
    cache[k] = e
    return e


def finite_instance_check(smt2, n=3, timeout_ms=20000):
    """-> (verdict, seconds, model string).  verdict in sat/unsat/unknown (for the EXPANDED problem)."""
    ctx = z3.Context()
    s0 = z3.Solver(ctx=ctx)
    s0.from_string(smt2)
    dom = list(range(-1, n + 1))
    # z3 objects of a non-default context: rebuild IntVal in that context
    cache = {}
    t = time.time()
    # ground terms of array sort occurring in the problem: instantiation candidates for axioms quantified over arrays (SUM, ...)
    ground = {}
    seen = set()

    def collect(e, bound):
        k = (e.get_id(), bound)
        if k in seen:
            return
        seen.add(k)
        if z3.is_quantifier(e):
            if e.is_lambda() and not bound and not _has_var(e.body()) is False:
                pass
            collect(e.body(), True)
            if e.is_lambda() and not bound:
                ground.setdefault(e.sort().sexpr(), {})[e.get_id()] = e
            return
        if z3.is_app(e):
            for c in e.children():
                collect(c, bound)
            if not bound and isinstance(e.sort(), z3.ArraySortRef) and not _has_var(e):
                ground.setdefault(e.sort().sexpr(), {})[e.get_id()] = e
    for a in s0.assertions():
        collect(a, False)
    _GROUND[id(ctx)] = {k: list(v.values())[:6] for k, v in ground.items()}

    def ex(e):
        return _expand_ctx(e, dom, cache, ctx)
    s = z3.Solver(ctx=ctx)
    s.set("timeout", timeout_ms)
    try:
        for a in s0.assertions():
            s.add(ex(a))
    except RecursionError:
        return "unknown", time.time() - t, ""
    for side in _SIDE.pop(id(ctx), []):
        s.add(side)
    r = s.check()
    model = ""
    if r == z3.sat:
        model = str(s.model())[:8000]
    return str(r), time.time() - t, model


_GROUND = {}
_SIDE = {}


def _has_var(e):
    if z3.is_var(e):
        return True
    if z3.is_quantifier(e):
        return False
    return any(_has_var(c) for c in e.children()) if z3.is_app(e) else False


def _expand_ctx(e, dom, cache, ctx):
    k = e.get_id()
    if k in cache:
        return cache[k][1]
    if z3.is_quantifier(e):
        n = e.num_vars()
        sorts = [e.var_sort(i) for i in range(n)]
        body = e.body()
        if e.is_lambda():
            r = e
        elif all(s == z3.IntSort(ctx) for s in sorts):
            parts = []
            for vals in itertools.product(dom, repeat=n):
                inst = z3.substitute_vars(body, *reversed([z3.IntVal(v, ctx) for v in vals]))
                parts.append(_expand_ctx(inst, dom, cache, ctx))
            r = z3.And(parts, ctx) if e.is_forall() else z3.Or(parts, ctx)
        else:
            # mixed quantifier (arrays and integers): instantiate array variables with the ground array terms of the problem
            g = _GROUND.get(id(ctx), {})
            cands = []
            for srt in sorts:
                if srt == z3.IntSort(ctx):
                    cands.append([z3.IntVal(v, ctx) for v in dom])
                else:
                    cands.append(g.get(srt.sexpr(), []))
            n_arr = sum(1 for srt in sorts if srt != z3.IntSort(ctx))
            if e.is_forall() and n_arr <= 1 and all(cands) and len(list(itertools.islice(itertools.product(*cands), 600))) < 600:
                parts = []
                for vals in itertools.product(*cands):
                    inst = z3.substitute_vars(body, *reversed(list(vals)))
                    parts.append(_expand_ctx(inst, dom, cache, ctx))
                r = z3.And(parts, ctx)
            else:
                r = z3.BoolVal(True, ctx) if e.is_forall() else z3.BoolVal(False, ctx)
        cache[k] = (e, r)     # keep e alive: z3 reuses ast ids of freed terms
        return r
    if z3.is_app(e) and e.num_args() > 0:
        args = [_expand_ctx(a, dom, cache, ctx) for a in e.children()]
        if e.decl().name() == "SUM" and len(args) == 3:
            # SUM(f, a, b) over the finite carrier: an explicit sum, valid when [a, b) lies inside the carrier (side condition collected)
            f, a, b = args
            lo, hi = min(dom), max(dom)
            terms = [z3.If(z3.And(a <= j, b > j), z3.Select(f, z3.IntVal(j, ctx)), z3.IntVal(0, ctx)) for j in dom]
            r = z3.Sum(terms) if terms else z3.IntVal(0, ctx)
            _SIDE.setdefault(id(ctx), []).append(z3.And(a >= lo, b <= hi + 1))
        else:
            r = e.decl()(*args)
        cache[k] = (e, r)     # keep e alive: z3 reuses ast ids of freed terms
        return r
    cache[k] = (e, e)
    return e
