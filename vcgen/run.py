"""Run the deductive part for one contract module: generate obligations from /repo's current source,
discharge, aggregate per named clause."""
import importlib
import json
import os
import sys
import time
import traceback

import z3

from . import backends
from .api import PySource, REPO
from .engine import Engine, Obligation
from .values import Unsupported


def load_source(reg):
    if reg.lang == "python":
        src = PySource(reg.file)
        # CLIENT LEMMAS: small functions written in the contract file that only CALL functions under contract.  They are verified modularly like any
        # other function -- against the callees' contracts, never their bodies -- so their postcondition is a lemma over those contracts (e.g. a round trip
        # write -> read).  They are not code of /repo and are reported as lemmas.
        import ast as _ast
        for q, text in getattr(reg, "client_lemmas", {}).items():
            src.functions[q] = _ast.parse(text).body[0]
        return src
    if reg.lang == "cython":
        from .fe_cython import CySource
        src = CySource(reg.file)
        import ast as _ast
        for q, text in getattr(reg, "client_lemmas", {}).items():
            src.functions[q] = _ast.parse(text).body[0]      # client lemmas are written in plain Python syntax
        return src
    if reg.lang == "cpp":
        from .fe_clang import CppSource
        return CppSource(reg.file)
    raise ValueError(reg.lang)


def make_engine(reg, src):
    if reg.lang == "cpp":
        from .fe_clang import CppEngine
        return CppEngine(reg, src, reg.file)
    if reg.lang == "cython":
        from .fe_cython import CyEngine
        return CyEngine(reg, src, reg.file)
    return Engine(reg, src, reg.file)


def generate(reg, only=None):
    """-> (obligations, per-function info, unsupported list)"""
    src = load_source(reg)
    obligations, info, problems = [], [], []
    for q, c in reg.contracts.items():
        if only and q not in only:
            continue
        rec = dict(function=c.label(), props=c.props, assumed=c.assumed, inline=c.inline)
        if getattr(c, "proved_in", None):
            rec["assumed"] = False
            rec["imported_from"] = c.proved_in
            rec["status"] = "imported: proved in %s, used here at call sites only" % c.proved_in
            info.append(rec)
            continue
        if c.assumed:
            rec["status"] = "assumed (contract trusted at call sites, body not verified)"
            info.append(rec)
            continue
        eng = make_engine(reg, src)
        t = time.time()
        try:
            obs = eng.verify(c)
            rec.update(status="generated", obligations=len(obs), paths=eng.paths, requires_satisfiable=bool(eng.cover_requires),
                       exits_reached=eng.covered_exits, source_hash=src.fn_hash(c.extra.get('target', q)), gen_s=round(time.time() - t, 2),
                       assumptions=sorted(eng.assumptions))
            obligations += obs
        except Unsupported as e:
            rec.update(status="unsupported", reason=str(e))
            problems.append((c.label(), "unsupported: " + str(e)))
        except KeyError as e:
            rec.update(status="target-missing", reason=str(e))
            problems.append((c.label(), "target missing: " + str(e)))
        except (z3.Z3Exception, TypeError, AttributeError, IndexError, ValueError, AssertionError) as e:
            # the symbolic execution of THIS function's text failed inside the engine (typically a construct combined in a way the value model does not
            # cover, e.g. after a change to the function): the function is outside the supported subset on this tree -- undecided, like Unsupported
            rec.update(status="unsupported", reason="engine could not execute the function: %s: %s" % (type(e).__name__, str(e)[:200]))
            problems.append((c.label(), "unsupported: engine could not execute the function: %s: %s" % (type(e).__name__, str(e)[:200])))
        info.append(rec)
    # lemmas over contracts
    for name, props, fn in reg.lemmas:
        hyp, goals = fn()
        for g, goal in goals.items():
            obligations.append(Obligation("%s/%s" % (name, g), "lemma", hyp, goal, name, props))
    return obligations, info, problems, src


def run_canaries(reg, src):
    out = []
    for name, mk in reg.canaries:
        c = mk()
        eng = make_engine(reg, src)
        try:
            obs = [o for o in eng.verify(c) if o.kind in ("ensures", "inv-preserve", "inv-init", "pre@call", "assert", "variant")]
        except (Unsupported, KeyError) as e:
            # the target itself left the subset / is missing on this tree: reported as undecided by generate(); not an encoder problem
            out.append(dict(name=name, ok=True, skipped="target not in the supported subset on this tree: %s" % (e,)))
            continue
        except Exception as e:
            out.append(dict(name=name, ok=False, why="canary generation failed: %r" % (e,)))
            continue
        res = backends.discharge(obs, canary=True)
        bad = [r for r in res if r["verdict"] != "discharged"]
        refuted = [r for r in res if r["verdict"].startswith("refuted")]
        out.append(dict(name=name, ok=bool(bad), refuted=len(refuted), not_discharged=len(bad), obligations=len(obs)))
    for name, fn in getattr(reg, "lemma_canaries", []):
        hyp, goals = fn()
        for g, goal in goals.items():
            res = backends.discharge([Obligation("%s/%s" % (name, g), "lemma", hyp, goal, name, [])], canary=True)
            out.append(dict(name="%s/%s" % (name, g), ok=res[0]["verdict"] != "discharged", refuted=int(res[0]["verdict"].startswith("refuted")),
                            not_discharged=int(res[0]["verdict"] != "discharged"), obligations=1))
    return out


def run_module(modname, only=None, canaries=True):
    mod = importlib.import_module(modname)
    reg = mod.R
    t0 = time.time()
    obligations, info, problems, src = generate(reg, only)
    results = backends.discharge(obligations)
    clauses = {}
    for o, r in zip(obligations, results):
        c = clauses.setdefault(o.name, dict(name=o.name, kind=o.kind, props=o.props, paths=0, discharged=0, refuted=0, refuted_finite=0, undecided=0,
                                            seconds=0.0, backends=set(), models=[], fn=o.fn))
        c["paths"] += 1
        c["seconds"] += r["seconds"]
        c["backends"].add(r["backend"])
        if r["verdict"] == "discharged":
            c["discharged"] += 1
        elif r["verdict"] in ("refuted", "refuted-finite"):
            c["refuted" if r["verdict"] == "refuted" else "refuted_finite"] += 1
            c["models"].append(dict(path=o.note, backend=r["backend"], model=r["model"], log=r["log"]))
        else:
            c["undecided"] += 1
            c["models"].append(dict(path=o.note, backend="-", model="", log=r["log"]))
    for c in clauses.values():
        c["backends"] = sorted(c["backends"])
        c["seconds"] = round(c["seconds"], 3)
        c["verdict"] = "refuted" if c["refuted"] else ("refuted-finite" if c["refuted_finite"] else ("undecided" if c["undecided"] else "discharged"))
    can = run_canaries(reg, src) if canaries else []
    xc = []
    if canaries and hasattr(mod, "CROSSCHECK"):
        # CPython cross-check of the encoder on this module's functions (concrete runs of the same engine vs the real functions)
        try:
            from . import crosscheck
            cases = mod.CROSSCHECK()
            if only:
                cases = [c for c in cases if c.qualname in only]
            xc = crosscheck.run_module(reg, cases)
        except Exception:
            xc = [dict(function=modname, runs=0, skipped=0, mismatches=[dict(error=traceback.format_exc()[-600:])])]
    return dict(module=modname, file=reg.file, source_sha=src.sha, functions=info, problems=problems, crosscheck=xc,
                clauses=sorted(clauses.values(), key=lambda c: c["name"]), canaries=can,
                n_obligations=len(obligations), wall_s=round(time.time() - t0, 2))


if __name__ == "__main__":
    sys.path.insert(0, os.path.dirname(os.path.dirname(os.path.abspath(__file__))))
    r = run_module(sys.argv[1], only=sys.argv[2:] or None)
    for f in r["functions"]:
        print("FN", f)
    for c in r["clauses"]:
        print("%-14s %-90s paths=%d %.2fs %s" % (c["verdict"], c["name"], c["paths"], c["seconds"], ",".join(c["backends"])))
        if c["verdict"] != "discharged":
            for m in c["models"][:1]:
                print("     ", m["path"], m["log"], m["model"][:1500].replace("\n", " "))
    print("CANARIES", r["canaries"])
    print("CROSSCHECK", [(x["function"], x["runs"], x["skipped"], len(x["mismatches"])) for x in r.get("crosscheck", [])])
    print("PROBLEMS", r["problems"])
    print("obligations", r["n_obligations"], "wall", r["wall_s"])
